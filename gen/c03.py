"""C03 — a snapshot or iterator sees exactly the state at its creation, forever."""
from gen import lib, dbh

PROP_FILE = "props/C03.v"
RULE = ("dbhist: histories in which up to 3 snapshots and up to 3 iterators (with and without "
        "snapshot) are taken at arbitrary points and outlive later writes, deletes, flushes, "
        "compact_range calls and obsolete-file deletion; gets at every live snapshot and iterator "
        "scripts are compared with frozen copies of the specification map; get and iteration at the "
        "same snapshot are both compared with the same frozen map. Non-trivial: at least one snapshot "
        "or iterator that outlives a write; distinct by sha1.")
TRUSTED = ["API specification with frozen maps (coq/model/DbSpec.v)"]
ASSUMPTIONS = ["single client thread; background compaction runs concurrently and is waited for only at W tokens"]


def gen_cases(tier, rng):
    n = 60 if tier == "quick" else 3000
    w = dict(put=30, batch=8, get=4, snap=10, iter=16, compact=4, reopen=1, wait=4)
    w["del"] = 12
    return [dbh.gen_history(rng, i, rng.choice([40, 80, 160, 300]), w) for i in range(n)]


def suites(tier, seed, rng):
    return [dbh.DbSuite(dbh.corpus("C03") + gen_cases(tier, rng))]


def replay_suites(rp):
    return [dbh.DbSuite([rp["case"]])]


def still_fails(suite, case, workdir):
    return dbh.still_fails(case, workdir)


def nontrivial(suite, case):
    return (" S" in case or " J" in case) and (" P" in case or " B" in case)


def classify(suite, case):
    return "dbhist:snaps=%d,iters=%d" % (min(case.count(" S"), 6), min(case.count(" J"), 6))
