"""Table-file layout correspondence (`tfile`): files built by the real TableBuilder; the extracted
model [TableFile.v] must decode the footer to the handles the real reader uses, re-encode it to
the file's last 48 bytes, accept every stored block (trailer check), and, for single-byte changes
anywhere in the file, agree with the real reader on whether the table opens and which data blocks
still read back."""
from gen import lib, c13


def gen_cases(tier, rng):
    n = 60 if tier == "quick" else 400
    cases = []
    for i in range(n):
        es = c13.rand_entries(rng, rng.randrange(1, 14), rng.choice([1, 2, 6, 40]), [0, 1, 10, 100, 700])
        if not es:
            continue
        bs = rng.choice([16, 64, 256, 4096])
        cases.append("f%d %d:1 %d %d %s" % (i, bs, 40 if tier == "quick" else 60, rng.randrange(1, 1 << 30),
                                             " ".join(c13.etok(e) for e in es)))
    return cases


class TFileSuite:
    suite = "tfile"

    def __init__(self, cases):
        self.cases = cases
        self.stats = {"tables": 0, "blocks": 0, "mutations": 0}

    def execute(self, workdir, tag="tf"):
        impl = lib.run_sharded(lib.RVH, "tfile", self.cases, workdir, tag + "i")
        mcases = [impl.get(c.split(" ", 1)[0], c.split(" ", 1)[0] + " MISSING") for c in self.cases]
        model = lib.run_sharded(lib.DRIVER, "tfile", mcases, workdir, tag + "m")
        corr, prop = [], []
        for c in self.cases:
            cid = c.split(" ", 1)[0]
            il = impl.get(cid, cid + " MISSING")
            v = model.get(cid, cid + " MISSING")
            f = v.split(" ")
            if len(f) >= 4 and f[1] == "ok":
                self.stats["tables"] += 1
                self.stats["blocks"] += int(f[2][7:])
                self.stats["mutations"] += int(f[3][10:])
            else:
                d = f[1][5:].replace("_", " ") if len(f) > 1 and f[1].startswith("DIFF:") else (il[:120] + " / " + v[:200])
                corr.append({"case": c, "impl": lib.trunc(il[il.find(" ", len(cid) + 2):], 600) if " " in il else il[:300],
                             "model": lib.trunc(v, 400), "detail": "table file layout: " + lib.trunc(d, 400)})
        return corr, prop
