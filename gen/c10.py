"""C10 — the reported LSM shape is always well formed."""
from gen import lib, vfn, dbh, codec, proto

PROP_FILE = "props/C10.v"
RULE = ("dbhist: histories with frequent flushes, compact_range calls and reopens (options changed, "
        "reuse_log_files flipped); at every quiescent point and after every reopen the structural dump "
        "(file bounds + the entries read back from every table file) is judged by the extracted "
        "invariant lsm_wf_b (levels >= 1 sorted and disjoint, bounds exactly first/last entry, smallest "
        "<= largest, file numbers unique, recency order) and the SSTables / NumFilesAtLevel descriptors "
        "are cross-checked against the dump. vfn: VersionBuilder::apply_changes on random versions and "
        "edits; the size score of Version::finalize on versions whose levels sit next to their budgets; "
        "iterator read sampling (record_read_sample / update_stats) with 99..230 samples on keys held by "
        "two files. seek: a key in tables at two levels and more than 100 freshly positioned iterators, so "
        "that a seek-triggered compaction is picked from iterator read samples. proto: every manifest record the code writes (snapshot records with the bounds of every "
        "file included) must equal, field by field, the record the protocol model derives. "
        "Non-trivial: at least one write; distinct by sha1.")
TRUSTED = ["the structural dump hook DB::verif_dump (cfg raindb_verif) reports the current version; file contents are read back through the real Table reader"]
ASSUMPTIONS = ["observed at quiescent moments (the harness waits for background work before dumping)"]


def gen_cases(tier, rng):
    n = 50 if tier == "quick" else 2500
    w = dict(put=40, batch=10, get=2, snap=1, iter=0, compact=5, reopen=5, wait=6)
    w["del"] = 10
    return [dbh.gen_history(rng, i, rng.choice([40, 80, 160, 300]), w) for i in range(n)]


def gen_seek(tier, rng):
    """seek-triggered compactions: a key present in tables at two different levels, then more
    than 100 freshly positioned iterators (each takes one read sample and charges the younger
    table); the compaction that follows must leave a well-formed shape"""
    cases = []
    n = 4 if tier == "quick" else 150
    beyond = "Cx7a7a7a7a:x7a7a7a7a7a"           # flushes the memtable, touches no table
    for i in range(n):
        lo, hi = "x%02x" % rng.randrange(0x41, 0x50), "x%02x" % rng.randrange(0x60, 0x7a)
        toks = ["s%d" % i, "1048576:2097152:%d:%d" % (rng.choice([256, 4096]), rng.randrange(2))]
        layers = rng.choice([2, 2, 3])
        for l in range(layers):
            toks += ["P%s=%s" % (lo, dbh.rval(rng, 60)), "P%s=%s" % (hi, dbh.rval(rng, 60))]
            if rng.random() < 0.4:
                toks.append("P%s=%s" % ("x%02x" % rng.randrange(0x50, 0x60), dbh.rval(rng, 30)))
            toks += [beyond, "W"]
        toks += ["V", "X", "A", "T", "M%d" % rng.choice([100, 101, 120, 230]), "W", "V", "X", "A", "T"]
        if rng.random() < 0.5:
            toks += ["O1048576:2097152:4096:%d" % rng.randrange(2), "V", "X", "A", "T", "M%d" % rng.choice([100, 150]), "W", "V", "X", "A", "T"]
        cases.append(" ".join(toks))
    return cases


def suites(tier, seed, rng):
    return [dbh.DbSuite(dbh.corpus("C10") + dbh.corpus("C01") + gen_cases(tier, rng) + gen_seek(tier, rng)),
            vfn.VfnSuite("vfn", vfn.gen(tier, rng, {"apply", "score", "samples"}), lambda i, s, c: True),
            codec.CodecSuite("codec", codec.gen(tier, rng, ("V",)), lambda i, s, c: True),
            proto.ProtoSuite([proto.gen_history(rng, i, rng.choice([12, 25, 40])) for i in range(16 if tier == "quick" else 800)])]


def replay_suites(rp):
    if rp.get("suite") == "vfn":
        return [vfn.VfnSuite("vfn", [rp["case"]], lambda i, s, c: True)]
    if rp.get("suite") == "proto":
        return [proto.ProtoSuite([rp["case"]])]
    return [dbh.DbSuite([rp["case"]])]


def still_fails(suite, case, workdir):
    if suite == "vfn":
        return vfn.still_fails(case, workdir)
    if suite == "proto":
        return proto.still_fails(case, workdir)
    return dbh.still_fails(case, workdir)


def nontrivial(suite, case):
    return " P" in case or " B" in case or case.count(" F") >= 2


def classify(suite, case):
    if suite == "vfn":
        return "vfn:" + case.split(" ")[2]
    if suite == "codec":
        return "codec:manifest"
    if suite == "proto":
        return "proto:reopens=%d" % min(case.count(" O"), 3)
    return "dbhist:reopens=%d" % min(case.count(" O"), 5)
