"""Protocol correspondence (`proto`): after every operation of a history (and after the background
work it caused) the complete directory — CURRENT, every manifest, every write-ahead log, every
table file, temp files — is compared with the directory the extracted persistence-protocol model
[Proto.p_run] derives from the same operations (byte for byte for CURRENT and logs, record by
record for manifests, entry by entry for tables). Shared by C02, C10, C11, C16."""
from gen import lib, crash


def gen_history(rng, hid, nops):
    toks = crash.gen_history(rng, "q%s" % hid, nops, reopen_p=0.08, compact_p=0.05)
    return " ".join(t for t in toks if t[0] != "G")


class ProtoSuite:
    suite = "proto"

    def __init__(self, cases):
        self.cases = cases
        self.stats = {"operations": 0, "protocol_steps": 0, "reopens": 0, "compactions": 0}

    def execute(self, workdir, tag="pt"):
        impl = lib.run_sharded(lib.RVH, "proto", self.cases, workdir, tag + "i",
                               extra_env={"RVH_CASE_TIMEOUT": "240"})
        mcases = []
        for c in self.cases:
            cid = c.split(" ", 1)[0]
            mcases.append(impl.get(cid, cid + " MISSING"))
        model = lib.run_sharded(lib.DRIVER, "proto", mcases, workdir, tag + "m")
        corr, prop = [], []
        for c in self.cases:
            cid = c.split(" ", 1)[0]
            il = impl.get(cid, cid + " MISSING")
            v = model.get(cid, cid + " MISSING")
            f = v.split(" ")
            self.stats["reopens"] += c.count(" O")
            self.stats["compactions"] += il.count("|C[")
            if "HANG" in il.split(" ")[1:2] or "HARNESS-PANIC" in il or "BGPANIC" in il or "MISSING" in il:
                corr.append({"case": c, "impl": lib.trunc(il, 600), "model": "", "detail": "run failed: " + il[:200]})
            elif len(f) >= 4 and f[1] == "ok":
                self.stats["operations"] += int(f[2][5:])
                self.stats["protocol_steps"] += int(f[3][6:])
            else:
                d = f[1][5:].replace("_", " ") if len(f) > 1 and f[1].startswith("DIFF:") else v[:300]
                corr.append({"case": c, "impl": lib.trunc(il, 1200), "model": lib.trunc(v, 600),
                             "detail": "the directory differs from the protocol model's: " + lib.trunc(d, 500)})
        return corr, prop


def still_fails(case, workdir):
    s = ProtoSuite([case])
    corr, prop = s.execute(workdir, tag="sh")
    return any("directory differs" in x.get("detail", "") for x in corr)
