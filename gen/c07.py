"""C07 — compaction and flushing are invisible to readers."""
from gen import lib, vfn, dbh, c01

PROP_FILE = "props/C07.v"
RULE = ("vfn: random well-formed versions (levels >= 1 sorted and disjoint, consecutive files may "
        "share a boundary user key; level 0 overlapping) over a small key universe so that ties and "
        "boundary files are frequent; functions get_key_range_for_files/_multiple_levels, "
        "get_overlapping_compaction_inputs (level 0 restart loop, open ends), add_boundary_inputs "
        "through finalize_compaction_inputs, is_trivial_move, is_base_level_for_key compared with "
        "the model; the implementation's chosen inputs are judged by the extracted closure predicate. "
        "Non-trivial: at least two files in the version; distinct by sha1.")
TRUSTED = ["modelled: the selection functions of file_metadata.rs, version.rs, compaction/manifest.rs (see coq/model/Version.v)"]
ASSUMPTIONS = []


def corpus():
    import os
    d = os.path.join(lib.VERIF, "corpus", "C07")
    res = []
    if os.path.isdir(d):
        for f in sorted(os.listdir(d)):
            if f.startswith("vfn"):
                res += [l.strip() for l in open(os.path.join(d, f)) if l.strip() and not l.startswith("#")]
    return res


def gen_db(tier, rng):
    n = 50 if tier == "quick" else 2500
    w = dict(put=35, batch=8, get=3, snap=6, iter=1, compact=8, reopen=1, wait=6)
    w["del"] = 16
    return [dbh.gen_history(rng, i, rng.choice([60, 120, 250]), w) for i in range(n)]


def suites(tier, seed, rng):
    return [vfn.VfnSuite("vfn", corpus() + vfn.gen(tier, rng, {"range", "oci", "fin", "plmo"}), lambda i, s, c: True),
            dbh.DbSuite(dbh.corpus("C07") + gen_db(tier, rng) + c01.gen_seek_l0(tier, rng))]


def replay_suites(rp):
    if rp.get("suite") == "dbhist":
        return [dbh.DbSuite([rp["case"]])]
    return [vfn.VfnSuite("vfn", [rp["case"]], lambda i, s, c: True)]


def still_fails(suite, case, workdir):
    if suite == "dbhist":
        return dbh.still_fails(case, workdir)
    return vfn.still_fails(case, workdir)


def nontrivial(suite, case):
    return case.count(" F") >= 2 or " P" in case


def classify(suite, case):
    return "dbhist" if suite == "dbhist" else "vfn:" + case.split(" ")[2]
