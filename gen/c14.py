"""C14 — filters never hide a key that is present."""
import os
from gen import lib, params

PROP_FILE = "props/C14.v"
RULE = ("bloom: key sets of size 0..3000 (duplicates, empty key, every key length mod 4, 0x00/0xff "
        "bytes) x bits_per_key 0..200 (all of 1..64); every key of the set is queried against the "
        "filter created from it, filter bytes compared with the model. fblock: builder event "
        "sequences (add_key* notify(offset))* as TableBuilder issues them, offsets enumerated around "
        "multiples of the 2 KiB filter range (several blocks per range, one block spanning several "
        "ranges), every key queried at its block's start offset. table: files built by the real "
        "TableBuilder (versions of one key straddling block and filter-range boundaries; blocks that "
        "start a few bytes around multiples of 2048): every stored key must match the filter consulted "
        "at its own block's offset. Non-trivial = at least one key; "
        "distinct by sha1 of the case.")
TRUSTED = [
    "modelled: BloomFilterPolicy::{new,hash,create_filter,key_may_match}, FilterBlockBuilder, FilterBlockReader (byte exact)",
    "the f64 computation floor(bits_per_key*0.69) is modelled by integer arithmetic (bpk*69/100), compared for bits_per_key 0..200",
]
ASSUMPTIONS = ["key sets small enough that keys*bits_per_key < 2^32 (the `as u32` truncation in create_filter; stated as a hypothesis of the theorem)"]


def rkey(rng):
    r = rng.random()
    if r < 0.1:
        return "x"
    if r < 0.5:
        n = rng.randrange(1, 10)
        return "x" + "".join("%02x" % rng.choice([0, 255, rng.randrange(256), 97, 98]) for _ in range(n))
    return "p%d.%d.%d" % (rng.randrange(0, 40), rng.randrange(256), rng.choice([0, 1, 7, 255]))


def gen_bloom(tier, rng):
    cases = []
    i = 0
    for bpk in list(range(0, 66)) + [100, 127, 128, 200]:
        for rep in range(2 if tier == "quick" else 20):
            n = rng.choice([0, 1, 2, 3, 5, 8, 13, 50]) if rep == 0 else rng.randrange(0, 200)
            keys = [rkey(rng) for _ in range(n)]
            if keys and rng.random() < 0.3:
                keys.append(keys[0])
            cases.append("b%d %d %s %s" % (i, bpk, rkey(rng), ",".join(keys)))
            i += 1
    # a filter written under one bits-per-key setting and read by a policy object configured with
    # another (options changed between two opens): the probe count stored in the filter decides
    for rep in range(60 if tier == "quick" else 1500):
        bw, br = rng.choice([1, 2, 4, 7, 10, 16, 30, 64]), rng.choice([1, 2, 4, 7, 10, 16, 30, 64, 128])
        if bw == br:
            continue
        keys = [rkey(rng) for _ in range(rng.choice([1, 3, 10, 60, 300]))]
        cases.append("b%d %d %s %s %d" % (i, bw, rkey(rng), ",".join(keys), br))
        i += 1
    # every key length 0..9 alone and together
    for bpk in (1, 10, 64):
        for l in range(0, 10):
            cases.append("b%d %d x00 %s" % (i, bpk, "p%d.250.1" % l))
            i += 1
    for n in ([1000, 3000] if tier == "quick" else [1000, 3000, 3000, 2000, 2500]):
        keys = ["p%d.%d.%d" % (rng.randrange(1, 12), j % 256, (j // 256) * 2 + 1) for j in range(n)]
        cases.append("b%d %d x61 %s" % (i, rng.choice([1, 10, 16]), ",".join(keys)))
        i += 1
    return cases


def gen_fblock(tier, rng):
    cases = []
    i = 0
    R = 2048
    # enumerated offsets around multiples of the range size
    deltas = [-2, -1, 0, 1, 2]
    offs_sets = []
    for a in (1, 2, 3):
        for da in deltas:
            for b in (0, 1, 2, 5):
                for db in (deltas if tier == "thorough" else [-1, 0, 1]):
                    o1 = a * R + da
                    o2 = o1 + b * R + db
                    if o2 > o1 > 0:
                        offs_sets.append([o1, o2])
    for offs in offs_sets:
        evs = []
        for j, o in enumerate(offs + [None]):
            for _ in range(rng.randrange(1, 4)):
                evs.append("K" + rkey(rng))
            if o is not None:
                evs.append("N%d" % o)
        cases.append("f%d %d %s" % (i, rng.choice([1, 10, 10, 16]), " ".join(evs)))
        i += 1
    nrand = 300 if tier == "quick" else 10000
    for _ in range(nrand):
        evs = []
        off = 0
        for _b in range(rng.randrange(0, 8)):
            for _ in range(rng.randrange(1, 5)):
                evs.append("K" + rkey(rng))
            off += rng.choice([1, 20, 100, 700, 2047, 2048, 2049, 4096, 5000, 10000])
            if rng.random() < 0.85:
                evs.append("N%d" % off)
        cases.append("f%d %d %s" % (i, rng.randrange(1, 65), " ".join(evs)))
        i += 1
    return cases


def corpus_cases(name):
    d = os.path.join(lib.VERIF, "corpus", "C14")
    res = []
    if os.path.isdir(d):
        for f in sorted(os.listdir(d)):
            if f.startswith(name):
                res += [l.strip() for l in open(os.path.join(d, f)) if l.strip() and not l.startswith("#")]
    return res


def prop_ok(impl_line, spec, case):
    toks = impl_line.split(" ")
    return len(toks) >= 3 and toks[2] == spec


def gen_tfilter(tier, rng):
    """tables built by the real TableBuilder: which keys it hands to the filter builder and at
    which offsets it announces blocks. (a) several versions of one user key straddling data-block
    and 2 KiB filter-range boundaries; (b) one entry per block with value lengths swept so that
    blocks start a few bytes before / at / after multiples of 2048."""
    cases = []
    i = 0
    n = 40 if tier == "quick" else 1500
    for _ in range(n):
        es = []
        seq = 1000
        for u in range(rng.randrange(1, 4)):
            user = "x%02x" % (0x61 + u)
            for _ in range(rng.randrange(1, 7)):
                ln = rng.choice([0, 5, 300, 700, 1000, 1500, 2040, 2600])
                es.append("E%s:%d:%d:p%d.%d.1" % (user, seq, rng.choice([1, 1, 1, 0]), ln, rng.randrange(256)))
                seq -= 1
        bs = rng.choice([64, 512, 1024, 2048, 4096])
        cases.append("tf%d %d:1 %s" % (i, bs, " ".join(es)))
        i += 1
    lens = list(range(1985, 2070)) + list(range(985, 1040))
    if tier == "thorough":
        lens += list(range(640, 700)) + list(range(480, 530)) + list(range(4050, 4110))
    for ln in lens:
        # incompressible values: the block size on disk is then a function of the value length
        es = ["Ex%02x:%d:1:r%d.%d" % (0x61 + k, 50 - k, ln, 7 * k + 1) for k in range(7)]
        cases.append("tf%d 64:1 %s" % (i, " ".join(es)))
        i += 1
    return cases


def tfilter_ok(impl_line, spec, case):
    t = impl_line.split(" ")
    return len(t) >= 6 and t[2] == "1" and "0" not in t[5]


def suites(tier, seed, rng):
    return [lib.SuiteRun("bloom", corpus_cases("bloom") + gen_bloom(tier, rng), prop_ok),
            lib.SuiteRun("fblock", corpus_cases("fblock") + gen_fblock(tier, rng), prop_ok),
            lib.SuiteRun("table", gen_tfilter(tier, rng), tfilter_ok)]


def replay_suites(rp):
    return [lib.SuiteRun(rp["suite"], [rp["case"]], tfilter_ok if rp["suite"] == "table" else prop_ok)]


def still_fails(suite, case, workdir):
    il, mobs, spec = lib.run_single(suite, case, workdir)
    if suite == "table":
        return len(il.split(" ")) >= 6 and not tfilter_ok(il, spec, case)
    return spec != "none" and not prop_ok(il, spec, case)


def nontrivial(suite, case):
    return ("K" in case) if suite == "fblock" else len(case.split(" ")) > 3 and case.split(" ")[3] != ""


def classify(suite, case):
    if suite == "bloom":
        n = len(case.split(" ")[3].split(",")) if len(case.split(" ")) > 3 and case.split(" ")[3] else 0
        return "bloom:keys=" + ("0" if n == 0 else "1-9" if n < 10 else "10-199" if n < 200 else "200+")
    return "fblock:notifies=%d" % min(case.count(" N"), 4)
