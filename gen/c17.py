"""C17 — one owner at a time: a database cannot be opened or destroyed while open."""
from gen import lib

PROP_FILE = "props/C17.v"
RULE = ("lock: scripts of open / close / destroy_database / put / get through named handles on "
        "TmpFileSystem (real flock), compared step by step with the extracted lock-table model; races "
        "of 2..6 threads opening the same path simultaneously (exactly one must win when the path is "
        "free, none when it is owned) and races of opens against destroy_database (at most one owner, "
        "every winner usable). Non-trivial: a script with at least one attempt against an open "
        "database; distinct by sha1.")
TRUSTED = ["kernel flock semantics (a lock is held by at most one open file description; closing releases it)"]
ASSUMPTIONS = ["a disk-backed file system (TmpFileSystem); the in-memory file system has no locking"]


class LockSuite:
    suite = "lock"

    def __init__(self, cases):
        self.cases = cases
        self.stats = {"races": 0}

    def execute(self, workdir, tag="lk"):
        impl = lib.run_sharded(lib.RVH, "lock", self.cases, workdir, tag + "i", extra_env={"RVH_CASE_TIMEOUT": "120"})
        model = lib.run_sharded(lib.DRIVER, "lock", self.cases, workdir, tag + "m")
        prop, corr = [], []
        for c in self.cases:
            cid = c.split(" ", 1)[0]
            a = impl.get(cid, "").split(" ")[1:]
            b = model.get(cid, "").split(" ")[1:]
            steps = c.split(" ")[1:]
            bad = None
            if len(a) != len(steps) or len(b) != len(steps):
                bad = "run failed: %s" % impl.get(cid, "")[:200]
            else:
                for i, (st, x, y) in enumerate(zip(steps, a, b)):
                    if st[0] in "RQ":
                        self.stats["races"] += 1
                    if y == "wins<=1":
                        if x not in ("wins=1,notdestroyed", "wins=0,destroyed", "wins=1,destroyed", "wins=0,notdestroyed"):
                            bad = "step %d %s: %s (at most one owner allowed, every winner usable)" % (i, st, x)
                            break
                    elif x != y:
                        bad = "step %d %s: implementation %s, model %s" % (i, st, x, y)
                        break
            if bad:
                prop.append({"case": c, "impl": impl.get(cid, "")[:600], "spec": model.get(cid, "")[:600], "model": "", "detail": bad})
        return corr, prop


def gen_cases(tier, rng):
    cases = []
    n = 40 if tier == "quick" else 1500
    for i in range(n):
        steps = []
        names = ["a", "b", "c", "d"]
        for _ in range(rng.randrange(4, 16)):
            r = rng.random()
            h = rng.choice(names)
            if r < 0.3:
                steps.append("O" + h)
            elif r < 0.45:
                steps.append("X" + h)
            elif r < 0.55:
                steps.append("D")
            elif r < 0.7:
                steps.append("P%s:x%02x=x%02x" % (h, rng.randrange(4), rng.randrange(256)))
            elif r < 0.85:
                steps.append("G%s:x%02x" % (h, rng.randrange(4)))
            else:
                steps.append("R%d" % rng.randrange(2, 7))
        if rng.random() < 0.5:
            steps.append("Q%d" % rng.randrange(2, 5))
        cases.append("l%d %s" % (i, " ".join(steps)))
    return cases


def suites(tier, seed, rng):
    return [LockSuite(["k0 Oa Pa:x61=x01 Ob D Ga:x61 Pa:x62=x02 Xa Oc Gc:x61 Gc:x62 Xc R4 Od Gd:x61 Q3"] + gen_cases(tier, rng))]


def replay_suites(rp):
    return [LockSuite([rp["case"]])]


def still_fails(suite, case, workdir):
    return bool(LockSuite([case]).execute(workdir, tag="sh")[1])


def nontrivial(suite, case):
    return case.count(" O") >= 2 or " R" in case


def classify(suite, case):
    return "lock:races=%d" % min(case.count(" R") + case.count(" Q"), 3)
