"""C17 — one owner at a time: a database cannot be opened or destroyed while open."""
from gen import lib

PROP_FILE = "props/C17.v"
RULE = ("lock: scripts of open / close / destroy_database / put / get through named handles on "
        "TmpFileSystem (real flock), compared step by step with the extracted lock-table model; races "
        "of 2..6 threads opening the same path simultaneously (exactly one must win when the path is "
        "free, none when it is owned) and races of opens against destroy_database (at most one owner, "
        "every winner usable); Z / Y: a handle is closed while its background thread is parked inside the "
        "creation of a table file (a flush is provoked first) and opens are attempted all the while: none "
        "may be admitted before the close has returned; lockp: destroy_database runs on its own thread and is parked (gated file "
        "system) right before it removes the LOCK file and right before it removes the directory, while "
        "the script opens and closes handles; never two handles open at once, and every step compared "
        "with the extracted refined model LockPhases.pstep. Non-trivial: a script with at least one attempt against an open "
        "database; distinct by sha1.")
TRUSTED = ["kernel flock semantics (a lock is held by at most one open file description; closing releases it)"]
ASSUMPTIONS = ["a disk-backed file system (TmpFileSystem); the in-memory file system has no locking"]


class LockSuite:
    suite = "lock"

    def __init__(self, cases):
        self.cases = cases
        self.stats = {"races": 0}

    def execute(self, workdir, tag="lk"):
        impl = lib.run_sharded(lib.RVH, "lock", self.cases, workdir, tag + "i", extra_env={"RVH_CASE_TIMEOUT": "120"})
        model = lib.run_sharded(lib.DRIVER, "lock", self.cases, workdir, tag + "m")
        prop, corr = [], []
        for c in self.cases:
            cid = c.split(" ", 1)[0]
            a = impl.get(cid, "").split(" ")[1:]
            b = model.get(cid, "").split(" ")[1:]
            steps = c.split(" ")[1:]
            bad = None
            if len(a) != len(steps) or len(b) != len(steps):
                bad = "run failed: %s" % impl.get(cid, "")[:200]
            else:
                for i, (st, x, y) in enumerate(zip(steps, a, b)):
                    if st[0] in "RQ":
                        self.stats["races"] += 1
                    if y == "wins<=1":
                        if x not in ("wins=1,notdestroyed", "wins=0,destroyed", "wins=1,destroyed", "wins=0,notdestroyed"):
                            bad = "step %d %s: %s (at most one owner allowed, every winner usable)" % (i, st, x)
                            break
                    elif x != y:
                        bad = "step %d %s: implementation %s, model %s" % (i, st, x, y)
                        break
            if bad:
                prop.append({"case": c, "impl": impl.get(cid, "")[:600], "spec": model.get(cid, "")[:600], "model": "", "detail": bad})
        return corr, prop


class LockPhasesSuite:
    """destroy_database in three observable steps (parked before the LOCK removal and before the
    directory removal) interleaved with opens and closes, against LockPhases.pstep true"""
    suite = "lockp"

    def __init__(self, cases):
        self.cases = cases
        self.stats = {"opens_during_destroy": 0}

    def execute(self, workdir, tag="lp"):
        impl = lib.run_sharded(lib.RVH, "lock", self.cases, workdir, tag + "i", extra_env={"RVH_CASE_TIMEOUT": "200"})
        model = lib.run_sharded(lib.DRIVER, "lockp", self.cases, workdir, tag + "m")
        prop, corr = [], []
        for c in self.cases:
            cid = c.split(" ", 1)[0]
            a = impl.get(cid, "").split(" ")[1:]
            ml = model.get(cid, "")
            b = ml.split(" | ")[0].split(" ")[1:]
            steps = c.split(" ")[1:]
            bad = None
            if len(a) != len(steps) or len(b) != len(steps):
                bad = "run failed: %s / %s" % (impl.get(cid, "")[:200], ml[:200])
            else:
                # the property itself, judged on the implementation's answers: never two handles open
                openh = set()
                phase = 0
                for i, (st, x) in enumerate(zip(steps, a)):
                    if st[0] == "O" and x == "ok":
                        openh.add(st[1:])
                        self.stats["opens_during_destroy"] += phase > 0
                    elif st[0] == "X" and x == "ok":
                        openh.discard(st[1:])
                    elif st[0] in "EF" and x == "parked":
                        phase = 1 if st[0] == "E" else 2
                    elif st[0] in "EFH":
                        phase = 0
                    if len(openh) > 1:
                        bad = "step %d %s: handles %s are open at the same time" % (i, st, sorted(openh))
                        break
                if not bad:
                    for i, (st, x, y) in enumerate(zip(steps, a, b)):
                        if x != y:
                            bad = "step %d %s: implementation %s, model %s" % (i, st, x, y)
                            break
            if bad:
                prop.append({"case": c, "impl": impl.get(cid, "")[:600], "spec": ml[:600], "model": "", "detail": bad})
        return corr, prop



class LockFdSuite:
    """FileSystem::lock_file in its two system calls (an opener parked between opening the LOCK
    file and locking it, hook point lock:after_open) interleaved with opens, closes and
    destroy_database, against LockFd.fstep true"""
    suite = "lockfd"

    def __init__(self, cases):
        self.cases = cases
        self.stats = {"openers_parked": 0, "locks_after_destroy": 0}

    def execute(self, workdir, tag="lf"):
        impl = lib.run_sharded(lib.RVH, "lock", self.cases, workdir, tag + "i", extra_env={"RVH_CASE_TIMEOUT": "200"})
        model = lib.run_sharded(lib.DRIVER, "lockfd", self.cases, workdir, tag + "m")
        prop, corr = [], []
        for c in self.cases:
            cid = c.split(" ", 1)[0]
            a = impl.get(cid, "").split(" ")[1:]
            ml = model.get(cid, "")
            b = ml.split(" ")[1:]
            steps = c.split(" ")[1:]
            bad = None
            if len(a) != len(steps) or len(b) != len(steps):
                bad = "run failed: %s / %s" % (impl.get(cid, "")[:200], ml[:200])
            else:
                openh = set()
                destroyed = False
                for i, (st, x) in enumerate(zip(steps, a)):
                    if st[0] in "OL" and x == "ok":
                        openh.add(st[1:])
                    elif st[0] == "X" and x == "ok":
                        openh.discard(st[1:])
                    elif st[0] == "I" and x == "parked":
                        self.stats["openers_parked"] += 1
                    elif st[0] == "D" and x == "ok":
                        destroyed = True
                    if st[0] == "L" and destroyed:
                        self.stats["locks_after_destroy"] += 1
                    if len(openh) > 1:
                        bad = "step %d %s: handles %s are open at the same time" % (i, st, sorted(openh))
                        break
                if not bad:
                    for i, (st, x, y) in enumerate(zip(steps, a, b)):
                        if y != "*" and x.replace("nohandle", "none") != y:
                            bad = "step %d %s: implementation %s, model %s" % (i, st, x, y)
                            break
            if bad:
                prop.append({"case": c, "impl": impl.get(cid, "")[:600], "spec": ml[:600], "model": "", "detail": bad})
        return corr, prop


def gen_lockfd(tier, rng):
    import itertools
    import os
    cases = []
    d = os.path.join(lib.VERIF, "corpus", "C17fd")
    if os.path.isdir(d):
        for f in sorted(os.listdir(d)):
            cases += [l.strip() for l in open(os.path.join(d, f)) if l.strip() and not l.startswith("#")]

    def legal(steps):
        """handle names are used for one open attempt at a time"""
        busy = set()
        for st in steps:
            if st[0] in "OI":
                if st[1:] in busy:
                    return False
                busy.add(st[1:])
            elif st[0] == "X":
                if st[1:] not in busy:
                    return False
        return True

    # every schedule of up to 5 steps over two openers, one plain open and destroy
    alphabet = ["Ia", "La", "Ib", "Lb", "Oc", "Xc", "D", "Xa"]
    depth = 4 if tier == "quick" else 6
    j = 0
    seen = set()
    for n in range(2, depth + 1):
        for seq in itertools.product(alphabet, repeat=n):
            if not legal(seq) or "Ia" not in seq or ("D" not in seq and "Ib" not in seq):
                continue
            if tier == "quick" and n == 4 and rng.random() < 0.6:
                continue
            key = " ".join(seq)
            if key in seen:
                continue
            seen.add(key)
            cases.append("fe%d %s" % (j, key))
            j += 1
    # random longer schedules, optionally after a first life of the database
    for i in range(40 if tier == "quick" else 2500):
        steps = ["Oz", "Pz:x61=x01", "Xz"] if rng.random() < 0.5 else []
        busy, pend, openh = set(), [], []
        fresh = iter("abcdefghijklmnopqrstuvwxy")
        for _ in range(rng.randrange(4, 11)):
            r = rng.random()
            if r < 0.3:
                h = next(fresh)
                steps.append("I" + h)
                pend.append(h)
            elif r < 0.55 and pend:
                h = pend.pop(rng.randrange(len(pend)))
                steps.append("L" + h)
                openh.append(h)
            elif r < 0.7:
                h = next(fresh)
                steps.append("O" + h)
                openh.append(h)
            elif r < 0.85 and openh:
                steps.append("X" + openh.pop(rng.randrange(len(openh))))
            else:
                steps.append("D")
        cases.append("fr%d %s" % (i, " ".join(steps)))
    return cases


class LockMixSuite:
    """both refinements at once: openers parked between opening and locking the LOCK file (I / L)
    interleaved with a destroyer parked between its steps (E / F / H). There is no composed model:
    only the property itself is judged, on the implementation's answers (never two handles open,
    no step hangs or panics)"""
    suite = "lockmix"

    def __init__(self, cases):
        self.cases = cases
        self.stats = {"steps": 0}

    def execute(self, workdir, tag="lx"):
        impl = lib.run_sharded(lib.RVH, "lock", self.cases, workdir, tag + "i", extra_env={"RVH_CASE_TIMEOUT": "200"})
        prop, corr = [], []
        for c in self.cases:
            cid = c.split(" ", 1)[0]
            a = impl.get(cid, "").split(" ")[1:]
            steps = c.split(" ")[1:]
            bad = None
            if len(a) != len(steps):
                bad = "run failed: %s" % impl.get(cid, "")[:300]
            else:
                openh = set()
                for i, (st, x) in enumerate(zip(steps, a)):
                    self.stats["steps"] += 1
                    if st[0] in "OL" and x == "ok":
                        openh.add(st[1:])
                    elif st[0] == "X" and x == "ok":
                        openh.discard(st[1:])
                    if len(openh) > 1:
                        bad = "step %d %s: handles %s are open at the same time" % (i, st, sorted(openh))
                        break
            if bad:
                prop.append({"case": c, "impl": impl.get(cid, "")[:600], "spec": "", "model": "", "detail": bad})
        return corr, prop


def gen_lockmix(tier, rng):
    cases = ["mx0 Ia E F La H Ob", "mx1 Ia E F H Oc La", "mx2 Oz Xz Ia E Ib F La H Lb Oc"]
    for i in range(30 if tier == "quick" else 1500):
        steps = ["Oz", "Xz"] if rng.random() < 0.5 else []
        pend, openh = [], []
        fresh = iter("abcdefghijklmnopqrstuvwxy")
        dphase = 0
        for _ in range(rng.randrange(4, 11)):
            r = rng.random()
            if r < 0.25:
                h = next(fresh)
                steps.append("I" + h)
                pend.append(h)
            elif r < 0.45 and pend:
                h = pend.pop(rng.randrange(len(pend)))
                steps.append("L" + h)
                openh.append(h)
            elif r < 0.55:
                h = next(fresh)
                steps.append("O" + h)
                openh.append(h)
            elif r < 0.65 and openh:
                steps.append("X" + openh.pop(rng.randrange(len(openh))))
            elif dphase == 0:
                steps.append("E")
                dphase = 1
            elif dphase == 1:
                steps.append("F")
                dphase = 2
            else:
                steps.append("H")
                dphase = 0
        cases.append("mr%d %s" % (i, " ".join(steps)))
    return cases

def gen_phased(tier, rng):
    import os
    cases = []
    d = os.path.join(lib.VERIF, "corpus", "C17")
    if os.path.isdir(d):
        for f in sorted(os.listdir(d)):
            cases += [l.strip() for l in open(os.path.join(d, f)) if l.strip() and not l.startswith("#")]
    cases += ["kp0 Oa Xa E Ob F Oc H Od Xc", "kp1 Oa E Xa E Ob F Xb H", "kp2 Oa Xa E F Ob Oc H Xb Oc"]
    n = 30 if tier == "quick" else 1500
    for i in range(n):
        steps = []
        names = ["a", "b", "c"]
        for _ in range(rng.randrange(5, 16)):
            r = rng.random()
            if r < 0.35:
                steps.append("O" + rng.choice(names))
            elif r < 0.55:
                steps.append("X" + rng.choice(names))
            elif r < 0.7:
                steps.append("E")
            elif r < 0.85:
                steps.append("F")
            else:
                steps.append("H")
        cases.append("p%d %s" % (i, " ".join(steps)))
    return cases


def gen_cases(tier, rng):
    cases = []
    n = 40 if tier == "quick" else 1500
    for i in range(n):
        steps = []
        names = ["a", "b", "c", "d"]
        for _ in range(rng.randrange(4, 16)):
            r = rng.random()
            h = rng.choice(names)
            if r < 0.3:
                steps.append("O" + h)
            elif r < 0.45:
                steps.append("X" + h)
            elif r < 0.55:
                steps.append("D")
            elif r < 0.7:
                steps.append("P%s:x%02x=x%02x" % (h, rng.randrange(4), rng.randrange(256)))
            elif r < 0.85:
                steps.append("G%s:x%02x" % (h, rng.randrange(4)))
            elif r < 0.93:
                steps.append("R%d" % rng.randrange(2, 7))
            elif r < 0.97:
                steps.append("Z" + h)
            else:
                steps.append("Y" + h)
        if rng.random() < 0.5:
            steps.append("Q%d" % rng.randrange(2, 5))
        cases.append("l%d %s" % (i, " ".join(steps)))
    return cases


def suites(tier, seed, rng):
    return [LockSuite(["k0 Oa Pa:x61=x01 Ob D Ga:x61 Pa:x62=x02 Xa Oc Gc:x61 Gc:x62 Xc R4 Od Gd:x61 Q3",
                      "k1 Oa Pa:x61=x01 Za Ob Gb:x61 Xb", "k2 Oa Za Za Ob Zb D",
                      "k3 Oa Ya Ob Xb", "k4 Oa Pa:x61=x01 Ya Ya Ob Gb:x61 Xb Oc Yc"] + gen_cases(tier, rng)),
            LockPhasesSuite(gen_phased(tier, rng)),
            LockFdSuite(gen_lockfd(tier, rng)),
            LockMixSuite(gen_lockmix(tier, rng))]


def replay_suites(rp):
    if rp.get("suite") == "lockmix":
        return [LockMixSuite([rp["case"]])]
    if rp.get("suite") == "lockfd":
        return [LockFdSuite([rp["case"]])]
    if rp.get("suite") == "lockp":
        return [LockPhasesSuite([rp["case"]])]
    return [LockSuite([rp["case"]])]


def still_fails(suite, case, workdir):
    if suite == "lockmix":
        return bool(LockMixSuite([case]).execute(workdir, tag="sh")[1])
    if suite == "lockfd":
        return bool(LockFdSuite([case]).execute(workdir, tag="sh")[1])
    if suite == "lockp":
        return bool(LockPhasesSuite([case]).execute(workdir, tag="sh")[1])
    return bool(LockSuite([case]).execute(workdir, tag="sh")[1])


def nontrivial(suite, case):
    return case.count(" O") >= 2 or " R" in case


def classify(suite, case):
    if suite == "lockp":
        return "lockp:destroys=%d" % min(case.count(" E"), 3)
    return "lock:races=%d" % min(case.count(" R") + case.count(" Q"), 3)
