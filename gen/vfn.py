"""Generators and oracle for the `vfn` suite (selection functions over file metadata), shared by
C01 (lookup candidates), C07 (compaction input closure), C10 (version edits)."""
import itertools
from gen import lib

UK = ["x", "x61", "x62", "x6261", "x63", "x64", "x65", "xff"]


def kstr(k):
    return "%s:%d:%d" % k


def ikey_sort(k):
    return (bytes.fromhex(k[0][1:]), -k[1])


def rand_key(rng, users=UK):
    return (rng.choice(users), rng.randrange(1, 10), rng.randrange(2))


def rand_sorted_level(rng, nfiles, users=UK):
    """disjoint sorted files; consecutive files may share a user key at the boundary"""
    pts = sorted({(bytes.fromhex(u[1:]), -s): (u, s) for u in users for s in range(1, 8)}.items())
    pts = [p[1] for p in pts]
    if nfiles == 0:
        return []
    idx = sorted(rng.sample(range(len(pts)), min(2 * nfiles, len(pts))))
    files = []
    for i in range(0, len(idx) - 1, 2):
        a, b = pts[idx[i]], pts[idx[i + 1]]
        if rng.random() < 0.2:
            b = a
        files.append(((a[0], a[1], rng.randrange(2)), (b[0], b[1], rng.randrange(2))))
    return files


def rand_l0(rng, nfiles, users=UK):
    files = []
    for _ in range(nfiles):
        a, b = rand_key(rng, users), rand_key(rng, users)
        if ikey_sort(b) < ikey_sort(a):
            a, b = b, a
        files.append((a, b))
    return files


def rand_version(rng, wf=True):
    num = [rng.randrange(1, 5)]
    levels = []
    toks = []
    allf = []
    for l in range(7):
        if l == 0:
            fs = rand_l0(rng, rng.choice([0, 1, 2, 3, 4, 5]))
        elif l <= 3:
            fs = rand_sorted_level(rng, rng.choice([0, 1, 2, 3, 4]))
            if not wf and rng.random() < 0.3:
                rng.shuffle(fs)
        else:
            fs = rand_sorted_level(rng, rng.choice([0, 0, 1]))
        lv = []
        for (a, b) in fs:
            n = num[0]
            num[0] += rng.randrange(1, 4)
            size = rng.choice([10, 100, 1000, 5000])
            lv.append((n, size, a, b))
            toks.append("F%d:%d:%d:%s:%s" % (l, n, size, kstr(a), kstr(b)))
        levels.append(lv)
    # level 0 is kept in builder order (sorted by smallest key then number)
    return levels, toks


def gen(tier, rng, funcs):
    cases = []
    n = 0
    reps = {"quick": 250, "thorough": 8000}[tier]

    def add(cfgfn):
        nonlocal n
        levels, toks = rand_version(rng)
        c = cfgfn(levels)
        if c is None:
            return
        mfs = rng.choice([100, 1000, 100000])
        cases.append("v%d %d:1:1 %s %s" % (n, mfs, c, " ".join(toks)))
        n += 1

    for _ in range(reps):
        if "range" in funcs:
            add(lambda lv: "range - - -" if lv[0] else None)
            add(lambda lv: "range2 - - -" if lv[0] else None)
        if "ffub" in funcs:
            add(lambda lv: "ffub %s - -" % kstr(rand_key(rng)))
            add(lambda lv: "getfiles %s - -" % kstr(rand_key(rng)))
            add(lambda lv: "ovl %d %s %s" % (rng.randrange(0, 7), rng.choice(UK + ["-"]), rng.choice(UK + ["-"])))
        if "score" in funcs:
            # size scores: level budgets are 10 MiB x 10^(level-1); level 0 counts files
            def score(lv):
                return "score - - -"
            levels, toks = rand_version(rng)
            # put the total size of one or two levels next to their budget
            import re as _re
            for _lv in rng.sample([1, 2, 3, 4], rng.choice([1, 2])):
                fl = [t for t in toks if t.startswith("F%d:" % _lv)]
                if fl:
                    budget = 10485760 * 10 ** (_lv - 1)
                    target = budget + rng.choice([-2, -1, 0, 1, 2, budget // 3, -budget // 3, budget])
                    each = max(1, target // len(fl))
                    for i, t in enumerate(toks):
                        if t in fl:
                            p_ = t.split(":")
                            p_[2] = str(each if t != fl[-1] else max(1, target - each * (len(fl) - 1)))
                            toks[i] = ":".join(p_)
            # and sometimes many level-0 files
            if rng.random() < 0.5:
                base = 900
                for j in range(rng.randrange(0, 9)):
                    toks.append("F0:%d:%d:%s:%s" % (base + j, 10, kstr(("x61", 5, 1)), kstr(("x62", 3, 1))))
            cases.append("v%d %d:1:1 score - - - %s" % (n, 1000, " ".join(toks)))
            n += 1
        if "samples" in funcs:
            def samples(lv):
                # prefer a user key that lies in the range of at least two files
                cands = []
                for u in UK:
                    ub = bytes.fromhex(u[1:])
                    cnt = sum(1 for fl in lv for (_n, _s, a, b) in fl
                              if bytes.fromhex(a[0][1:]) <= ub <= bytes.fromhex(b[0][1:]))
                    if cnt >= 2:
                        cands.append(u)
                hot = (rng.choice(cands), rng.randrange(1, 10), 1) if cands and rng.random() < 0.9 else rand_key(rng)
                ks = []
                for _i in range(rng.choice([99, 100, 101, 130, 230])):
                    ks.append(hot if rng.random() < 0.9 else rand_key(rng))
                return "samples %s - -" % ",".join(kstr(k) for k in ks)
            add(samples)
        if "oci" in funcs:
            def oci(lv):
                a, b = rand_key(rng), rand_key(rng)
                if ikey_sort(b) < ikey_sort(a):
                    a, b = b, a
                lo = "-" if rng.random() < 0.15 else kstr(a)
                hi = "-" if rng.random() < 0.15 else kstr(b)
                return "oci %d %s %s" % (rng.choice([0, 0, 1, 2]), lo, hi)
            add(oci)
        if "plmo" in funcs:
            def plmo(lv):
                a, b = sorted([rng.choice(UK), rng.choice(UK)], key=lambda u: bytes.fromhex(u[1:]))
                return "plmo %s %s -" % (a, b)
            add(plmo)
        if "fin" in funcs:
            def fin(lv):
                l = rng.choice([0, 0, 1, 1, 2])
                if not lv[l]:
                    return None
                if l == 0:
                    # level-0 compactions always start from the overlap closure of one file or of
                    # a range (pick_compaction / compact_range do that before finalize)
                    f0 = rng.choice(lv[0])
                    ub = lambda k: bytes.fromhex(k[0][1:])
                    lo, hi = ub(f0[2]), ub(f0[3])
                    changed = True
                    while changed:
                        changed = False
                        for f in lv[0]:
                            if ub(f[2]) <= hi and lo <= ub(f[3]):
                                if ub(f[2]) < lo:
                                    lo = ub(f[2]); changed = True
                                if ub(f[3]) > hi:
                                    hi = ub(f[3]); changed = True
                    seed = [f[0] for f in lv[0] if ub(f[2]) <= hi and lo <= ub(f[3])]
                else:
                    k = rng.randrange(1, min(3, len(lv[l])) + 1)
                    i = rng.randrange(0, len(lv[l]) - k + 1)
                    seed = [f[0] for f in lv[l][i:i + k]]
                base = sorted(rng.sample(UK, 3), key=lambda u: bytes.fromhex(u[1:]))
                return "fin %d %s %s" % (l, ",".join(map(str, seed)), ",".join(base))
            add(fin)
        if "apply" in funcs:
            def apply(lv):
                l = rng.choice([0, 1, 2])
                dels = []
                if lv[l] and rng.random() < 0.7:
                    dels = ["D%d:%d" % (l, f[0]) for f in rng.sample(lv[l], rng.randrange(1, len(lv[l]) + 1))]
                adds = []
                if rng.random() < 0.8:
                    for (a, b) in (rand_sorted_level(rng, rng.choice([1, 2])) if l + 1 > 0 else []):
                        adds.append("A%d:%d:%d:%s:%s" % (l + 1, 900 + len(adds), 10, kstr(a), kstr(b)))
                return "apply - - - " + " ".join(dels + adds)
            add(apply)
    return cases


class VfnSuite(lib.SuiteRun):
    """correspondence on every function; for `fin` the implementation's answer is additionally
    judged by the extracted closure predicate (the property oracle for C07)."""

    def execute(self, workdir, tag="g"):
        corr, prop = super().execute(workdir, tag)
        impl = lib.run_sharded(lib.RVH, self.suite, self.cases, workdir, tag + "o")
        judge = []
        for c in self.cases:
            t = c.split(" ")
            if t[2] != "fin":
                continue
            il = impl.get(t[0], "").split(" ")
            if len(il) < 3 or il[1] == "panic":
                continue
            judge.append((c, "%s %s finspec %s %s %s;%s %s" % (t[0], t[1], t[3], t[4], il[1], il[2], " ".join(t[6:]))))
        if judge:
            verdicts = lib.run_sharded(lib.DRIVER, self.suite, [j[1] for j in judge], workdir, tag + "j")
            for c, jc in judge:
                v = verdicts.get(jc.split(" ")[0], "")
                if "NOT-CLOSED" in v:
                    prop.append({"case": c, "impl": impl.get(c.split(" ")[0]), "model": "",
                                 "spec": "compaction inputs must contain every parent-level (and level-0) file overlapping the user-key range of the level inputs"})
        return corr, prop


def still_fails(case, workdir):
    il, mobs, spec = lib.run_single("vfn", case, workdir)
    t = case.split(" ")
    ilt = il.split(" ")
    if t[2] != "fin" or len(ilt) < 3 or ilt[1] == "panic":
        return False
    jc = "%s %s finspec %s %s %s;%s %s" % (t[0], t[1], t[3], t[4], ilt[1], ilt[2], " ".join(t[6:]))
    v = lib.run_sharded(lib.DRIVER, "vfn", [jc], workdir, "sj")
    return "NOT-CLOSED" in v.get(t[0], "")
