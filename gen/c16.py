"""C16 — a torn final write costs at most the unacknowledged tail."""
from gen import dbh, lib, crash, recover

PROP_FILE = "props/C16.v"
WANT = ("recover", "post")
RULE = ("crash: as for C02, but the last file operation of every crash prefix that is a write is "
        "additionally applied only partially (1 byte, half, all but one byte); the image is reopened "
        "with reuse_log_files true and false (half of the cases each), scanned, written to, cleanly "
        "reopened and scanned again: everything before the torn tail is kept and the writes "
        "acknowledged after the recovery are still present. Non-trivial: a torn image whose torn "
        "operation is a WAL or manifest append; distinct by (history, crash point, cut). recover: every "
        "torn image is also recovered by the extracted Recover.recover_image and compared with the real "
        "DB::open (result, last sequence number, contents).")
TRUSTED = ["SimFs: every FileSystem trait call is atomic and durable once it returns (durability below the trait — fsync, directory entries, rename atomicity — is assumed, not modelled)"]
ASSUMPTIONS = ["single client; WriteOptions::synchronous is ignored by the code and by the model"]


def gen_cases(tier, rng):
    cases = []
    n = 8 if tier == "quick" else 250
    for i in range(n):
        cases.append(crash.make_case(rng, i, rng.choice([10, 20, 35]), "all,torn", post_reuse=i % 2))
    return cases


def corpus():
    import os
    d = os.path.join(lib.VERIF, "corpus", "C16")
    res = []
    if os.path.isdir(d):
        for f in sorted(os.listdir(d)):
            res += [l.strip() for l in open(os.path.join(d, f)) if l.strip() and not l.startswith("#")]
    return res


def gen_recover(tier, rng):
    n = 6 if tier == "quick" else 150
    return [crash.make_case(rng, "r%d" % i, rng.choice([6, 12, 25]), "all,torn", post_reuse=i % 2) for i in range(n)]


def suites(tier, seed, rng):
    return [crash.CrashSuite(corpus() + gen_cases(tier, rng), WANT),
            recover.RecoverSuite(gen_recover(tier, rng)),
            dbh.DbSuite(dbh.gen_reuse_boundary(tier, rng))]


def replay_suites(rp):
    if rp.get("suite") == "dbhist":
        return [dbh.DbSuite([rp["case"]])]
    if rp.get("suite") == "recover":
        return [recover.RecoverSuite([rp["case"]])]
    return [crash.CrashSuite([rp["case"]], WANT)]


def still_fails(suite, case, workdir):
    if suite == "dbhist":
        return dbh.still_fails(case, workdir)
    if case.count(" # ") != 2:
        return False
    if suite == "recover":
        return recover.still_fails(case, workdir)
    return crash.still_fails(case, workdir, WANT)


def shrink(f, workdir):
    if f["suite"] == "dbhist":
        return lib.shrink_case("dbhist", f["case"], lambda c: dbh.still_fails(c, workdir)), f.get("detail", "")
    if f["suite"] == "recover":
        return recover.shrink(f["case"], workdir), f.get("detail", "")
    return crash.shrink(f["case"], workdir, WANT)


def nontrivial(suite, case):
    return " P" in case or " B" in case


def classify(suite, case):
    if suite == "dbhist":
        return "dbhist:reuse-across-block-boundary"
    if suite == "recover":
        return "recover:torn"
    return "crash:" + case.split(" # ")[2].split(",")[0].split(":")[0]
