"""C11 — exactly the needed files are on disk: nothing live deleted, nothing dead kept."""
from gen import sched, lib, dbh, crash, proto, fault, names

PROP_FILE = "props/C11.v"
WANT = ("dir",)
RULE = ("dbhist: histories with flushes, automatic and manual compactions, trivial moves and reopens; "
        "whenever background work has quiesced and no snapshot or iterator is live, the directory "
        "listing of the recording file system must be exactly CURRENT, LOCK, the current manifest, the "
        "current WAL and the table files of the current version (and every read in the history must "
        "succeed: a file deleted too early shows up as a read error or a missing key). crash: every "
        "crash image (orphan table files, half-written temp files, superseded manifests) is reopened "
        "and, after quiescence and again after a clean reopen, the same exactness is required. "
        "proto: after every operation the set of files in the directory (and their contents) must be "
        "exactly what the extracted protocol model derives, garbage collection included. "
        "names: the names the database gives its files and the way it recognises directory entries "
        "(FileNameHandler) against the extracted model, formatted names for boundary numbers and "
        "mutated / random names. fault: a file-system call fails (every class, sampled positions, transient and sticky); after "
        "the fault is gone the database must reopen, i.e. no file recovery needs was removed by an "
        "error path. Non-trivial: a history that creates at least one table file; distinct by sha1.")
TRUSTED = ["directory listing of SimFs; current version and file numbers from the DB::verif_dump hook"]
ASSUMPTIONS = ["reader-vs-deletion interleavings are covered at sched-point granularity by the C05 machinery, not here"]


def gen_cases(tier, rng):
    n = 50 if tier == "quick" else 2500
    w = dict(put=40, batch=10, get=4, snap=1, iter=1, compact=4, reopen=3, wait=6)
    w["del"] = 10
    return [dbh.gen_history(rng, i, rng.choice([40, 80, 160, 300]), w, dircheck=True) for i in range(n)]


def gen_crash(tier, rng):
    n = 6 if tier == "quick" else 200
    return [crash.make_case(rng, i, rng.choice([15, 30, 50]), "step:2") for i in range(n)]


def gen_crash_reuse(tier, rng):
    """crash images with leftovers (orphan table files of an interrupted flush or compaction, temp files
    of a CURRENT switch) reopened with reuse_log_files = true and a memtable budget large enough that
    the replayed log is not flushed: the open reuses both the manifest and the last log, writes no new
    version, and must still collect the leftovers (found missing by seeded change
    C11-open-gc-only-after-new-snapshot: the collector call moved inside `if create_new_snapshot`)"""
    cases = []
    for i in range(2 if tier == "quick" else 40):
        v = lambda: "p%d.%d.1" % (rng.choice([40, 60, 90]), rng.randrange(256))
        # before the crash: a 256-byte memtable, so level-0 files pile up and automatic (merging)
        # compactions run in the background while the current log already holds newer writes: a crash
        # then leaves orphan outputs next to ONE non-empty log (two logs, or an empty one, force a
        # flush at replay and with it a new version, which hides the case)
        pre = "256:2097152:%d:1" % rng.choice([64, 1024])
        post_cfg = "4194304:2097152:%d:1" % rng.choice([64, 1024])
        toks = ["cr%d" % i, pre]
        for _k in range(rng.choice([30, 45])):
            toks.append("Px%02x=%s" % (rng.choice([0x61, 0x62, 0x63, 0x64, 0x65]), v()))
        post = [post_cfg, "Px7a7a=" + v(), "Dx61", "Px7a7b=" + v()]
        cases.append("%s # %s # all" % (" ".join(toks), " ".join(post)))
    return cases


def gen_proto(tier, rng):
    n = 24 if tier == "quick" else 1200
    return [proto.gen_history(rng, i, rng.choice([12, 25, 40, 60])) for i in range(n)]



def gen_fault_compaction(tier, rng):
    """every fault position (limit 60) of short histories that end in a real table compaction: the
    files a failed installation leaves behind are what the next open needs (a manifest append that
    reached the file and was then reported as failed references the outputs)"""
    cases = []
    for i in range(2 if tier == "quick" else 30):
        v = lambda: "x%02x%02x" % (rng.randrange(256), rng.randrange(256))
        cfg = "4096:4096:256:%d" % rng.randrange(2)
        toks = ["dc%d" % i, cfg, "Px61=" + v(), "Px62=" + v(), "C-:-", "Px61=" + v(), "Px63=" + v(), "Cxfe:xff",
                "Dx62" if rng.random() < 0.5 else "Px62=" + v(), "C-:-", "Gx61", "Gx62", "Gx63"]
        cases.append("%s # 60" % " ".join(toks))
    return cases

def suites(tier, seed, rng):
    return [dbh.DbSuite(dbh.corpus("C11") + gen_cases(tier, rng)),
            crash.CrashSuite(gen_crash(tier, rng) + gen_crash_reuse(tier, rng), WANT),
            proto.ProtoSuite(gen_proto(tier, rng)),
            names.NamesSuite(names.gen_cases(tier, rng)),
            sched.SchedSuite(sched.gen_cases(tier, rng, {"walgc"})),
            fault.FaultSuite(gen_fault_compaction(tier, rng) +
                             ["%s # %d" % (" ".join(fault.gen_history(rng, "f%d" % i, rng.choice([12, 20]))), 2 if tier == "quick" else 20)
                              for i in range(3 if tier == "quick" else 60)])]


def replay_suites(rp):
    if rp.get("suite") == "sched":
        return [sched.SchedSuite([rp["case"]])]
    if rp.get("suite") == "proto":
        return [proto.ProtoSuite([rp["case"]])]
    if rp.get("suite") == "fault":
        return [fault.FaultSuite([rp["case"]])]
    if rp.get("suite") == "names":
        return [names.NamesSuite([rp["case"]])]
    if rp.get("suite") == "crash":
        return [crash.CrashSuite([rp["case"]], WANT)]
    return [dbh.DbSuite([rp["case"]])]


def still_fails(suite, case, workdir):
    if suite == "sched":
        return sched.still_fails(case, workdir)
    if suite == "proto":
        return proto.still_fails(case, workdir)
    if suite == "crash":
        return crash.still_fails(case, workdir, WANT)
    return dbh.still_fails(case, workdir)


def nontrivial(suite, case):
    return " P" in case or " B" in case


def classify(suite, case):
    return suite
