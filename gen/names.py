"""File-name correspondence (`names`): how the database names its files and how it recognises
directory entries (recovery and garbage collection decide by these), real FileNameHandler against
the extracted model [Names.v]: formatted names of every kind for boundary numbers, and mutated /
random ASCII names (extra dots, leading '+' and zeros, wrong prefixes, numbers around 2^64)."""
from gen import lib

KINDS = "MWTX"


def gen_cases(tier, rng):
    n = 400 if tier == "quick" else 20000
    cases = []
    nums = [0, 1, 9, 10, 99, 100, 12345, 2 ** 32 - 1, 2 ** 32, 2 ** 63, 2 ** 64 - 1]
    i = 0
    for k in KINDS:
        for v in nums:
            cases.append("n%d F%s%d" % (i, k, v)); i += 1
    cases.append("n%d FC" % i); i += 1
    cases.append("n%d FL" % i); i += 1
    exts = ["manifest", "log", "rdb", "dbtemp", "tmp", "", "LOG", "rdb2"]
    pres = ["MANIFEST-", "wal-", "", "WAL-", "manifest-", "x"]
    for _ in range(n):
        r = rng.random()
        if r < 0.3:
            num = str(rng.choice(nums + [2 ** 64, 2 ** 64 + 5, 10 ** 25]))
        elif r < 0.5:
            num = rng.choice(["+", "-", "00", "0", ""]) + str(rng.randrange(1000))
        elif r < 0.6:
            num = rng.choice(["", "+", "1 2", "1e3", "0x10", "12a", "٣"[:0] + "7_0"])
        else:
            num = str(rng.randrange(10 ** rng.randrange(1, 21)))
        name = rng.choice(pres) + num
        if rng.random() < 0.9:
            name += "." + rng.choice(exts)
        if rng.random() < 0.1:
            name = rng.choice(["CURRENT", "LOCK", "CURRENT.", "current", "LOCK.rdb", ".rdb", ".", "..", "a.b.c.rdb"])
        if rng.random() < 0.05:
            name = name + "." + rng.choice(exts)
        cases.append("n%d Nx%s" % (i, name.encode().hex())); i += 1
    return cases


class NamesSuite:
    suite = "names"

    def __init__(self, cases):
        self.cases = cases
        self.stats = {"recognised": 0, "rejected": 0}

    def execute(self, workdir, tag="nm"):
        impl = lib.run_sharded(lib.RVH, "names", self.cases, workdir, tag + "i")
        model = lib.run_sharded(lib.DRIVER, "names", self.cases, workdir, tag + "m")
        corr, prop = [], []
        for c in self.cases:
            cid = c.split(" ", 1)[0]
            a, b = impl.get(cid, cid + " MISSING"), model.get(cid, cid + " MISSING")
            if a.endswith("none"):
                self.stats["rejected"] += 1
            else:
                self.stats["recognised"] += 1
            if a != b:
                corr.append({"case": c, "impl": a[:300], "model": b[:300],
                             "detail": "file name %s: implementation %s, model %s" % (c.split(" ")[1][:80], a.split(" ", 1)[-1][:120], b.split(" ", 1)[-1][:120])})
        return corr, prop
