"""Recovery correspondence (`recover`): every crash image of a history is given both to the real
DB::open and to the extracted recovery function [Recover.recover_image]; open result, last
sequence number and recovered contents must agree. Shared by C02, C16 (torn images), C11."""
from gen import lib


class RecoverSuite:
    suite = "recover"

    def __init__(self, cases, harness_suite="recover"):
        self.cases = cases
        self.harness_suite = harness_suite
        self.stats = {"images": 0, "torn_images": 0, "model_errors": 0, "unreadable_images": 0,
                      "wals_replayed": 0, "images_with_tables": 0}

    def execute(self, workdir, tag="rc"):
        impl = lib.run_sharded(lib.RVH, self.harness_suite, self.cases, workdir, tag + "i",
                               extra_env={"RVH_CASE_TIMEOUT": "240"})
        mcases, index = [], {}
        for c in self.cases:
            cid = c.split(" ", 1)[0]
            il = impl.get(cid, cid + " MISSING")
            fields = il.split(" ")
            if len(fields) < 2 or not fields[1].startswith("N="):
                continue
            for img in fields[2:]:
                parts = img.split("|")
                if len(parts) != 5:
                    continue
                mid = "%s@%s" % (cid, parts[0])
                index[mid] = (c, parts)
                mcases.append("%s %s" % (mid, parts[4]))
        model = lib.run_sharded(lib.DRIVER, "recover", mcases, workdir, tag + "m")
        corr, prop = [], []
        seen_bad = set()
        for c in self.cases:
            cid = c.split(" ", 1)[0]
            il = impl.get(cid, cid + " MISSING")
            fields = il.split(" ")
            if len(fields) < 2 or not fields[1].startswith("N=") or "BGPANIC" in il:
                corr.append({"case": c, "impl": lib.trunc(il, 800), "model": "", "detail": "run failed: " + il[:200]})
        for mid, (c, parts) in index.items():
            if c in seen_bad:
                continue
            ml = model.get(mid, mid + " MISSING").split(" ")
            self.stats["images"] += 1
            self.stats["torn_images"] += "@" not in parts[0] and parts[0].split(".")[1] != "-"
            bad = None
            if parts[1] == "panic":
                # whatever the model says: an open call that panics is not "fails with an error"
                self.stats["panics"] = self.stats.get("panics", 0) + 1
                seen_bad.add(c)
                prop.append({"case": c, "impl": lib.trunc("|".join(parts[:4]), 800), "spec": "", "model": lib.trunc(" ".join(ml), 300),
                             "detail": "image %s: DB::open panicked" % parts[0]})
                continue
            if len(ml) < 3:
                bad = "model run failed: " + " ".join(ml)[:200]
            elif ml[1] == "err":
                self.stats["model_errors"] += 1
                if ml[2] == "no-current" and parts[1:4] == ["ok", "0", "-"]:
                    pass        # no CURRENT: a new database is created (create_if_missing)
                elif parts[1] == "ok":
                    bad = "image %s: the model's recovery fails (%s) but DB::open succeeded" % (parts[0], ml[2])
            elif ml[1] == "ok":
                kv = dict(x.split("=", 1) for x in ml[4:] if "=" in x)
                self.stats["wals_replayed"] += len([w for w in kv.get("wals", "").split(";") if w])
                self.stats["images_with_tables"] += "T[]" not in parts[4]
                if parts[1] != "ok":
                    bad = "image %s: DB::open fails (%s) but the model recovers" % (parts[0], parts[1])
                elif ml[2] != parts[2]:
                    bad = "image %s: last sequence number after recovery: implementation %s, model %s" % (parts[0], parts[2], ml[2])
                elif kv.get("readable") != "true":
                    self.stats["unreadable_images"] += 1
                elif ml[3] != parts[3]:
                    bad = "image %s: recovered contents differ: implementation %s, model %s" % (
                        parts[0], lib.trunc(parts[3], 300), lib.trunc(ml[3], 300))
            else:
                bad = "model run failed: " + " ".join(ml)[:200]
            if bad:
                seen_bad.add(c)
                corr.append({"case": c, "impl": lib.trunc("|".join(parts[:4]), 800), "model": lib.trunc(" ".join(ml), 800), "detail": bad})
        return corr, prop


def still_fails(case, workdir):
    s = RecoverSuite([case])
    corr, prop = s.execute(workdir, tag="sh")
    return any("image" in x.get("detail", "") for x in corr)


def shrink(case, workdir):
    """remove history tokens; all crash points are re-examined after every removal"""
    head, post, pts = case.split(" # ")
    toks = head.split(" ")
    torn = ",torn" if "torn" in pts else ""
    fixed = " ".join(toks[:2])

    def fails(c):
        body = c.split(" ")[2:]
        return still_fails("%s %s # %s # all%s" % (fixed, " ".join(body), post, torn), workdir)

    small = lib.shrink_case("recover", head, fails)
    return "%s # %s # all%s" % (small, post, torn)
