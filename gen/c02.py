"""C02 — acknowledged writes survive a crash at any point; batches are all-or-nothing."""
from gen import lib, crash, codec

PROP_FILE = "props/C02.v"
WANT = ("recover", "post")
RULE = ("crash: histories of puts/deletes/multi-key batches (values up to 70 KB, i.e. records "
        "spanning several 32 KiB log blocks), waits, compact_range and reopens with changed options "
        "on a recording file system; EVERY prefix of the recorded stream of mutating file operations "
        "(create/truncate, write, rename, remove) is rebuilt as an image, reopened and scanned: the "
        "contents must be the specification after the completed writes, or additionally the one in "
        "flight as a whole; then further writes, a clean reopen and a second scan. A sample of images "
        "is crashed again during their own recovery (nested). Non-trivial image: at least one write "
        "completed before the crash point; distinct by (history, crash point).")
TRUSTED = ["SimFs: every FileSystem trait call is atomic and durable once it returns (durability below the trait — fsync, directory entries, rename atomicity — is assumed, not modelled)"]
ASSUMPTIONS = ["single client; WriteOptions::synchronous is ignored by the code and by the model"]


def gen_cases(tier, rng):
    cases = []
    if tier == "quick":
        for i in range(10):
            cases.append(crash.make_case(rng, i, rng.choice([12, 25, 40]), "all" if i < 7 else "step:3,nested:4"))
    else:
        for i in range(300):
            cases.append(crash.make_case(rng, i, rng.choice([12, 25, 40, 80]), "all" if i % 3 else "step:2,nested:6"))
    return cases


def corpus():
    import os
    d = os.path.join(lib.VERIF, "corpus", "C02")
    res = []
    if os.path.isdir(d):
        for f in sorted(os.listdir(d)):
            res += [l.strip() for l in open(os.path.join(d, f)) if l.strip() and not l.startswith("#")]
    return res


def suites(tier, seed, rng):
    return [crash.CrashSuite(corpus() + gen_cases(tier, rng), WANT),
            codec.CodecSuite("codec", codec.gen(tier, rng, ("B",)), lambda i, s, c: True)]


def replay_suites(rp):
    if rp.get("suite") == "codec":
        return [codec.CodecSuite("codec", [rp["case"]], lambda i, s, c: True)]
    return [crash.CrashSuite([rp["case"]], WANT)]


def still_fails(suite, case, workdir):
    if case.count(" # ") != 2:
        return False
    return crash.still_fails(case, workdir, WANT)


def shrink(f, workdir):
    return crash.shrink(f["case"], workdir, WANT)


def nontrivial(suite, case):
    return " P" in case or " B" in case


def classify(suite, case):
    if suite == "codec":
        return "codec:batch"
    return "crash:" + case.split(" # ")[2].split(",")[0].split(":")[0]
