"""C02 — acknowledged writes survive a crash at any point; batches are all-or-nothing."""
from gen import dbh, lib, crash, codec, recover, proto, c12, sched

PROP_FILE = "props/C02.v"
WANT = ("recover", "post")
RULE = ("crash: histories of puts/deletes/multi-key batches (values up to 70 KB, i.e. records "
        "spanning several 32 KiB log blocks), waits, compact_range and reopens with changed options "
        "on a recording file system; EVERY prefix of the recorded stream of mutating file operations "
        "(create/truncate, write, rename, remove) is rebuilt as an image, reopened and scanned: the "
        "contents must be the specification after the completed writes, or additionally the one in "
        "flight as a whole; then further writes, a clean reopen and a second scan. A sample of images "
        "is crashed again during their own recovery (nested). Non-trivial image: at least one write "
        "completed before the crash point; distinct by (history, crash point). recover: every crash "
        "image is also given to the extracted recovery function Recover.recover_image: open result, last "
        "sequence number and contents must equal the real DB::open's. proto: after every operation of a "
        "history the complete directory (CURRENT, manifests record by record, logs byte by byte, tables "
        "entry by entry) must equal what the extracted protocol model Proto.p_run derives from the "
        "operations and the reported events.")
TRUSTED = ["SimFs: every FileSystem trait call is atomic and durable once it returns (durability below the trait — fsync, directory entries, rename atomicity — is assumed, not modelled)"]
ASSUMPTIONS = ["single client; WriteOptions::synchronous is ignored by the code and by the model"]


def gen_cases(tier, rng):
    cases = []
    if tier == "quick":
        for i in range(10):
            cases.append(crash.make_case(rng, i, rng.choice([12, 25, 40]), "all" if i < 7 else "step:3,nested:4"))
    else:
        for i in range(300):
            cases.append(crash.make_case(rng, i, rng.choice([12, 25, 40, 80]), "all" if i % 3 else "step:2,nested:6"))
    return cases


def gen_big_manifest_record(tier, rng):
    """a version edit larger than one 32 KiB log block (two table boundary keys of 33..45 KB), so the
    manifest record is written as several fragments = several file-system writes; every crash point,
    also those between two fragments; recovery with reuse_log_files = true, then writes, a flush (one
    more edit appended to whichever manifest is current) and a clean reopen, which must succeed and
    hold everything (seeded change C02-eof-inside-record-counts-as-intact: a manifest ending inside
    a fragmented record was reused and the next open rejected it)"""
    cases = []
    for i in range(1 if tier == "quick" else 8):
        n1, n2 = rng.randrange(33000, 45000), rng.randrange(33000, 45000)
        k1, k2 = "x" + "61" * n1, "x" + "62" * n2
        cfg = "4194304:2097152:1024:1"
        v = lambda: "x%02x%02x" % (rng.randrange(256), rng.randrange(256))
        toks = ["cm%d" % i, cfg, "Px60=" + v(), "P%s=%s" % (k1, v()), "P%s=%s" % (k2, v()), "C-:-", "Px63=" + v()]
        post = [cfg, "Px7a7a=" + v(), "C-:-", "Px7a7b=" + v()]
        cases.append("%s # %s # all" % (" ".join(toks), " ".join(post)))
    return cases


def corpus():
    import os
    d = os.path.join(lib.VERIF, "corpus", "C02")
    res = []
    if os.path.isdir(d):
        for f in sorted(os.listdir(d)):
            res += [l.strip() for l in open(os.path.join(d, f)) if l.strip() and not l.startswith("#")]
    return res


def gen_recover(tier, rng):
    n = 6 if tier == "quick" else 150
    return [crash.make_case(rng, "r%d" % i, rng.choice([6, 12, 25]), rng.choice(["all", "all,torn", "step:3,torn"])) for i in range(n)]


def gen_proto(tier, rng):
    n = 24 if tier == "quick" else 1200
    return [proto.gen_history(rng, i, rng.choice([6, 12, 25, 40])) for i in range(n)]


def suites(tier, seed, rng):
    return [crash.CrashSuite(corpus() + gen_cases(tier, rng) + gen_big_manifest_record(tier, rng), WANT),
            recover.RecoverSuite(gen_recover(tier, rng)),
            proto.ProtoSuite(gen_proto(tier, rng)),
            codec.CodecSuite("codec", codec.gen(tier, rng, ("B",)), lambda i, s, c: True),
            dbh.DbSuite(dbh.gen_reuse_boundary(tier, rng)),
            lib.SuiteRun("log", c12.gen_reopen(tier, rng), c12.prop_ok),
            sched.SchedSuite(sched.gen_cases(tier, rng, {"walgc"}))]


def replay_suites(rp):
    if rp.get("suite") == "sched":
        return [sched.SchedSuite([rp["case"]])]
    if rp.get("suite") == "dbhist":
        return [dbh.DbSuite([rp["case"]])]
    if rp.get("suite") == "log":
        return [lib.SuiteRun("log", [rp["case"]], c12.prop_ok)]
    if rp.get("suite") == "codec":
        return [codec.CodecSuite("codec", [rp["case"]], lambda i, s, c: True)]
    if rp.get("suite") == "recover":
        return [recover.RecoverSuite([rp["case"]])]
    if rp.get("suite") == "proto":
        return [proto.ProtoSuite([rp["case"]])]
    return [crash.CrashSuite([rp["case"]], WANT)]


def still_fails(suite, case, workdir):
    if suite == "sched":
        return sched.still_fails(case, workdir)
    if suite == "dbhist":
        return dbh.still_fails(case, workdir)
    if suite == "log":
        return c12.still_fails(suite, case, workdir)
    if suite == "proto":
        return proto.still_fails(case, workdir)
    if case.count(" # ") != 2:
        return False
    if suite == "recover":
        return recover.still_fails(case, workdir)
    return crash.still_fails(case, workdir, WANT)


def shrink(f, workdir):
    if f["suite"] in ("dbhist", "log", "codec", "sched"):
        return lib.shrink_case(f["suite"], f["case"], lambda c: still_fails(f["suite"], c, workdir)), f.get("detail", "")
    if f["suite"] == "proto":
        return lib.shrink_case("proto", f["case"], lambda c: proto.still_fails(c, workdir)), f.get("detail", "")
    if f["suite"] == "recover":
        return recover.shrink(f["case"], workdir), f.get("detail", "")
    return crash.shrink(f["case"], workdir, WANT)


def nontrivial(suite, case):
    if suite == "log":
        return c12.nontrivial(suite, case)
    return " P" in case or " B" in case


def classify(suite, case):
    if suite == "codec":
        return "codec:batch"
    if suite == "dbhist":
        return "dbhist:reuse-across-block-boundary"
    if suite == "sched":
        return "sched:crash-image-between-rotation-and-flush"
    if suite == "log":
        return "log:reopened-writer"
    if suite == "proto":
        return "proto:reopens=%d" % min(case.count(" O"), 3)
    if suite == "recover":
        return "recover:" + case.split(" # ")[2].split(",")[0].split(":")[0]
    return "crash:" + case.split(" # ")[2].split(",")[0].split(":")[0]
