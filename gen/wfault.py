"""Write-path fault correspondence (`wfault`): a write-ahead log append fails after letting a chosen
number of bytes through; results of every write, what reads see, the exact bytes of the log and the
contents after a reopen are compared with the extracted model [Faults.f_run]."""
from gen import lib, dbh


def gen_cases(tier, rng):
    n = 120 if tier == "quick" else 6000
    cases = []
    for i in range(n):
        nops = rng.randrange(2, 12)
        ops = []
        for _ in range(nops):
            r = rng.random()
            big = rng.random() < 0.15
            if r < 0.6:
                ops.append("P%s=%s" % (dbh.rkey(rng, 5), dbh.rval(rng, 70000 if big else 300)))
            elif r < 0.75:
                ops.append("D" + dbh.rkey(rng, 5))
            else:
                els = []
                for _ in range(rng.randrange(2, 5)):
                    els.append("%s=%s" % (dbh.rkey(rng, 5), dbh.rval(rng, 40000 if big else 200)) if rng.random() < 0.7 else dbh.rkey(rng, 5))
                ops.append("B" + ";".join(els))
        j = rng.randrange(0, nops + 1)            # nops = no fault
        f = rng.choice([0, 0, 0, 1, 2])
        partial = rng.choice([0, 0, 1, 3, 6, 7, 8, 20, 5000, 100000])
        cases.append("w%d %d:%d:%d %s" % (i, j, f, partial, " ".join(ops)))
    return cases


class WFaultSuite:
    suite = "wfault"

    def __init__(self, cases):
        self.cases = cases
        self.stats = {"faults_fired": 0, "partial_appends": 0, "failed_write_recovered": 0, "failed_write_lost": 0}

    def execute(self, workdir, tag="wf"):
        impl = lib.run_sharded(lib.RVH, "wfault", self.cases, workdir, tag + "i")
        mcases, info = [], {}
        for c in self.cases:
            cid = c.split(" ", 1)[0]
            il = impl.get(cid, cid + " MISSING")
            parts = il.split(" | ")
            if len(parts) != 5:
                continue
            res = [x.split(",") for x in parts[0].split(" ", 1)[1].split(";")]
            j, n, prev = -1, 0, 0
            for i, (r, ln) in enumerate(res):
                if r == "err":
                    j, n = i, int(ln) - prev
                    break
                prev = int(ln)
            ops = c.split(" ")[2:]
            mcases.append("%s %d:%d %s" % (cid, j, n, " ".join(ops)))
            info[cid] = (parts, res, j, n)
        model = lib.run_sharded(lib.DRIVER, "wfault", mcases, workdir, tag + "m")
        corr, prop = [], []
        for c in self.cases:
            cid = c.split(" ", 1)[0]
            if cid not in info:
                corr.append({"case": c, "impl": lib.trunc(impl.get(cid, ""), 400), "model": "", "detail": "run failed"})
                continue
            parts, res, j, n = info[cid]
            ml = model.get(cid, cid + " MISSING")
            mp = ml.split(" | ")
            bad = None
            if len(mp) != 4:
                bad = "model run failed: " + ml[:200]
            else:
                mres = mp[0].split(" ", 1)[1].split(";")
                ires = [r for r, _ in res]
                if j >= 0:
                    self.stats["faults_fired"] += 1
                    self.stats["partial_appends"] += n > 0
                if ires != mres:
                    bad = "results of the writes: implementation %s, model %s" % (",".join(ires), ",".join(mres))
                elif parts[1] != mp[1]:
                    bad = "contents seen by reads during the run: implementation %s, model %s" % (lib.trunc(parts[1], 200), lib.trunc(mp[1], 200))
                elif parts[2] != mp[2]:
                    bad = "bytes of the log differ (implementation %d, model %d hex digits)" % (len(parts[2]), len(mp[2]))
                elif parts[3] != mp[3]:
                    bad = "contents after reopen: implementation %s, model %s" % (lib.trunc(parts[3], 200), lib.trunc(mp[3], 200))
                elif j >= 0:
                    if parts[3] != parts[1]:
                        self.stats["failed_write_recovered"] += 1
                    else:
                        self.stats["failed_write_lost"] += 1
            if bad:
                corr.append({"case": c, "impl": lib.trunc(" | ".join(parts), 900), "model": lib.trunc(ml, 900), "detail": bad})
        return corr, prop
