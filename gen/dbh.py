"""Whole-database histories (suite `dbhist`): generator, comparison with the extracted API
specification, and judging of structural dumps by the extracted model (`dumpcheck`)."""
import os
from gen import lib

KEYS = ["x", "x00", "x61", "x6161", "x6162", "x62", "x6263", "x63", "x64", "x65", "x66", "x67",
        "x68", "x69", "x6a", "x6b", "xff", "xffff", "x6c", "x6d"]


def rkey(rng, nkeys):
    return KEYS[rng.randrange(min(nkeys, len(KEYS)))]


def rval(rng, big):
    r = rng.random()
    if r < 0.1:
        return "x"
    if r < 0.75:
        return "p%d.%d.%d" % (rng.randrange(1, 40), rng.randrange(256), rng.choice([0, 1, 3]))
    if r < 0.97:
        return "p%d.%d.%d" % (rng.randrange(100, 600), rng.randrange(256), 1)
    return "p%d.%d.1" % (big, rng.randrange(256))


def rcfg(rng):
    return "%d:%d:%d:%d" % (rng.choice([256, 512, 1024, 4096]), rng.choice([512, 1024, 4096]),
                            rng.choice([64, 256, 1024]), rng.randrange(2))



def gen_reuse_boundary(tier, rng):
    """write-ahead logs that grow across 32 KiB block boundaries over several sessions: a memtable
    budget large enough that the log is not rotated, values of 8..30 KB, a close + reopen with
    reuse_log_files = true between the writes (the reopened writer has to continue at the block
    offset where the file ends), a final reopen (either setting) and reads of everything. A sweep
    makes the first session end at every offset from 70 bytes before to 10 bytes after the first
    boundary."""
    cases = []
    big = "%d:%d:4096:1" % (1 << 20, 1 << 20)
    B = 32768
    sweep = range(0, 81, 1 if tier == "thorough" else 4)
    for d in sweep:
        toks = ["u%d" % d, big, "Px61=p%d.7.3" % (B - 100 + d), "O" + big, "Px62=p%d.9.1" % rng.choice([1, 40, 9000]),
                "Px63=p20000.1.1", "Dx61" if d % 2 else "Px64=x01", "O%d:%d:4096:%d" % (1 << 20, 1 << 20, d % 3 != 0),
                "A", "Gx61", "Gx62", "Gx63", "Gx64"]
        cases.append(" ".join(toks))
    n = 10 if tier == "quick" else 300
    for i in range(n):
        toks = ["v%d" % i, big]
        for _ in range(rng.randrange(2, 5)):
            for _ in range(rng.randrange(1, 4)):
                k = rkey(rng, 6)
                if rng.random() < 0.15:
                    toks.append("D" + k)
                else:
                    toks.append("P%s=p%d.%d.%d" % (k, rng.choice([rng.randrange(8000, 30000), rng.randrange(1, 200)]), rng.randrange(256), rng.choice([1, 3])))
            toks.append("O" + big)
        toks[-1] = "O%d:%d:4096:%d" % (1 << 20, 1 << 20, rng.randrange(2))
        toks.append("A")
        for k in range(6):
            toks.append("G" + KEYS[k])
        cases.append(" ".join(toks))
    return cases

def iter_ops(rng, nkeys, n):
    ops = []
    for _ in range(n):
        r = rng.random()
        if r < 0.32:
            ops.append("n")
        elif r < 0.64:
            ops.append("p")
        elif r < 0.72:
            ops.append("f")
        elif r < 0.80:
            ops.append("l")
        else:
            ops.append("s" + rkey(rng, nkeys + 2))
    return ",".join(ops)


def gen_history(rng, hid, nops, weights, big=40000, dircheck=False, events=True):
    """weights: dict of relative op weights: put del batch get snap iter compact reopen wait"""
    nkeys = rng.choice([4, 8, 14, 20])
    toks = ["h%s" % hid, rcfg(rng)]
    nsnaps = 0
    live_snaps = []
    live_iters = []
    itn = 0
    names = list(weights.keys())
    wts = [weights[k] for k in names]

    def checkpoint():
        if events:
            toks.append("V")
        toks.append("X")
        toks.append("A")
        toks.append("T")
        if dircheck and not live_iters and not live_snaps:
            toks.append("Y")
        for k in KEYS[:nkeys]:
            toks.append("G" + k)
        for s in live_snaps:
            for k in rng.sample(KEYS[:nkeys], min(4, nkeys)):
                toks.append("H%d:%s" % (s, k))

    for _ in range(nops):
        op = rng.choices(names, wts)[0]
        if op == "put":
            toks.append("P%s=%s" % (rkey(rng, nkeys), rval(rng, big)))
        elif op == "del":
            toks.append("D" + rkey(rng, nkeys))
        elif op == "batch":
            els = []
            for _ in range(rng.randrange(1, 6)):
                if rng.random() < 0.7:
                    els.append("%s=%s" % (rkey(rng, nkeys), rval(rng, big)))
                else:
                    els.append(rkey(rng, nkeys))
            toks.append("B" + ";".join(els))
        elif op == "get":
            toks.append("G" + rkey(rng, nkeys + 2))
        elif op == "snap":
            if live_snaps and rng.random() < 0.4:
                s = live_snaps.pop(rng.randrange(len(live_snaps)))
                toks.append("R%d" % s)
            elif len(live_snaps) < 3:
                toks.append("S")
                live_snaps.append(nsnaps)
                nsnaps += 1
        elif op == "iter":
            r = rng.random()
            if live_iters and r < 0.55:
                toks.append("K%s:%s" % (rng.choice(live_iters), iter_ops(rng, nkeys, rng.randrange(1, 10))))
            elif live_iters and r < 0.7:
                it = live_iters.pop(rng.randrange(len(live_iters)))
                toks.append("Q" + it)
            elif len(live_iters) < 3:
                name = "i%d" % itn
                itn += 1
                snap = "-" if not live_snaps or rng.random() < 0.5 else str(rng.choice(live_snaps))
                toks.append("J%s:%s" % (name, snap))
                toks.append("K%s:%s" % (name, iter_ops(rng, nkeys, rng.randrange(1, 8))))
                live_iters.append(name)
        elif op == "compact":
            r = rng.random()
            if r < 0.4:
                toks.append("C-:-")
            else:
                a, b = sorted([rkey(rng, nkeys), rkey(rng, nkeys)], key=lambda k: bytes.fromhex(k[1:]))
                lo = "-" if rng.random() < 0.2 else a
                hi = "-" if rng.random() < 0.2 else b
                toks.append("C%s:%s" % (lo, hi))
            toks.append("W")
            checkpoint()
        elif op == "reopen":
            # iterators must not outlive the database handle (DB::drop panics otherwise: recorded
            # as a separate finding under C09); snapshots die with the handle
            for it in live_iters:
                toks.append("Q" + it)
            live_iters = []
            live_snaps = []
            toks.append("O" + rcfg(rng))
            nsnaps_before = nsnaps
            checkpoint()
        elif op == "wait":
            toks.append("W")
            checkpoint()
    for it in live_iters:
        toks.append("K%s:%s" % (it, iter_ops(rng, nkeys, 4)))
        toks.append("Q" + it)
    toks.append("W")
    checkpoint()
    toks.append("L")
    return " ".join(toks)


DEFAULT_WEIGHTS = dict(put=40, batch=10, get=12, snap=4, iter=6, compact=2, reopen=2, wait=4)
DEFAULT_WEIGHTS["del"] = 12


class DbSuite:
    """runs histories through the implementation and the extracted specification; judges the
    structural dumps with the extracted model."""

    suite = "dbhist"

    def __init__(self, cases, timeout_s=120):
        self.cases = cases
        self.timeout_s = timeout_s
        self.stats = {}
        self.known_hits = []

    def execute(self, workdir, tag="db"):
        impl = lib.run_sharded(lib.RVH, "dbhist", self.cases, workdir, tag + "i",
                               extra_env={"RVH_CASE_TIMEOUT": str(self.timeout_s)})
        spec = lib.run_sharded(lib.DRIVER, "dbhist", self.cases, workdir, tag + "s")
        prop, corr = [], []
        dumps = []
        gcfacts = []
        for c in self.cases:
            cid = c.split(" ", 1)[0]
            ops = c.split(" ")[2:]
            il = impl.get(cid, cid + " MISSING")
            sl = spec.get(cid, cid + " MISSING")
            it = il.split(" ")[1:]
            st = sl.split(" ")[1:]
            bad = None
            if "HANG" in it[:1] or "HARNESS-PANIC" in il or "BGPANIC" in il or "NO-OUTPUT" in il:
                bad = ("run", il[:300])
            elif len(it) != len(ops) or len(st) != len(ops):
                bad = ("shape", "%d ops, %d impl results, %d spec results: %s" % (len(ops), len(it), len(st), il[:200]))
            else:
                for i, (o, a, b) in enumerate(zip(ops, it, st)):
                    if b == "*":
                        if o == "X":
                            dumps.append((c, i, a, it[i + 1] if i + 1 < len(it) and ops[i + 1] == "A" else None))
                            if i + 2 < len(it) and ops[i + 2] == "T":
                                msg = descriptor_mismatch(a, it[i + 2])
                                if msg:
                                    bad = (i + 2, msg)
                                    break
                        elif o[0] == "O" and a != "ok":
                            bad = (i, "reopen failed: %s" % a)
                            break
                        elif o == "N" and a != "ok":
                            bad = (i, "closing the database failed: %s" % a)
                            break
                        elif o == "E" and not a.startswith("stats:"):
                            bad = (i, "get_descriptor(Stats) failed: %s" % a)
                            break
                        elif o == "Y":
                            gcfacts.append((c, i, a))
                            if not a.startswith("exact#"):
                                if leftover_after_iterator_release(a):
                                    # KNOWN FINDING obsolete-tables-after-iterator-release
                                    self.known_hits.append(("obsolete-tables-after-iterator-release", cid, i))
                                    continue
                                bad = (i, "directory contents are not exactly the needed files: %s" % a.split("#")[0])
                                break
                        elif o == "W" and a != "ok":
                            bad = (i, "background work did not quiesce")
                            break
                        elif o[0] == "M" and a != "ok":
                            bad = (i, "positioning fresh iterators failed: %s" % a)
                            break
                        continue
                    if a != b:
                        bad = (i, "op %d %s: implementation %s, specification %s" % (i, lib.trunc(o, 80), lib.trunc(a, 200), lib.trunc(b, 200)))
                        break
            if bad:
                prop.append({"case": c, "impl": lib.trunc(il, 2000), "spec": lib.trunc(sl, 2000), "model": "",
                             "detail": str(bad[1]), "at": bad[0]})
        # step refinement: every installed version change is re-derived by the LSM model
        stepc = []
        for c in self.cases:
            cid = c.split(" ", 1)[0]
            ops = c.split(" ")[2:]
            it = impl.get(cid, "").split(" ")[1:]
            if len(it) != len(ops) or "V" not in ops:
                continue
            evs = "|".join(it[i] for i, o in enumerate(ops) if o == "V" and it[i] != "-")
            if evs:
                stepc.append((c, "q%d %s" % (len(stepc), evs)))
        if stepc:
            sv = lib.run_sharded(lib.DRIVER, "stepcheck", [x[1] for x in stepc], workdir, tag + "q")
            nsteps = 0
            for n, (c, sc) in enumerate(stepc):
                v = sv.get("q%d" % n, "")
                f = v.split(" ")
                if len(f) >= 3 and f[2].startswith("steps="):
                    nsteps += int(f[2][6:])
                if len(f) < 2 or f[1] != "ok":
                    corr.append({"case": c, "impl": lib.trunc(sc, 1500), "model": lib.trunc(v, 600), "kind": "step-refinement",
                                 "detail": "an installed version change is not what the LSM model derives: %s" % lib.trunc(" ".join(f[1:]), 400)})
            self.stats["steps_refined"] = nsteps
        # the remove_obsolete_files model judges every observed directory
        if gcfacts:
            gv = lib.run_sharded(lib.DRIVER, "gccheck", ["g%d %s" % (n, x[2].split("#")[1]) for n, x in enumerate(gcfacts) if "#" in x[2]], workdir, tag + "g")
            for n, (c, i, a) in enumerate(gcfacts):
                v = gv.get("g%d" % n, "")
                verdict = v.split(" ", 1)[1] if " " in v else v
                if (verdict == "exact") != a.startswith("exact#") and not leftover_after_iterator_release(a):
                    corr.append({"case": c, "impl": lib.trunc(a, 600), "model": lib.trunc(verdict, 300), "kind": "gc-model",
                                 "detail": "directory judged %s by the harness rule but %s by the extracted remove_obsolete_files model" % (a.split("#")[0], verdict)})
            self.stats["gc_model_checks"] = len(gcfacts)
        # the DatabaseIterator model on the dumped state vs the implementation's iterator
        iterc = []
        for c in self.cases:
            cid = c.split(" ", 1)[0]
            ops = c.split(" ")[2:]
            it = impl.get(cid, "").split(" ")[1:]
            if len(it) != len(ops):
                continue
            for i in range(len(ops) - 2):
                if ops[i] == "X" and ops[i + 1][0] == "J" and ops[i + 1].endswith(":-") and ops[i + 2][0] == "K":
                    iterc.append((c, i, "t%d %s - %s" % (len(iterc), it[i], ops[i + 2].split(":", 1)[1]), it[i + 2]))
        if iterc:
            verd = lib.run_sharded(lib.DRIVER, "itercheck", [x[2] for x in iterc], workdir, tag + "t")
            for n, (c, i, tc, impl_trace) in enumerate(iterc):
                v = verd.get("t%d" % n, "")
                mt = v.split(" ", 1)[1] if " " in v else v
                if mt != impl_trace:
                    corr.append({"case": c, "impl": lib.trunc(impl_trace, 800), "model": lib.trunc(mt, 800), "kind": "iterator-model",
                                 "detail": "DatabaseIterator model on the dumped state at op %d disagrees with the implementation" % i})
        self.stats["iterator_model_checks"] = len(iterc)
        # judge the dumps
        if dumps:
            dc = ["d%d %s" % (i, d[2]) for i, d in enumerate(dumps)]
            verdicts = lib.run_sharded(lib.DRIVER, "dumpcheck", dc, workdir, tag + "d")
            for i, (c, opi, dump, scan) in enumerate(dumps):
                v = verdicts.get("d%d" % i, "")
                if "work=0" in v:
                    prop.append({"case": c, "impl": lib.trunc(dump[dump.find("]mem["):], 600), "spec": "work_inv_dump (Work.v)", "model": lib.trunc(v, 200),
                                 "detail": "structural dump at op %d: pending background work (immutable memtable / manual compaction / version needs compaction) with no compaction scheduled and no bad state" % opi, "at": opi})
                    continue
                if "shape=1" not in v or "getpath=1" not in v:
                    if "DRIVER-ERROR" in v:
                        corr.append({"case": c, "impl": lib.trunc(dump, 1500), "model": lib.trunc(v, 500), "kind": "dump-unparsable"})
                    else:
                        prop.append({"case": c, "impl": lib.trunc(dump, 3000), "spec": "shape_ok / lookup path on the dumped state", "model": lib.trunc(v, 300),
                                     "detail": "structural dump at op %d rejected by the model: %s" % (opi, v[:60]), "at": opi})
                    continue
                views = v.split("views=", 1)[1].split(";") if "views=" in v else [""]
                if scan is not None and views[0] != scan:
                    prop.append({"case": c, "impl": lib.trunc(dump, 3000), "spec": lib.trunc(scan, 500), "model": lib.trunc(views[0], 500),
                                 "detail": "contents computed from the dumped structure at op %d differ from the scan" % opi, "at": opi})
        self.stats["dumps_judged"] = len(dumps)
        return corr, prop


def leftover_after_iterator_release(a):
    """KNOWN FINDING obsolete-tables-after-iterator-release (wider than its name: any last holder of
    an old version, an iterator or a read in flight while a compaction collected garbage): the
    only surplus files are table files, nothing is missing, only the current version is linked, and
    ONE MORE run of remove_obsolete_files (the harness triggers it through a hook once the
    directory is found inexact) makes the directory exact. A leak that survives a collection with
    nothing pinned is not this finding."""
    import re
    parts = a.split("#")
    verdict = parts[0]
    m = re.fullmatch(r"extra\[([^\]]*)\]missing\[\]cur\[man=\d+;wal=\d+;live=1\]", verdict)
    if not m or parts[-1] != "AFTERGC:exact":
        return False
    names = [x for x in m.group(1).split(";") if x]
    return bool(names) and all(re.fullmatch(r"data/\d+\.rdb", n) for n in names)


def descriptor_mismatch(dump, desc):
    """the SSTables / NumFilesAtLevel descriptors must describe the dumped version"""
    import re
    try:
        levels = dump[dump.index("V[") + 2:dump.index("]mem[")].split("/")
        nums = [[] if l == "-" else [int(f.split("@")[0]) for f in l.split("+")] for l in levels]
        counts, sst = desc.split("#")
        counts = [int(x) for x in counts.split(",")]
        if counts != [len(n) for n in nums]:
            return "NumFilesAtLevel %s differs from the dumped version %s" % (counts, [len(n) for n in nums])
        text = bytes.fromhex(sst).decode("utf-8", "replace")
        per = []
        for line in text.split("\n"):
            if line.startswith("--- Level"):
                per.append([])
            else:
                m = re.match(r"(\d+) \(size: (\d+)\)", line)
                if m and per:
                    per[-1].append(int(m.group(1)))
        if per != nums:
            return "SSTables lists %s, dumped version has %s" % (per, nums)
    except Exception as ex:
        return "descriptor unparsable: %s" % ex
    return None


def still_fails(case, workdir):
    s = DbSuite([case], timeout_s=60)
    corr, prop = s.execute(workdir, tag="sh")
    return bool(prop)


def corpus(pid):
    d = os.path.join(lib.VERIF, "corpus", pid)
    res = []
    if os.path.isdir(d):
        for f in sorted(os.listdir(d)):
            if f.startswith("dbhist"):
                res += [l.strip() for l in open(os.path.join(d, f)) if l.strip() and not l.startswith("#")]
    return res
