"""Shared machinery of the check driver: builds (Coq, OCaml driver, Rust harness against the
current /repo working tree), audit of the Coq development, sharded execution of case files
through the implementation (rvh) and the extracted model (ocaml/driver), evidence and replay
files, known findings."""
import fcntl, hashlib, json, os, random, re, subprocess, sys, time

VERIF = os.path.dirname(os.path.dirname(os.path.abspath(__file__)))
REPO = os.environ.get("RAINDB_REPO", "/repo")
COQ = os.path.join(VERIF, "coq")
WORK = os.path.join(VERIF, "work")
RVH = os.path.join(VERIF, "harness", "target", "debug", "rvh")
DRIVER = os.path.join(VERIF, "ocaml", "driver")
NPROC = int(os.environ.get("VERIF_JOBS", "16"))

ALLOWED_AXIOMS = {
    # axioms declared by the Coq standard library that a theorem may depend on (named in the
    # trusted base when they occur); the development itself declares none.
    "functional_extensionality_dep",
    "FunctionalExtensionality.functional_extensionality_dep",
    "Eqdep.Eq_rect_eq.eq_rect_eq",
    "proof_irrelevance",
    "classic",
    "JMeq_eq",
}

FORBIDDEN = re.compile(
    r"\b(Admitted|admit|Axiom|Axioms|Parameter|Parameters|Conjecture|Hypothesis|Variables?\s|"
    r"Unset\s+Guard|bypass_check|type-in-type|Admit\s+Obligations|Unset\s+Positivity|"
    r"Unset\s+Universe\s+Checking|impredicative-set)"
)


class CheckFailure(Exception):
    """a build/audit obligation that no longer checks"""

    def __init__(self, what, detail=""):
        super().__init__(what)
        self.what = what
        self.detail = detail


def sh(cmd, timeout=None, cwd=None, env=None, inp=None):
    e = dict(os.environ)
    e.setdefault("CARGO_NET_OFFLINE", "true")
    if env:
        e.update(env)
    p = subprocess.run(
        cmd, shell=isinstance(cmd, str), cwd=cwd, env=e, input=inp,
        stdout=subprocess.PIPE, stderr=subprocess.STDOUT, timeout=timeout, text=True,
    )
    return p.returncode, p.stdout


class BuildLock:
    def __enter__(self):
        os.makedirs(WORK, exist_ok=True)
        self.f = open(os.path.join(WORK, ".lock"), "w")
        fcntl.flock(self.f, fcntl.LOCK_EX)
        return self

    def __exit__(self, *a):
        fcntl.flock(self.f, fcntl.LOCK_UN)
        self.f.close()


# ---------------------------------------------------------------------------------------------
# Coq
# ---------------------------------------------------------------------------------------------

def strip_comments(text):
    out, depth, i = [], 0, 0
    while i < len(text):
        if text.startswith("(*", i):
            depth += 1
            i += 2
        elif text.startswith("*)", i) and depth > 0:
            depth -= 1
            i += 2
        else:
            if depth == 0:
                out.append(text[i])
            i += 1
    return "".join(out)


def coq_sources():
    res = []
    for root, _, files in os.walk(COQ):
        for f in files:
            if f.endswith(".v"):
                res.append(os.path.join(root, f))
    return sorted(res)


def audit_sources():
    """No Admitted/admit/Axiom/Parameter/... anywhere in the development. Section variables are
    allowed only inside sections (checked: every `Variable`/`Hypothesis` line lies between a
    `Section` and its `End`)."""
    problems = []
    for path in coq_sources():
        text = strip_comments(open(path).read())
        depth = 0
        for ln, line in enumerate(text.split("\n"), 1):
            if re.match(r"\s*Section\s+\w+", line):
                depth += 1
            m = FORBIDDEN.search(line)
            if m:
                word = m.group(1).strip()
                if word in ("Hypothesis", "Variable", "Variables") and depth > 0:
                    pass
                else:
                    problems.append("%s:%d: %s" % (os.path.relpath(path, VERIF), ln, line.strip()))
            if re.match(r"\s*End\s+\w+\s*\.", line) and depth > 0:
                # could also be a Module end; modules are not used in this development
                depth -= 1
    return problems


def coq_build(prop_file=None, clean=False):
    """Regenerate Params.v, build the whole development (full .vo), then recompile the property
    file to capture its Print Assumptions output. Returns (theorems, assumptions_by_theorem)."""
    from gen import params
    with BuildLock():
        try:
            text, vals = params.generate()
        except params.ParamError as ex:
            raise CheckFailure("params", "constant extraction from the Rust sources failed: %s" % ex)
        pv = os.path.join(COQ, "Params.v")
        if not os.path.exists(pv) or open(pv).read() != text:
            open(pv, "w").write(text)
        if clean:
            sh("make clean >/dev/null 2>&1; rm -f Makefile Makefile.conf .Makefile.d", cwd=COQ)
        if not os.path.exists(os.path.join(COQ, "Makefile")) or \
                os.path.getmtime(os.path.join(COQ, "_CoqProject")) > os.path.getmtime(os.path.join(COQ, "Makefile")):
            rc, out = sh("coq_makefile -f _CoqProject -o Makefile", cwd=COQ, timeout=60)
            if rc != 0:
                raise CheckFailure("coq_makefile", out[-2000:])
        rc, out = sh("timeout 1500 make -j%d" % NPROC, cwd=COQ, timeout=1600)
        if rc != 0:
            raise CheckFailure("coq-build", out[-3000:])
        result = (0, {})
        if prop_file:
            vo = os.path.join(COQ, prop_file[:-2] + ".vo")
            if os.path.exists(vo):
                os.remove(vo)
            rc, out = sh("timeout 600 make %s" % (prop_file[:-2] + ".vo"), cwd=COQ, timeout=700)
            if rc != 0:
                raise CheckFailure("coq-build:" + prop_file, out[-3000:])
            result = parse_assumptions(os.path.join(COQ, prop_file), out)
        # the OCaml driver is rebuilt whenever the extraction is newer
        build_driver()
    return result


def parse_assumptions(path, out):
    text = strip_comments(open(path).read())
    theorems = re.findall(r"^\s*(?:Theorem|Corollary)\s+(\w+)", text, re.M)
    printed = re.findall(r"Print\s+Assumptions\s+(\w+)\s*\.", text)
    missing = [t for t in theorems if t not in printed]
    if missing:
        raise CheckFailure("audit", "no Print Assumptions for %s in %s" % (missing, path))
    # output blocks appear in order of the Print Assumptions commands
    blocks = re.split(r"(?m)^(?=Closed under the global context|Axioms:)", out)
    blocks = [b for b in blocks if b.startswith("Closed under") or b.startswith("Axioms:")]
    if len(blocks) != len(printed):
        raise CheckFailure("audit", "expected %d Print Assumptions blocks, saw %d\n%s" % (len(printed), len(blocks), out[-1500:]))
    assumptions = {}
    for name, b in zip(printed, blocks):
        if b.startswith("Closed under"):
            assumptions[name] = []
        else:
            ax = re.findall(r"(?m)^([\w.']+)\s*:", b)
            assumptions[name] = ax
            bad = [a for a in ax if a not in ALLOWED_AXIOMS and a.split(".")[-1] not in ALLOWED_AXIOMS]
            if bad:
                raise CheckFailure("audit", "theorem %s depends on non-allowlisted axioms %s" % (name, bad))
    return theorems, assumptions


def build_driver():
    ml = os.path.join(VERIF, "ocaml", "model.ml")
    if not os.path.exists(ml):
        raise CheckFailure("extraction", "ocaml/model.ml was not produced by extract/Extract.v")
    srcs = [ml, os.path.join(VERIF, "ocaml", "model.mli"), os.path.join(VERIF, "ocaml", "driver.ml")]
    if os.path.exists(DRIVER) and all(os.path.getmtime(s) <= os.path.getmtime(DRIVER) for s in srcs):
        return
    rc, out = sh("ocamlfind ocamlopt -O3 -w -a model.mli model.ml driver.ml -o driver",
                 cwd=os.path.join(VERIF, "ocaml"), timeout=600)
    if rc != 0:
        raise CheckFailure("ocaml-driver", out[-3000:])


# ---------------------------------------------------------------------------------------------
# Rust harness
# ---------------------------------------------------------------------------------------------

def build_harness():
    with BuildLock():
        hd = os.path.join(VERIF, "harness")
        lock = os.path.join(hd, "Cargo.lock")
        if not os.path.exists(lock):
            sh("cp %s/Cargo.lock %s" % (REPO, lock))
        rc, out = sh("timeout 1500 cargo build --offline 2>&1", cwd=hd, timeout=1600,
                     env={"RUSTFLAGS": "--cfg raindb_verif", "CARGO_NET_OFFLINE": "true"})
        if rc != 0:
            errs = "\n".join(l for l in out.split("\n") if not l.startswith("warning"))
            raise CheckFailure("harness-build", errs[-4000:])


# ---------------------------------------------------------------------------------------------
# running suites
# ---------------------------------------------------------------------------------------------

def _limits():
    import resource
    try:
        resource.setrlimit(resource.RLIMIT_STACK, (resource.RLIM_INFINITY, resource.RLIM_INFINITY))
    except Exception:
        pass


def run_sharded(binary, suite, cases, workdir, tag, timeout=3000, extra_env=None):
    """cases: list of strings (one per line, first token = id). Returns dict id -> output line."""
    os.makedirs(workdir, exist_ok=True)
    n = max(1, min(NPROC, len(cases)))
    shards = [cases[i::n] for i in range(n)]
    procs = []
    env = dict(os.environ)
    if extra_env:
        env.update(extra_env)
    for i, sh_cases in enumerate(shards):
        inp = os.path.join(workdir, "%s.%s.%d.in" % (suite, tag, i))
        outp = os.path.join(workdir, "%s.%s.%d.out" % (suite, tag, i))
        with open(inp, "w") as f:
            f.write("\n".join(sh_cases) + "\n")
        fi = open(inp)
        fo = open(outp, "w")
        p = subprocess.Popen([binary, suite], stdin=fi, stdout=fo, stderr=subprocess.DEVNULL,
                             preexec_fn=_limits, env=env)
        procs.append((p, fi, fo, outp, sh_cases))
    res = {}
    deadline = time.time() + timeout
    for p, fi, fo, outp, sh_cases in procs:
        try:
            p.wait(timeout=max(1, deadline - time.time()))
        except subprocess.TimeoutExpired:
            p.kill()
            p.wait()
        fi.close()
        fo.close()
        for line in open(outp):
            line = line.rstrip("\n")
            if not line:
                continue
            res[line.split(" ", 1)[0]] = line
        for c in sh_cases:
            cid = c.split(" ", 1)[0]
            if cid not in res:
                res[cid] = "%s NO-OUTPUT(rc=%s)" % (cid, p.returncode)
    return res


# ---------------------------------------------------------------------------------------------
# known findings, replays, evidence
# ---------------------------------------------------------------------------------------------

def known_findings(pid):
    """lines of KNOWN_FINDINGS.txt: `known: property=<id> key=<key> <text>` / `fixed: ...`"""
    res = []
    path = os.path.join(VERIF, "KNOWN_FINDINGS.txt")
    if not os.path.exists(path):
        return res
    for line in open(path):
        line = line.strip()
        m = re.match(r"known:\s+property=(\w+)\s+key=(\S+)\s+(.*)", line)
        if m and m.group(1) == pid:
            res.append((m.group(2), m.group(3)))
    return res


def write_replay(pid, payload):
    os.makedirs(os.path.join(VERIF, "replays"), exist_ok=True)
    name = "%s-%s-%d.json" % (pid, time.strftime("%Y%m%d-%H%M%S"), os.getpid())
    path = os.path.join(VERIF, "replays", name)
    with open(path, "w") as f:
        json.dump(payload, f, indent=1)
    return path


def write_evidence(pid, tier, seed, coverage, wall, violations, assumptions=None):
    os.makedirs(os.path.join(VERIF, "evidence"), exist_ok=True)
    ev = {
        "property_id": pid,
        "tier": tier,
        "seed": seed,
        "level": "proof",
        "coverage": coverage,
        "assumptions": assumptions or [],
        "wall_s": round(wall, 2),
        "violations": violations,
    }
    with open(os.path.join(VERIF, "evidence", pid + ".json"), "w") as f:
        json.dump(ev, f, indent=1)


def trunc(s, n=300):
    s = str(s)
    return s if len(s) <= n else s[:n] + "...(%d chars)" % len(s)


TRUSTED_BASE_COMMON = [
    "Coq 8.16.1 kernel (coqc, full .vo build; vm_compute used in Examples/witnesses/finite side conditions; native_compute not used)",
    "no axioms declared by the development; Print Assumptions of every property theorem checked against an allowlist of standard-library axioms on every run",
    "extraction: ExtrOcamlBasic only (Extract Inductive for bool, option, unit, list, prod, sumbool, sumor); N/positive/nat kept as Coq datatypes; no Extract Constant",
    "hand-written Gallina model tied to the code by differential execution (correspondence) of the extracted model and the Rust implementation on the same cases; gen/params.py regenerates the constants from the Rust sources",
    "glue: ocaml/driver.ml (parse/print), harness/ (Rust, SimFs in-memory file system), gen/*.py (generators, comparison), src/verif_hooks.rs wrappers in /repo",
]


# ---------------------------------------------------------------------------------------------
# generic differential runner
# ---------------------------------------------------------------------------------------------

class SuiteRun:
    """One correspondence suite: `cases` are lines for both binaries. The driver prints
    `<id> <observables> | <spec>`; rvh prints `<id> <observables>`. `prop_ok(impl_obs, spec,
    case)` decides the property on the implementation's observables given the extracted spec's
    verdict (`none` = no claim)."""

    def __init__(self, suite, cases, prop_ok, describe=None, env=None):
        self.suite = suite
        self.cases = cases
        self.prop_ok = prop_ok
        self.describe = describe or (lambda c: trunc(c, 200))
        self.env = env

    def execute(self, workdir, tag="g"):
        impl = run_sharded(RVH, self.suite, self.cases, workdir, tag + "i", extra_env=self.env)
        model = run_sharded(DRIVER, self.suite, self.cases, workdir, tag + "m")
        corr, prop = [], []
        for c in self.cases:
            cid = c.split(" ", 1)[0]
            il = impl.get(cid, cid + " MISSING")
            ml = model.get(cid, cid + " MISSING | none")
            if " | " in ml:
                mobs, spec = ml.split(" | ", 1)
            else:
                mobs, spec = ml, "none"
            if "DRIVER-ERROR" in ml:
                corr.append({"case": c, "impl": il, "model": ml, "kind": "driver-error"})
                continue
            if spec != "none" and not self.prop_ok(il, spec, c):
                prop.append({"case": c, "impl": il, "model": mobs, "spec": spec})
            elif il != mobs:
                corr.append({"case": c, "impl": il, "model": mobs, "spec": spec})
        return corr, prop


def shrink_case(suite, case, still_fails, fixed_tokens=2, budget=150, seconds=None):
    """Delta debugging on the tokens of a failing case: chunks of decreasing size, then single
    tokens; bounded by a number of runs and by wall-clock time (VERIF_SHRINK_SECS, default 150)."""
    import time
    if seconds is None:
        seconds = int(os.environ.get("VERIF_SHRINK_SECS", "150"))
    deadline = time.time() + seconds
    toks = case.split(" ")
    head, body = toks[:fixed_tokens], toks[fixed_tokens:]
    runs = 0
    chunk = max(1, len(body) // 2)
    while chunk >= 1 and runs < budget and time.time() < deadline:
        i = 0
        removed = False
        while i < len(body) and runs < budget and time.time() < deadline:
            cand = body[:i] + body[i + chunk:]
            runs += 1
            if cand and still_fails(" ".join(head + cand)):
                body = cand
                removed = True
            else:
                i += chunk
        if chunk == 1 and not removed:
            break
        chunk = chunk // 2 if chunk > 1 else (1 if removed else 0)
    return " ".join(head + body)


def run_single(suite, case, workdir, env=None):
    impl = run_sharded(RVH, suite, [case], workdir, "si", extra_env=env)
    model = run_sharded(DRIVER, suite, [case], workdir, "sm")
    cid = case.split(" ", 1)[0]
    il = impl.get(cid, "")
    ml = model.get(cid, "")
    mobs, spec = (ml.split(" | ", 1) + ["none"])[:2] if " | " in ml else (ml, "none")
    return il, mobs, spec
