"""LRU cache correspondence (`cache`): random operation sequences (insert / get / remove over a
small key space, capacities 2..9 so that evictions are frequent) on the real LRUCache and on the
extracted model [Cache.lru_run]; values returned and entry counts compared step by step."""
from gen import lib


def gen_cases(tier, rng):
    n = 150 if tier == "quick" else 8000
    cases = []
    for i in range(n):
        cap = rng.choice([2, 2, 3, 4, 5, 9])
        nk = rng.choice([cap, cap + 1, cap + 3, 2 * cap + 2])
        ops = []
        for _ in range(rng.randrange(5, 80)):
            r = rng.random()
            k = rng.randrange(nk)
            if r < 0.5:
                ops.append("I%d=%d" % (k, rng.randrange(1000)))
            elif r < 0.9:
                ops.append("G%d" % k)
            else:
                ops.append("R%d" % k)
        cases.append("c%d %d %s" % (i, cap, " ".join(ops)))
    return cases


class CacheSuite:
    suite = "cache"

    def __init__(self, cases):
        self.cases = cases
        self.stats = {"operations": 0}

    def execute(self, workdir, tag="ca"):
        impl = lib.run_sharded(lib.RVH, "cache", self.cases, workdir, tag + "i")
        model = lib.run_sharded(lib.DRIVER, "cache", self.cases, workdir, tag + "m")
        corr, prop = [], []
        for c in self.cases:
            cid = c.split(" ", 1)[0]
            a, b = impl.get(cid, cid + " MISSING"), model.get(cid, cid + " MISSING")
            self.stats["operations"] += len(c.split(" ")) - 2
            if a != b:
                x, y = a.split(" "), b.split(" ")
                k = next((i for i in range(min(len(x), len(y))) if x[i] != y[i]), -1)
                corr.append({"case": c, "impl": lib.trunc(a, 500), "model": lib.trunc(b, 500),
                             "detail": "LRU cache: operation %d %s: implementation %s, model %s" % (
                                 k - 1, c.split(" ")[k + 1] if 0 < k < len(c.split(" ")) - 1 else "?", x[k] if k >= 0 else a[:60], y[k] if k >= 0 else b[:60])})
        return corr, prop


def still_fails(case, workdir):
    return bool(CacheSuite([case]).execute(workdir, tag="sh")[0])
