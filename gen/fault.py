"""Fault-injection suite (`fault`): one injected FileSystem failure per run (transient or sticky),
at every call position (class x file kind x ordinal) of a reference run. Oracle for C08:
every API call returns an error or has taken full effect; a write that returned Ok is visible to
later reads (or they fail); after the fault is gone and the database is reopened it contains every
Ok write, and each failed write completely or not at all."""
from gen import lib, dbh


def tok_bytes(t):
    if t == "" or t == "x":
        return b""
    if t[0] == "x":
        return bytes.fromhex(t[1:])
    if t[0] == "p":
        n, a, b = [int(x) for x in t[1:].split(".")]
        return bytes(((a + i * b) & 255) for i in range(n))
    if t[0] == "r":
        n, seed = [int(x) for x in t[1:].split(".")]
        x = seed & 0x7fffffff
        out = bytearray()
        for _ in range(n):
            x = (x * 1103515245 + 12345) & 0x7fffffff
            out.append((x >> 16) & 255)
        return bytes(out)
    raise ValueError(t)


def apply_write(m, tok):
    m = dict(m)
    body = tok[1:]
    if tok[0] == "P":
        k, v = body.split("=")
        m[tok_bytes(k)] = tok_bytes(v).hex()
    elif tok[0] == "D":
        m.pop(tok_bytes(body), None)
    elif tok[0] == "B":
        for el in [e for e in body.split(";") if e]:
            if "=" in el:
                k, v = el.split("=")
                m[tok_bytes(k)] = tok_bytes(v).hex()
            else:
                m.pop(tok_bytes(el), None)
    return m


def show(m):
    if not m:
        return "-"
    return ",".join("%s=%s" % (k.hex(), m[k]) for k in sorted(m))


def judge(tokens, results, reopen, scan, bytes_reach_file=False):
    """returns None or a description of the violation"""
    if len(results) != len(tokens):
        return "result count %d differs from token count %d" % (len(results), len(tokens))
    possible = [dict()]
    # what the reopened database may contain: every Ok write, each failed write completely or not
    # at all. A failed write whose bytes did reach the log (the call failed afterwards) may be
    # invisible to reads of the running database and present after the reopen, so reads during the
    # run narrow [possible] but not [final_possible]
    final_possible = [dict()]
    for i, (t, r) in enumerate(zip(tokens, results)):
        c = t[0]
        if r == "closed":
            continue
        if c in "PDB":
            if r == "ok":
                possible = [apply_write(m, t) for m in possible]
                final_possible = [apply_write(m, t) for m in final_possible]
            elif r.startswith("err") or r == "nf":
                # failed write: completely or not at all
                possible = possible + [apply_write(m, t) for m in possible]
                final_possible = final_possible + [apply_write(m, t) for m in final_possible]
                if len(possible) > 64:
                    possible = possible[:64]
                if len(final_possible) > 256:
                    final_possible = final_possible[:256]
            else:
                return "token %d %s: unexpected result %s" % (i, lib.trunc(t, 40), r)
        elif c == "G":
            if r.startswith("err"):
                continue
            k = tok_bytes(t[1:])
            keep = [m for m in possible if (("v" + m[k]) if k in m else "nf") == r]
            if not keep:
                exp = sorted({(("v" + m[k]) if k in m else "nf") for m in possible})
                return ("token %d %s returned %s; every write that returned Ok must be visible and nothing else: allowed %s"
                        % (i, t, lib.trunc(r, 80), lib.trunc(exp, 200)))
            possible = keep
        elif c == "O":
            if not (r == "ok" or r.startswith("open-")):
                return "token %d reopen: unexpected result %s" % (i, r)
            # a reopen inside the run recovers from the files: a failed write whose bytes reached
            # the log may be back
            if bytes_reach_file:
                possible = list(final_possible)
    if reopen != "ok":
        return "after the fault is gone the database does not reopen: %s" % reopen
    if not bytes_reach_file:
        # a failed call of which nothing reached the file: what reads of the running database
        # ruled out stays ruled out
        final_possible = possible
    if scan not in {show(m) for m in final_possible}:
        return ("after the fault is gone and the database is reopened the contents are %s; allowed (Ok writes, failed writes all-or-nothing): %s"
                % (lib.trunc(scan, 300), lib.trunc(sorted({show(m) for m in final_possible})[:4], 600)))
    return None


def gen_history(rng, hid, nops):
    nkeys = rng.choice([3, 6])
    toks = ["f%s" % hid, dbh.rcfg(rng)]
    for _ in range(nops):
        r = rng.random()
        if r < 0.45:
            toks.append("P%s=%s" % (dbh.rkey(rng, nkeys), dbh.rval(rng, 40000)))
        elif r < 0.55:
            toks.append("D" + dbh.rkey(rng, nkeys))
        elif r < 0.65:
            els = ["%s=%s" % (dbh.rkey(rng, nkeys), dbh.rval(rng, 2000)) if rng.random() < 0.7 else dbh.rkey(rng, nkeys)
                   for _ in range(rng.randrange(2, 5))]
            toks.append("B" + ";".join(els))
        elif r < 0.85:
            toks.append("G" + dbh.rkey(rng, nkeys))
        elif r < 0.90:
            toks.append("W")
        elif r < 0.94:
            toks.append("C-:-")
        else:
            toks.append("O" + dbh.rcfg(rng))
    for k in dbh.KEYS[:nkeys]:
        toks.append("G" + k)
    return toks


class FaultSuite:
    suite = "fault"

    def __init__(self, cases):
        self.cases = cases
        self.stats = {"injections": 0, "fired": 0, "by_class": {}}

    def execute(self, workdir, tag="fl"):
        impl = lib.run_sharded(lib.RVH, "fault", self.cases, workdir, tag + "i",
                               extra_env={"RVH_CASE_TIMEOUT": "900"})
        prop, corr = [], []
        for c in self.cases:
            cid = c.split(" ", 1)[0]
            il = impl.get(cid, cid + " MISSING")
            tokens = c.split(" # ")[0].split(" ")[2:]
            fields = il.split(" ")[1:]
            if not fields or "|" not in fields[0]:
                prop.append({"case": c, "impl": lib.trunc(il, 1000), "spec": "", "model": "", "detail": "run failed: " + il[:300]})
                continue
            for f in fields:
                if f.startswith("BGPANIC"):
                    prop.append({"case": c, "impl": lib.trunc(f, 600), "spec": "", "model": "", "detail": "a database thread panicked: " + f[:300]})
                    break
                parts = f.split("|")
                name = parts[0]
                self.stats["injections"] += 1
                if parts[1] == "hang":
                    prop.append({"case": narrow(c, name), "impl": f, "spec": "", "model": "", "detail": "fault %s: the run did not finish within the watchdog (a call or the close hangs)" % name})
                    break
                if parts[1] == "panic":
                    prop.append({"case": narrow(c, name), "impl": f, "spec": "", "model": "", "detail": "fault %s: the call panicked" % name})
                    break
                fired = int(parts[1])
                self.stats["fired"] += 1 if fired else 0
                key = ".".join(name.split(".")[:2])
                self.stats["by_class"][key] = self.stats["by_class"].get(key, 0) + 1
                msg = judge(tokens, parts[2].split(","), parts[3], parts[4], bytes_reach_file=name.endswith(".2"))
                if msg:
                    prop.append({"case": narrow(c, name), "impl": lib.trunc(f, 1500), "spec": "", "model": "",
                                 "detail": "fault %s (fired %d times): %s" % (name, fired, msg)})
                    break
        return corr, prop


def narrow(case, name):
    parts = case.split(" # ")
    return "%s # %s # %s" % (parts[0], parts[1], name)


def shrink(case, workdir, budget=50):
    parts = case.split(" # ")
    toks = parts[0].split(" ")
    fixed, body = toks[:2], toks[2:]
    limit = parts[1]

    name = parts[2] if len(parts) > 2 else None

    def fails(b):
        c = "%s # %s" % (" ".join(fixed + b), limit)
        if name:
            c += " # " + name
        s = FaultSuite([c])
        corr, prop = s.execute(workdir, tag="sh")
        for p in prop:
            if p["detail"].startswith("fault "):
                return p["case"], p["detail"]
        return None

    best = None
    runs = 0
    changed = True
    import os as _os, time as _time
    _deadline = _time.time() + int(_os.environ.get("VERIF_SHRINK_SECS", "150"))
    while changed and runs < budget and _time.time() < _deadline:
        changed = False
        i = 0
        while i < len(body) and runs < budget and _time.time() < _deadline:
            cand = body[:i] + body[i + 1:]
            runs += 1
            r = fails(cand)
            if r:
                body, best, changed = cand, r, True
            else:
                i += 1
    return best if best else (case, "")
