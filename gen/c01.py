"""C01 — reads return the latest committed write, wherever the data lives."""
from gen import lib, vfn, dbh, cache

PROP_FILE = "props/C01.v"
RULE = ("dbhist: single-client histories of put/delete/batch/get/compact_range/reopen (options "
        "changed at reopen, reuse_log_files flipped) with tiny memtable/file/block sizes so that data "
        "moves through memtable, immutable memtable, level 0 and deeper levels; after every "
        "compaction, wait and reopen every key is read, the database is scanned and a structural dump "
        "is judged by the extracted model (shape, lookup path, contents). vfn: lookup-candidate "
        "functions (find_file_with_upper_bound_range, get_overlapping_files, some_file_overlaps_range, "
        "pick_level_for_memtable_output) on random versions. Non-trivial: a history with at least one "
        "write; distinct by sha1. cache: random insert / get / remove sequences on the real LRUCache (the block cache and table cache of the read path) with capacities 2..9 against the extracted model, values and entry counts compared step by step.")
TRUSTED = ["API specification = sorted map (coq/model/DbSpec.v); LSM model coq/model/Lsm.v"]
ASSUMPTIONS = ["single client; the background thread is only synchronised with at W tokens"]


def gen_cases(tier, rng):
    n = 60 if tier == "quick" else 3000
    w = dict(dbh.DEFAULT_WEIGHTS)
    w["snap"] = 1
    w["iter"] = 1
    cases = []
    for i in range(n):
        nops = rng.choice([30, 60, 120, 250])
        cases.append(dbh.gen_history(rng, i, nops, w))
    return cases


def suites(tier, seed, rng):
    return [dbh.DbSuite(dbh.corpus("C01") + gen_cases(tier, rng)),
            vfn.VfnSuite("vfn", vfn.gen(tier, rng, {"ffub", "plmo"}), lambda i, s, c: True),
            cache.CacheSuite(cache.gen_cases(tier, rng))]


def replay_suites(rp):
    if rp.get("suite") == "vfn":
        return [vfn.VfnSuite("vfn", [rp["case"]], lambda i, s, c: True)]
    if rp.get("suite") == "cache":
        return [cache.CacheSuite([rp["case"]])]
    return [dbh.DbSuite([rp["case"]])]


def still_fails(suite, case, workdir):
    if suite == "vfn":
        return vfn.still_fails(case, workdir)
    if suite == "cache":
        return cache.still_fails(case, workdir)
    return dbh.still_fails(case, workdir)


def nontrivial(suite, case):
    return " P" in case or " B" in case or case.count(" F") >= 2


def classify(suite, case):
    if suite == "cache":
        return "cache:cap=" + case.split(" ")[1]
    if suite == "vfn":
        return "vfn:" + case.split(" ")[2]
    n = len(case.split(" "))
    return "dbhist:ops<%d" % (100 if n < 100 else 300 if n < 300 else 1000 if n < 1000 else 100000)
