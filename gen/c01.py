"""C01 — reads return the latest committed write, wherever the data lives."""
from gen import lib, vfn, dbh, cache

PROP_FILE = "props/C01.v"
RULE = ("dbhist: single-client histories of put/delete/batch/get/compact_range/reopen (options "
        "changed at reopen, reuse_log_files flipped) with tiny memtable/file/block sizes so that data "
        "moves through memtable, immutable memtable, level 0 and deeper levels; after every "
        "compaction, wait and reopen every key is read, the database is scanned and a structural dump "
        "is judged by the extracted model (shape, lookup path, contents). vfn: lookup-candidate "
        "functions (find_file_with_upper_bound_range, get_overlapping_files, some_file_overlaps_range, "
        "pick_level_for_memtable_output) on random versions. Non-trivial: a history with at least one "
        "write; distinct by sha1. cache: random insert / get / remove sequences on the real LRUCache (the block cache and table cache of the read path) with capacities 2..9 against the extracted model, values and entry counts compared step by step.")
TRUSTED = ["API specification = sorted map (coq/model/DbSpec.v); LSM model coq/model/Lsm.v"]
ASSUMPTIONS = ["single client; the background thread is only synchronised with at W tokens"]


def gen_cases(tier, rng):
    n = 60 if tier == "quick" else 3000
    w = dict(dbh.DEFAULT_WEIGHTS)
    w["snap"] = 1
    w["iter"] = 1
    cases = []
    for i in range(n):
        nops = rng.choice([30, 60, 120, 250])
        cases.append(dbh.gen_history(rng, i, nops, w))
    return cases



def gen_seek_l0(tier, rng):
    """a seek-triggered compaction of a level-0 file that overlaps an OLDER level-0 file: a wide
    table at level 2, disjoint tables at level 1, an older wide level-0 table and a newer narrow
    one holding the newest value of a key; 100+ lookups of an absent key inside the narrow range
    exhaust the newer file's seek allowance. The compaction has to take both level-0 files (or the
    older one keeps shadowing what was pushed down)."""
    cases = []
    n = 6 if tier == "quick" else 200
    fl = "Cxfe:xff"
    for i in range(n):
        ks = sorted(rng.sample(range(0x62, 0x7a), 9))      # b..y
        lo, hi = 0x61, 0x7a
        k = lambda c: "x%02x" % c
        v = lambda: "x%02x%02x" % (rng.randrange(256), rng.randrange(256))
        toks = ["q%d" % i, "%d:%d:4096:%d" % (1 << 20, 1 << 20, rng.randrange(2))]
        toks += ["P%s=%s" % (k(lo), v()), "P%s=%s" % (k(hi), v()), fl]
        # level 1: three disjoint tables
        for a, b in ((lo, ks[0]), (ks[3], ks[5]), (ks[8], hi)):
            toks += ["P%s=%s" % (k(a), v()), "P%s=%s" % (k(b), v()), fl]
        # older level-0 table: wide, with the old value of the hot key
        hot = ks[4]
        toks += ["P%s=%s" % (k(lo), v()), "P%s=%s" % (k(hot), v()), "P%s=%s" % (k(hi), v()), fl]
        # newer level-0 table: narrow, new value of the hot key (sometimes a deletion)
        toks += ["P%s=%s" % (k(ks[3]), v()), ("D%s" % k(hot)) if rng.random() < 0.3 else "P%s=%s" % (k(hot), v()),
                 "P%s=%s" % (k(ks[5]), v()), fl]
        probe = "x%02x%02x" % (ks[3], 0x6d)               # absent, inside the narrow range
        toks += ["G" + probe] * rng.choice([110, 150])
        toks += ["W", "W"] + ["G" + k(c) for c in [lo, hi, hot] + ks] + ["A"]
        cases.append(" ".join(toks))
    return cases

def suites(tier, seed, rng):
    return [dbh.DbSuite(dbh.corpus("C01") + gen_cases(tier, rng) + gen_seek_l0(tier, rng) + dbh.gen_reuse_boundary(tier, rng)),
            vfn.VfnSuite("vfn", vfn.gen(tier, rng, {"ffub", "plmo"}), lambda i, s, c: True),
            cache.CacheSuite(cache.gen_cases(tier, rng))]


def replay_suites(rp):
    if rp.get("suite") == "vfn":
        return [vfn.VfnSuite("vfn", [rp["case"]], lambda i, s, c: True)]
    if rp.get("suite") == "cache":
        return [cache.CacheSuite([rp["case"]])]
    return [dbh.DbSuite([rp["case"]])]


def still_fails(suite, case, workdir):
    if suite == "vfn":
        return vfn.still_fails(case, workdir)
    if suite == "cache":
        return cache.still_fails(case, workdir)
    return dbh.still_fails(case, workdir)


def nontrivial(suite, case):
    return " P" in case or " B" in case or case.count(" F") >= 2


def classify(suite, case):
    if suite == "cache":
        return "cache:cap=" + case.split(" ")[1]
    if suite == "vfn":
        return "vfn:" + case.split(" ")[2]
    n = len(case.split(" "))
    return "dbhist:ops<%d" % (100 if n < 100 else 300 if n < 300 else 1000 if n < 1000 else 100000)
