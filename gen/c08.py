"""C08 — I/O failures are reported, never swallowed; nothing acknowledged is lost."""
from gen import lib, fault, wfault

PROP_FILE = "props/C08.v"
RULE = ("fault: histories of puts/deletes/batches/gets/waits/compact_range/reopen on SimFs; a "
        "reference run counts the FileSystem calls per (class in create/write/rename/remove/open/"
        "size) x (file kind in wal/table/manifest/temp/CURRENT); then for every such position (all of "
        "them up to a per-class limit, evenly spread beyond it) the history is re-run from scratch with "
        "that one call failing, once transiently and once persistently (that call and all later ones "
        "of the class/kind). Oracle: every write returns Ok (then later reads see it or fail) or an "
        "error (then it is present wholly or not at all); after disarming and reopening the contents "
        "are one of the allowed maps. Panics and hangs are violations. Non-trivial: the fault fired; "
        "distinct by (history, position, mode). wfault: one log; an append fails after letting a chosen "
        "number of bytes through (0, a few, a header, thousands); results of every write, the scan "
        "during the run, the exact bytes of the log and the scan after reopen must equal the extracted "
        "model Faults.f_run.")
TRUSTED = ["SimFs fault injection at the public FileSystem trait; failures of list_dir are not injected (the code treats a failed listing as 'nothing to delete')"]
ASSUMPTIONS = ["one injected fault per run; single client"]


def gen_cases(tier, rng):
    n, limit = (5, 3) if tier == "quick" else (150, 30)
    return ["%s # %d" % (" ".join(fault.gen_history(rng, i, rng.choice([12, 20, 30]))), limit) for i in range(n)]


def gen_directed(tier, rng):
    """fault positions that random histories rarely reach, every position of the class tried
    (limit 60): (a) the open-for-read of a level-0 table that is not in the table cache (written by
    an earlier session) when a compaction opens its inputs; (b) the size query on a write-ahead log
    that a reopen is about to append to, followed by more than one block of writes and another
    reopen"""
    cases = []
    big = "%d:%d:4096:1" % (1 << 20, 1 << 20)
    for i in range(2 if tier == "quick" else 20):
        v = lambda: "x%02x%02x" % (rng.randrange(256), rng.randrange(256))
        small = "4096:4096:256:0"
        toks = ["da%d" % i, small, "Px61=" + v(), "Px62=" + v(), "C-:-", "Px61=" + v(), "Dx62" if rng.random() < 0.5 else "Px62=" + v(),
                "O" + small, "O" + small, "C-:-", "Gx61", "Gx62", "Px63=" + v(), "Gx61"]
        cases.append("%s # 60" % " ".join(toks))
    # (b): the first record appended after the reopen ends 0..17 bytes before the end of what the
    # writer believes to be its first block if it (wrongly) starts counting at 0
    sweep = range(32768 - 44, 32768 - 20, 1 if tier == "thorough" else 1)
    for j, L in enumerate(sweep):
        toks = ["db%d" % j, big, "Px61=p%d.7.3" % rng.choice([100, 2000, 9000]), "O" + big,
                "Px62=p%d.9.1" % L, "Px63=x0303", "Px64=x04", "Dx61", "O" + big, "Gx61", "Gx62", "Gx63", "Gx64"]
        cases.append("%s # 1 # size.wal.0.0 size.wal.1.0 size.wal.0.1" % " ".join(toks))
    return cases


def corpus():
    import os
    d = os.path.join(lib.VERIF, "corpus", "C08")
    res = []
    if os.path.isdir(d):
        for f in sorted(os.listdir(d)):
            res += [l.strip() for l in open(os.path.join(d, f)) if l.strip() and not l.startswith("#")]
    return res


def suites(tier, seed, rng):
    return [fault.FaultSuite(corpus() + gen_directed(tier, rng) + gen_cases(tier, rng)),
            wfault.WFaultSuite(wfault.gen_cases(tier, rng))]


def replay_suites(rp):
    if rp.get("suite") == "wfault":
        return [wfault.WFaultSuite([rp["case"]])]
    return [fault.FaultSuite([rp["case"]])]


def still_fails(suite, case, workdir):
    if suite == "wfault":
        return bool(wfault.WFaultSuite([case]).execute(workdir, tag="sh")[0])
    return False


def shrink(f, workdir):
    if f["suite"] == "wfault":
        return lib.shrink_case("wfault", f["case"], lambda c: still_fails("wfault", c, workdir)), f.get("detail", "")
    return fault.shrink(f["case"], workdir)


def nontrivial(suite, case):
    return " P" in case or " B" in case


def classify(suite, case):
    if suite == "wfault":
        return "wfault:partial=" + case.split(" ")[1].split(":")[2]
    return "fault:ops<%d" % (30 if len(case.split(" ")) < 30 else 60)
