"""C08 — I/O failures are reported, never swallowed; nothing acknowledged is lost."""
from gen import lib, fault, wfault

PROP_FILE = "props/C08.v"
RULE = ("fault: histories of puts/deletes/batches/gets/waits/compact_range/reopen on SimFs; a "
        "reference run counts the FileSystem calls per (class in create/write/rename/remove/open/"
        "size) x (file kind in wal/table/manifest/temp/CURRENT); then for every such position (all of "
        "them up to a per-class limit, evenly spread beyond it) the history is re-run from scratch with "
        "that one call failing, once transiently and once persistently (that call and all later ones "
        "of the class/kind). Oracle: every write returns Ok (then later reads see it or fail) or an "
        "error (then it is present wholly or not at all); after disarming and reopening the contents "
        "are one of the allowed maps. Panics and hangs are violations. Non-trivial: the fault fired; "
        "distinct by (history, position, mode). wfault: one log; an append fails after letting a chosen "
        "number of bytes through (0, a few, a header, thousands); results of every write, the scan "
        "during the run, the exact bytes of the log and the scan after reopen must equal the extracted "
        "model Faults.f_run.")
TRUSTED = ["SimFs fault injection at the public FileSystem trait; failures of list_dir are not injected (the code treats a failed listing as 'nothing to delete')"]
ASSUMPTIONS = ["one injected fault per run; single client"]


def gen_cases(tier, rng):
    n, limit = (5, 3) if tier == "quick" else (150, 30)
    return ["%s # %d" % (" ".join(fault.gen_history(rng, i, rng.choice([12, 20, 30]))), limit) for i in range(n)]


def corpus():
    import os
    d = os.path.join(lib.VERIF, "corpus", "C08")
    res = []
    if os.path.isdir(d):
        for f in sorted(os.listdir(d)):
            res += [l.strip() for l in open(os.path.join(d, f)) if l.strip() and not l.startswith("#")]
    return res


def suites(tier, seed, rng):
    return [fault.FaultSuite(corpus() + gen_cases(tier, rng)),
            wfault.WFaultSuite(wfault.gen_cases(tier, rng))]


def replay_suites(rp):
    if rp.get("suite") == "wfault":
        return [wfault.WFaultSuite([rp["case"]])]
    return [fault.FaultSuite([rp["case"]])]


def still_fails(suite, case, workdir):
    if suite == "wfault":
        return bool(wfault.WFaultSuite([case]).execute(workdir, tag="sh")[0])
    return False


def shrink(f, workdir):
    if f["suite"] == "wfault":
        return lib.shrink_case("wfault", f["case"], lambda c: still_fails("wfault", c, workdir)), f.get("detail", "")
    return fault.shrink(f["case"], workdir)


def nontrivial(suite, case):
    return " P" in case or " B" in case


def classify(suite, case):
    if suite == "wfault":
        return "wfault:partial=" + case.split(" ")[1].split(":")[2]
    return "fault:ops<%d" % (30 if len(case.split(" ")) < 30 else 60)
