"""C12 — log files return exactly the records appended."""
import os
from gen import lib, params

PROP_FILE = "props/C12.v"
RULE = ("log histories = writer sessions (each re-opening the file in append mode, optionally dying "
        "after k fragments of one more record) followed by an optional truncation; generated as an "
        "exhaustive sweep of (bytes left in block 0..23) x (record lengths around every boundary "
        "value), random session splits, every truncation point of small files, sampled truncation "
        "points of multi-block files and every fragment-boundary interruption of multi-block "
        "records. A case is non-trivial if it appends at least one non-empty record; distinct by "
        "the sha1 of its script.")
TRUSTED = [
    "modelled: LogWriter::new/append, LogReader::new(offset 0)/read_record/read_physical_record, BlockRecord (de)serialisation, mask/unmask_checksum; CRC-32C re-implemented in Gallina and compared with the crc crate through written fragments",
    "not modelled: LogReader initial_offset != 0 (never used by the database), I/O errors other than end-of-file",
]
ASSUMPTIONS = [
    "the file system returns the bytes written (SimFs in the harness; short reads only at end of file)",
]


def consts():
    _, v = params.generate()
    return v["BLOCK_SIZE_BYTES"], v["HEADER_LENGTH_BYTES"]


def pat(rng, n):
    return "p%d.%d.%d" % (n, rng.randrange(256), rng.choice([1, 3, 7, 0, 255]))


def rec_len(rng, B, H):
    r = rng.random()
    if r < 0.45:
        return rng.randrange(0, 40)
    if r < 0.65:
        return rng.randrange(0, 2000)
    if r < 0.80:
        return max(0, B - H + rng.randrange(-20, 21))
    if r < 0.90:
        return max(0, 2 * (B - H) + rng.randrange(-10, 11))
    if r < 0.97:
        return rng.randrange(B, 3 * B)
    return rng.choice([65535, 65536, 100000])


def nfrags(boff, n, B, H):
    """number of fragments the writer emits for a record of n bytes starting at block offset boff
    (python mirror used only to choose interesting interruption points)"""
    k = 0
    while True:
        if B - boff < H:
            boff = 0
        space = B - boff - H
        take = min(n, space)
        n -= take
        boff += H + take
        k += 1
        if n == 0:
            return k


def gen_cases(tier, rng):
    B, H = consts()
    cases = []
    # (a) exhaustive boundary sweep
    lens_common = list(range(0, 10)) + [B - H - 2, B - H - 1, B - H, B - H + 1, B - H + 2,
                                        2 * (B - H) - 1, 2 * (B - H), 2 * (B - H) + 1]
    i = 0
    for r in range(0, 24):            # bytes left in the first block before the record starts
        s = B - r
        filler = s - H               # one Full fragment puts the writer at offset s
        around = [x for x in range(r - H - 3, r - H + 4) if x >= 0]
        for l in sorted(set(lens_common + around)):
            if tier == "quick" and l > B and (i % 3):
                i += 1
                continue
            cases.append("a%d 1 S:%s,%s,x0a0b" % (i, pat(rng, filler), pat(rng, l)))
            i += 1
    # the same sweep with a writer re-opened exactly at the offset
    for r in range(0, 24, 1 if tier == "thorough" else 3):
        s = B - r
        for l in [0, 1, r - H if r >= H else 0, r, B - H, B - H + 1]:
            cases.append("a%d 1 S:%s S:%s S:x0c" % (i, pat(rng, s - H), pat(rng, max(l, 0))))
            i += 1
    # (b) random session splits
    nb = 400 if tier == "quick" else 3000
    for j in range(nb):
        ops = []
        for _ in range(rng.randrange(1, 5)):
            recs = [pat(rng, rec_len(rng, B, H) if rng.random() < 0.3 else rng.randrange(0, 30))
                    for _ in range(rng.randrange(0, 5))]
            ops.append("S:" + ",".join(recs))
        cases.append("b%d 1 %s" % (j, " ".join(ops)))
    # (c) truncation: every point of small files, sampled points of multi-block files
    nc = 6 if tier == "quick" else 40
    for j in range(nc):
        recs = [pat(rng, rng.randrange(0, 12)) for _ in range(rng.randrange(1, 6))]
        total = sum(H + int(r[1:].split(".")[0]) for r in recs)
        for n in range(0, total + 1):
            cases.append("c%d_%d 1 S:%s T:%d" % (j, n, ",".join(recs), n))
    nc2 = 40 if tier == "quick" else 300
    for j in range(nc2):
        lens = [rec_len(rng, B, H) for _ in range(rng.randrange(1, 4))] + [rng.randrange(0, 20)]
        recs = [pat(rng, l) for l in lens]
        approx = sum(lens) + H * (len(lens) + 4)
        pts = set()
        for _ in range(4):
            pts.add(rng.randrange(0, approx + 1))
            blk = rng.randrange(0, approx // B + 1) * B
            pts.add(max(0, blk + rng.randrange(-9, 10)))
        for n in sorted(pts):
            cases.append("d%d_%d 1 S:%s T:%d" % (j, n, ",".join(recs), n))
    # (c3) a record that ends 0..13 bytes before a block end, a non-empty record after it, and the
    # file cut at every byte of the last 9 bytes of that block and the first 9 of the next (a header
    # of which only a part is there must never be taken for a record)
    for r in range(0, 14):
        l1 = B - r - H
        for cut in range(B - 9, B + 10):
            if tier == "quick" and (r + cut) % 3:
                continue
            cases.append("h%d_%d 1 S:%s,%s T:%d" % (r, cut, pat(rng, l1), pat(rng, rng.choice([1, 5, 40])), cut))
    # (d) writer interrupted between two fragments, later writer appends
    nd = 60 if tier == "quick" else 500
    for j in range(nd):
        pre = [pat(rng, rng.randrange(0, 50)) for _ in range(rng.randrange(0, 3))]
        boff = sum(H + int(r[1:].split(".")[0]) for r in pre) % B
        big = rng.choice([B - H - boff + rng.randrange(1, 30), B + rng.randrange(0, 100),
                          2 * B + rng.randrange(0, 100), rng.randrange(B, 3 * B)])
        big = max(big, 1)
        nf = nfrags(boff, big, B, H)
        ks = range(0, nf + 1) if tier == "thorough" or nf <= 3 else sorted({0, 1, nf - 1, nf})
        for k in ks:
            tail = " ".join("S:" + ",".join(pat(rng, rng.randrange(0, 40)) for _ in range(rng.randrange(1, 3)))
                            for _ in range(rng.randrange(1, 3)))
            cases.append("e%d_%d 1 S:%s;%d:%s %s" % (j, k, ",".join(pre), k, pat(rng, big), tail))
            # the next writer's first record is itself fragmented (an orphan First/Middle must
            # not leak into it), followed by small records
            if 1 <= k < nf:
                big2 = rng.choice([B + rng.randrange(0, 200), rng.randrange(B, 3 * B), 2 * (B - H) + rng.randrange(-3, 4)])
                cases.append("g%d_%d 1 S:%s;%d:%s S:%s,%s" % (j, k, ",".join(pre), k, pat(rng, big), pat(rng, big2), pat(rng, rng.randrange(0, 40))))
            # two interrupted sessions in a row
            if k in (1, nf - 1) and rng.random() < 0.5:
                cases.append("f%d_%d 1 S:%s;%d:%s S:;1:%s %s" % (j, k, ",".join(pre), k, pat(rng, big), pat(rng, B + 5), tail))
    return cases



def gen_reopen(tier, rng):
    """the part of the log correspondence that the persistence theorems (logfile_reopen) lean on:
    a writer re-opened in append mode at every offset around a block boundary, and random session
    splits with multi-block records"""
    B, H = consts()
    cases = []
    i = 0
    for r in range(0, 24, 1 if tier == "thorough" else 2):
        s = B - r
        for l in [0, 1, r - H if r >= H else 0, r, B - H, B - H + 1]:
            cases.append("ra%d 1 S:%s S:%s S:x0c" % (i, pat(rng, s - H), pat(rng, max(l, 0))))
            i += 1
    for j in range(60 if tier == "quick" else 1500):
        ops = []
        for _ in range(rng.randrange(2, 5)):
            recs = [pat(rng, rec_len(rng, B, H) if rng.random() < 0.5 else rng.randrange(0, 30))
                    for _ in range(rng.randrange(1, 4))]
            ops.append("S:" + ",".join(recs))
        cases.append("rb%d 1 %s" % (j, " ".join(ops)))
    return cases

def corpus_cases():
    d = os.path.join(lib.VERIF, "corpus", "C12")
    res = []
    if os.path.isdir(d):
        for f in sorted(os.listdir(d)):
            for line in open(os.path.join(d, f)):
                line = line.strip()
                if line and not line.startswith("#"):
                    res.append(line)
    return res


def prop_ok(impl_line, spec, case):
    toks = impl_line.split(" ")
    if len(toks) < 4:
        return False
    return toks[2] == spec and toks[3] == "eof"


def suites(tier, seed, rng):
    cases = corpus_cases() + gen_cases(tier, rng)
    crc_cases = []
    for i in range(300 if tier == "quick" else 5000):
        v = rng.choice([0, 1, 0xFFFFFFFF, 0x80000000, 0x7FFF, 0x8000, 0x1FFFF, 0x20000, rng.randrange(2 ** 32)])
        crc_cases.append("m%d %d %s" % (i, v, pat(rng, rng.randrange(0, 300))))
    return [lib.SuiteRun("log", cases, prop_ok),
            lib.SuiteRun("crcmask", crc_cases, lambda i, s, c: True)]


def replay_suites(rp):
    return [lib.SuiteRun(rp.get("suite", "log"), [rp["case"]], prop_ok)]


def still_fails(suite, case, workdir):
    il, mobs, spec = lib.run_single(suite, case, workdir)
    return spec != "none" and not prop_ok(il, spec, case)


def nontrivial(suite, case):
    if suite != "log":
        return True
    import re
    return re.search(r"p[1-9]\d*\.|x[0-9a-f]{2}", case) is not None


def classify(suite, case):
    if suite != "log":
        return suite
    fam = {"a": "boundary-sweep", "b": "session-splits", "c": "truncate-every-byte",
           "d": "truncate-multiblock", "e": "interrupted-append", "f": "interrupted-twice",
           "g": "interrupted-then-fragmented", "h": "cut-around-block-end"}
    return fam.get(case[0], "corpus")
