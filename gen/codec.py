"""Codec suite (`codec`): write batch and version change encodings compared byte for byte,
decoding of every prefix compared (error vs value)."""
from gen import lib, dbh


def rkey3(rng):
    return "%s:%d:%d" % (rng.choice(dbh.KEYS), rng.choice([0, 1, 5, 127, 128, 300, 2 ** 32, 2 ** 64 - 1]), rng.randrange(2))


def gen(tier, rng, kinds=("B", "V")):
    cases = []
    n = 150 if tier == "quick" else 6000
    for i in range(n):
        if "B" in kinds:
            ops = []
            for _ in range(rng.choice([0, 1, 2, 5, 20])):
                k = dbh.rkey(rng, 20)
                ops.append("%s=%s" % (k, dbh.rval(rng, 70000)) if rng.random() < 0.7 else k)
            seq = rng.choice([0, 1, 127, 128, 2 ** 32, 2 ** 63, 2 ** 64 - 1, rng.randrange(2 ** 40)])
            cases.append("b%d B %d %d %s" % (i, seq, rng.randrange(0, 40), ";".join(ops)))
        if "V" in kinds:
            t = []
            for f in ("w", "pw", "cf", "ps"):
                t.append("%s=%s" % (f, "-" if rng.random() < 0.3 else str(rng.choice([0, 1, 127, 128, 16384, 2 ** 35, 2 ** 64 - 1]))))
            for _ in range(rng.randrange(0, 3)):
                t.append("P%d:%s" % (rng.randrange(7), rkey3(rng)))
            nd = rng.choice([0, 0, 1, 1, 3])
            for j in range(nd):
                t.append("D%d:%d" % (rng.randrange(7), rng.choice([1, 200, 2 ** 33]) + j))
            for _ in range(rng.randrange(0, 4)):
                t.append("N%d:%d:%d:%s:%s" % (rng.randrange(7), rng.randrange(1, 10 ** 6), rng.choice([0, 1, 4096, 2 ** 40]), rkey3(rng), rkey3(rng)))
            cases.append("v%d V %d %s" % (i, rng.randrange(0, 60), " ".join(t)))
    return cases


class CodecSuite(lib.SuiteRun):
    def execute(self, workdir, tag="g"):
        impl = lib.run_sharded(lib.RVH, "codec", self.cases, workdir, tag + "i")
        model = lib.run_sharded(lib.DRIVER, "codec", self.cases, workdir, tag + "m")
        corr = []
        for c in self.cases:
            cid = c.split(" ", 1)[0]
            a = impl.get(cid, "").split(" ")
            b = model.get(cid, "").split(" | ")[0].split(" ")
            if len(a) != 4 or len(b) != 4 or a[:3] != b[:3] or (b[3] != "skip" and a[3] != b[3]):
                corr.append({"case": c, "impl": lib.trunc(" ".join(a), 600), "model": lib.trunc(" ".join(b), 600)})
        return corr, []
