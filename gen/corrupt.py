"""Corruption suite (`corrupt`): single-byte corruption at every offset (small files) or sampled
offsets of every persistent file of a closed database; oracle for C15."""
from gen import lib, dbh, fault


def history_info(tokens):
    m = {}
    ever = {}
    for t in tokens:
        if t[0] in "PDB":
            m2 = fault.apply_write(m, t)
            for k, v in m2.items():
                ever.setdefault(k, set()).add(v)
            m = m2
    return m, ever


class CorruptSuite:
    suite = "corrupt"

    def __init__(self, cases):
        self.cases = cases
        self.stats = {"mutations": 0, "open_errors": 0, "by_file": {}, "identical": 0, "read_errors": 0}
        self.known_hits = []

    def execute(self, workdir, tag="co"):
        impl = lib.run_sharded(lib.RVH, "corrupt", self.cases, workdir, tag + "i",
                               extra_env={"RVH_CASE_TIMEOUT": "900"})
        prop, corr = [], []
        for c in self.cases:
            cid = c.split(" ", 1)[0]
            il = impl.get(cid, cid + " MISSING")
            parts = c.split(" # ")
            tokens = parts[0].split(" ")[2:]
            keys = [fault.tok_bytes(k) for k in parts[1].split(",") if k]
            m, ever = history_info(tokens)
            final = fault.show(m)
            fields = il.split(" ")
            if len(fields) < 2 or not fields[1].startswith("F="):
                prop.append({"case": c, "impl": lib.trunc(il, 800), "spec": "", "model": "", "detail": "run failed: " + il[:300]})
                continue
            bad = None
            # fragment headers of the log files: name -> [(offset, payload length)]
            hdrs = {}
            flens = {}
            lst = fields[1][2:].split("#")
            for e in lst[0].split(","):
                if ":" in e:
                    flens[e.rsplit(":", 1)[0]] = int(e.rsplit(":", 1)[1])
            if len(lst) > 1 and lst[1]:
                for e in lst[1].split(","):
                    nm, hs = e.split(":", 1)
                    hdrs[nm] = [tuple(int(x) for x in h.split("/")) for h in hs.split(";") if h]
            for f in fields[2:]:
                if f.startswith("BGPANIC"):
                    bad = "a database thread panicked: " + f[:300]
                    break
                p = f.split("|")
                where = p[0]
                fname = where.split("@")[0]
                kindf = "wal" if fname.startswith("wal/") else "table" if fname.endswith(".rdb") else "manifest" if "MANIFEST" in fname else "current"
                self.stats["mutations"] += 1
                self.stats["by_file"][kindf] = self.stats["by_file"].get(kindf, 0) + 1
                if p[1] == "panic":
                    bad = "corruption %s: a call panicked" % where
                    break
                compacted = p[1] == "ok-compacted"
                if p[1] not in ("ok", "ok-compacted"):
                    self.stats["open_errors"] += 1
                    continue
                gets = p[2].split(",")
                scan = p[3]
                # writes acknowledged after the damaged database was opened, a clean close, a reopen
                wf = [x for x in p if x.startswith("W:")]
                if wf:
                    w = wf[0].split(":")
                    self.stats["post_writes"] = self.stats.get("post_writes", 0) + 1
                    if len(w) >= 5 and not w[3].startswith("open-"):
                        if w[1] == "ok" and not (w[3] == "nf" or w[3].startswith("err")):
                            bad = "corruption %s: a key deleted after the damaged database was opened is back after a clean reopen (%s)" % (where, w[3])
                            break
                        if w[2] == "ok" and not (w[4] == "v77" or w[4].startswith("err")):
                            bad = "corruption %s: a write acknowledged after the damaged database was opened is gone after a clean reopen (%s)" % (where, w[4])
                            break
                    p = [x for x in p if not x.startswith("W:")]
                if scan == final and all((("v" + m[k]) if k in m else "nf") == g for k, g in zip(keys, gets)):
                    self.stats["identical"] += 1
                    continue
                if kindf == "wal":
                    # damaged log records are skipped: every value returned must be one that was
                    # written for that key at some time
                    for k, g in zip(keys, gets):
                        if g.startswith("v") and g[1:] not in ever.get(k, set()):
                            bad = "corruption %s: get(%s) returned %s, never written for that key" % (where, k.hex(), lib.trunc(g, 80))
                            break
                    if bad:
                        break
                    if not scan.startswith("err"):
                        for kv in ([] if scan == "-" else scan.split(",")):
                            k, v = kv.split("=")
                            if v not in ever.get(bytes.fromhex(k), set()):
                                bad = "corruption %s: scan returned %s=%s, never written for that key" % (where, k, lib.trunc(v, 80))
                                break
                    if bad:
                        break
                    continue
                # table / manifest / CURRENT: error or exactly the right answer
                kf = known_log_mutation(where, hdrs, flens) if kindf == "manifest" else None
                if kf:
                    self.known_hits.append((kf, cid, where))
                    continue
                for k, g in zip(keys, gets):
                    exp = ("v" + m[k]) if k in m else "nf"
                    if g.startswith("err"):
                        self.stats["read_errors"] += 1
                        continue
                    if g != exp and compacted and kindf == "table":
                        # KNOWN FINDING: the corrupted table was compacted between open and the read;
                        # the merge swallowed the block error and dropped the block's entries
                        self.known_hits.append(("table-block-error-swallowed-by-iterators", cid, where))
                        continue
                    if g != exp:
                        bad = "corruption %s: get(%s) returned %s instead of %s or an error" % (where, k.hex(), lib.trunc(g, 80), lib.trunc(exp, 80))
                        break
                if bad:
                    break
                # after a forced compaction of everything: still an error or the right answer
                if kindf == "table" and len(p) >= 8:
                    openable, level, gets2, scan2 = p[4] == "1", p[5], p[6].split(","), p[7]
                    self.stats["compacted_after_corruption"] = self.stats.get("compacted_after_corruption", 0) + 1
                    wrong = None
                    for k, g in zip(keys, gets2):
                        exp = ("v" + m[k]) if k in m else "nf"
                        if not g.startswith("err") and g != exp:
                            wrong = "get(%s) returned %s instead of %s or an error" % (k.hex(), lib.trunc(g, 80), lib.trunc(exp, 80))
                            break
                    wrong_get = wrong is not None
                    if not wrong and scan2 != final and not scan2.startswith("err"):
                        wrong = "the scan returned %s instead of %s or an error" % (lib.trunc(scan2, 200), lib.trunc(final, 200))
                    in_first_block = len(p) >= 9 and p[8] == "1"
                    alone = len(p) >= 10 and p[9] == "1"
                    if wrong:
                        # a level-0 table that cannot be opened must fail the compaction; so must an
                        # unreadable FIRST block of a level-0 table that is the only input of the
                        # compaction (the merge produces nothing and the error of positioning the
                        # iterator is the only thing left to look at). Errors met later, while
                        # stepping, or next to other inputs are the known finding
                        # (a scan that shows older versions of the block's keys while point lookups
                        # fail is the known finding as well: only point lookups count for the second
                        # criterion)
                        if not (level == "0" and (not openable or (in_first_block and alone and wrong_get))):
                            # KNOWN FINDING: block / lazily opened table errors are swallowed by the
                            # iterators a compaction merges
                            self.known_hits.append(("table-block-error-swallowed-by-iterators", cid, where))
                        else:
                            bad = ("corruption %s (a level-0 table that cannot be opened, or the only input of the compaction with an unreadable first block): after compact_range %s"
                                   % (where, wrong))
                            break
                if scan != final and not scan.startswith("err"):
                    if kindf == "table":
                        # KNOWN FINDING table-block-error-swallowed-by-iterators (gets were checked above)
                        self.known_hits.append(("table-block-error-swallowed-by-iterators", cid, where))
                    else:
                        bad = "corruption %s: the scan returned %s instead of %s or an error" % (where, lib.trunc(scan, 200), lib.trunc(final, 200))
                        break
            if bad:
                prop.append({"case": c, "impl": lib.trunc(il, 600), "spec": final, "model": "", "detail": bad})
        return corr, prop


def known_log_mutation(where, hdrs, flens):
    """KNOWN FINDINGS about the log format (manifest): (a) a corrupted length field that makes the
    fragment extend beyond the end of the file is indistinguishable from a torn tail and ends the
    log silently; (b) the type byte is not covered by the checksum, so a change between valid
    types of the LAST fragment of the file silently drops or re-frames the last record (anywhere
    else it is detected: D19, theorem type_flip_detected)."""
    name, rest = where.split("@")
    off, kind, newb = rest.split(":")
    off, newb = int(off), int(newb)
    for (h, l) in hdrs.get(name, []):
        if off in (h + 4, h + 5):
            newlen = (l & 0xff00) | newb if off == h + 4 else (l & 0xff) | (newb << 8)
            if h + 7 + newlen > flens.get(name, 0):
                return "log-length-beyond-eof"
        if off == h + 6 and newb in (0, 1, 2, 3) and h == hdrs[name][-1][0]:
            # only the last fragment of the file: since the repair of D19 every other changed type
            # byte leaves a fragment that the sequencing rules drop, which recovery now rejects
            return "log-type-byte-not-checksummed"
    return None


def is_prefix_scan(scan, final):
    """the scan stops early (the iterator turns invalid) but everything it returned is correct and
    in order: a contiguous prefix, or a prefix with the entries of unreadable blocks missing"""
    a = [] if scan == "-" else scan.split(",")
    b = [] if final == "-" else final.split(",")
    it = iter(b)
    return all(x in it for x in a)


def gen_cases(tier, rng):
    n, per = (4, 120) if tier == "quick" else (30, 300)
    cases = []
    for i in range(n):
        nkeys = rng.choice([4, 8])
        toks = ["k%d" % i, dbh.rcfg(rng)]
        for _ in range(rng.choice([15, 30, 60])):
            r = rng.random()
            if r < 0.6:
                toks.append("P%s=%s" % (dbh.rkey(rng, nkeys), dbh.rval(rng, 3000)))
            elif r < 0.75:
                toks.append("D" + dbh.rkey(rng, nkeys))
            elif r < 0.85:
                toks.append("B%s=%s;%s" % (dbh.rkey(rng, nkeys), dbh.rval(rng, 100), dbh.rkey(rng, nkeys)))
            elif r < 0.93:
                toks.append("W")
            elif r < 0.97:
                toks.append("C-:-")
            else:
                toks.append("O" + dbh.rcfg(rng))
        cases.append("%s # %s # %d" % (" ".join(toks), ",".join(dbh.KEYS[:nkeys]), per))
    return cases
