"""C06 — no reader ever observes part of a batch."""
from gen import lib, sched, dbh

PROP_FILE = "props/C06.v"
FAMILIES = {"writer", "group", "bg"}
RULE = ("sched (Tier A pause-point schedules): one thread is parked at a scheduling point where it "
        "does not hold the database mutex (reader: between releasing the mutex and reading; writer: "
        "before the WAL append, after it, between memtable inserts, after the inserts; background "
        "thread: while building a flush table, before deleting obsolete files, before the manifest "
        "append, inside the compaction loop) while the main thread runs writes, flushes, compactions "
        "and reads to completion; queued writers for group commit. Oracle: every read must equal the "
        "value in some linearization of whole writes consistent with real time (a write that ended "
        "before the read started is visible unless superseded; nothing from a write that started "
        "after the read ended); scans and snapshot reads must be explained by one cut. Non-trivial: a "
        "schedule in which the armed thread actually parked; distinct by sha1. dbhist: multi-operation "
        "batches followed by close + reopen (log replay publishes sequence numbers too), then scans, "
        "gets and snapshot reads compared with the map specification; batch-heavy histories with "
        "snapshots and iterators that outlive overwrites, flushes and table compactions (a batch "
        "stays whole in every snapshot).")
TRUSTED = ["scheduling hooks (cfg raindb_verif) at the places where the database mutex is released; interleavings below that granularity (atomics, ArcSwap, skiplist internals) are assumed sequentially consistent"]
ASSUMPTIONS = ["at most one parked thread plus queued writers per schedule (Tier A)"]


def corpus():
    import os
    d = os.path.join(lib.VERIF, "corpus", PROP_FILE[6:9])
    res = []
    if os.path.isdir(d):
        for f in sorted(os.listdir(d)):
            res += [l.strip() for l in open(os.path.join(d, f)) if l.strip() and not l.startswith("#")]
    return res


def gen_batch_reopen(tier, rng):
    """multi-operation batches as the last thing in the write-ahead log before a close + reopen
    (log replay is the other place that publishes sequence numbers): scans, gets and snapshot reads
    after the reopen must see every batch whole"""
    cases = []
    n = 16 if tier == "quick" else 800
    for i in range(n):
        nkeys = rng.choice([4, 8])
        toks = ["b%d" % i, "%d:%d:%d:%d" % (rng.choice([1 << 20, 4096, 512]), rng.choice([1 << 20, 1024]), rng.choice([64, 4096]), rng.randrange(2))]
        for _ in range(rng.randrange(1, 5)):
            for _ in range(rng.randrange(0, 4)):
                toks.append("P%s=%s" % (dbh.rkey(rng, nkeys), dbh.rval(rng, 300)))
            els = []
            for _ in range(rng.randrange(2, 7)):
                els.append("%s=%s" % (dbh.rkey(rng, nkeys), dbh.rval(rng, 200)) if rng.random() < 0.75 else dbh.rkey(rng, nkeys))
            toks.append("B" + ";".join(els))
            toks.append("O%d:%d:%d:%d" % (rng.choice([1 << 20, 4096]), rng.choice([1 << 20, 1024]), rng.choice([64, 4096]), rng.randrange(2)))
            toks.append("A")
            toks.append("S")
            for k in range(nkeys):
                toks.append("G" + dbh.KEYS[k])
        toks.append("A")
        cases.append(" ".join(toks))
    return cases


def gen_batch_snapshots(tier, rng):
    """batches seen through snapshots and iterators that outlive later overwrites, flushes and
    table compactions: a batch must stay whole in every snapshot for as long as the snapshot lives
    (the compaction's retention horizon is the OLDEST live snapshot)"""
    n = 30 if tier == "quick" else 1500
    w = dict(put=10, batch=30, get=4, snap=14, iter=10, compact=8, reopen=1, wait=4)
    w["del"] = 6
    return [dbh.gen_history(rng, "s%d" % i, rng.choice([40, 80, 160]), w) for i in range(n)]


def suites(tier, seed, rng):
    return [sched.SchedSuite(corpus() + sched.gen_cases(tier, rng, FAMILIES)),
            dbh.DbSuite(gen_batch_reopen(tier, rng) + gen_batch_snapshots(tier, rng))]


def replay_suites(rp):
    if rp.get("suite") == "dbhist":
        return [dbh.DbSuite([rp["case"]])]
    return [sched.SchedSuite([rp["case"]])]


def still_fails(suite, case, workdir):
    if suite == "dbhist":
        return dbh.still_fails(case, workdir)
    return sched.still_fails(case, workdir)


def nontrivial(suite, case):
    if suite == "dbhist":
        return " B" in case
    return " A" in case and " T" in case


def classify(suite, case):
    import re
    if suite == "dbhist":
        return "dbhist:batch-then-reopen" if case.startswith("b") else "dbhist:batches-under-snapshots"
    m = re.search(r" A\w+:([\w:]+)", case)
    return "sched:" + (m.group(1) if m else "none")
