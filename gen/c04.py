"""C04 — iterators yield exactly the visible keys, in order, under any cursor movement."""
import itertools
from gen import lib, dbh

PROP_FILE = "props/C04.v"
RULE = ("dbhist: databases built with tiny memtable/file/block sizes (entries of one user key spread "
        "over memtable, several level-0 files and deeper levels; runs of tombstones; many versions per "
        "key) followed by iterator scripts of seek/seek_to_first/seek_to_last/next/prev with frequent "
        "direction reversals, compared with the sorted-map cursor of the specification; plus all "
        "scripts of length <= 4 (quick) / 5 (thorough) over the alphabet {first,last,next,prev,seek "
        "k1,seek k2} on a fixed multi-level database; gap seeks: multi-block tables whose keys share "
        "prefixes (shortened index separators) and seeks to absent keys between blocks. Non-trivial: script with at least one direction "
        "reversal; distinct by sha1.")
TRUSTED = ["sorted-map cursor specification (coq/model/DbSpec.v cursor_run); next/prev are only issued on a valid iterator (API precondition: the code asserts it)"]
ASSUMPTIONS = []


def gen_cases(tier, rng):
    n = 50 if tier == "quick" else 2500
    cases = []
    for i in range(n):
        nkeys = rng.choice([4, 8, 14])
        toks = ["i%d" % i, dbh.rcfg(rng)]
        # build phase: writes, deletes, occasional waits / compactions so data spreads over levels
        for _ in range(rng.choice([30, 80, 200])):
            r = rng.random()
            if r < 0.55:
                toks.append("P%s=%s" % (dbh.rkey(rng, nkeys), dbh.rval(rng, 3000)))
            elif r < 0.85:
                toks.append("D" + dbh.rkey(rng, nkeys))
            elif r < 0.9:
                toks.append("S")
            elif r < 0.95:
                toks.append("W")
            else:
                toks.append("C%s:-" % dbh.rkey(rng, nkeys))
        nsn = sum(1 for t in toks if t == "S")
        for j in range(rng.randrange(2, 6)):
            snap = "-" if nsn == 0 or rng.random() < 0.5 else str(rng.randrange(nsn))
            if snap == "-":
                toks.append("X")      # the iterator model is run on this dump with the same script
            toks.append("Jj%d:%s" % (j, snap))
            toks.append("Kj%d:%s" % (j, dbh.iter_ops(rng, nkeys, rng.randrange(5, 40))))
            if rng.random() < 0.5:
                toks.append("P%s=%s" % (dbh.rkey(rng, nkeys), dbh.rval(rng, 100)))
                toks.append("Kj%d:%s" % (j, dbh.iter_ops(rng, nkeys, rng.randrange(5, 20))))
        for j in range(6):
            toks.append("Qj%d" % j)
        cases.append(" ".join(toks))
    # exhaustive short scripts on a fixed database with tombstones and versions across levels
    base = ("2048:512:64:0 Px61=x01 Px62=x02 Px63=x03 Px64=p300.1.1 Px65=p300.2.1 Px66=p300.3.1 Px67=p300.4.1 W "
            "Dx62 Px63=x33 Dx65 Px6161=x07 C-:- W Dx63 Px62=x22 Px68=p300.9.1 Dx61 Px61=x11 Dx6161 Dx67 W Px64=x44")
    alphabet = ["f", "l", "n", "p", "sx62", "sx6562"]
    depth = 4 if tier == "quick" else 5
    k = 0
    chunk = []
    for seq in itertools.product(alphabet, repeat=depth):
        chunk.append(",".join(seq))
        if len(chunk) == 36:
            toks = ["e%d" % k, base]
            for j, sc in enumerate(chunk):
                toks.append("X")
                toks.append("Jq%d:-" % j)
                toks.append("Kq%d:%s" % (j, sc))
                toks.append("Qq%d" % j)
            cases.append(" ".join(toks))
            chunk = []
            k += 1
    return cases


def gen_gap_seeks(tier, rng):
    """multi-block table files with keys sharing prefixes (so that index separators are shortened
    to keys that are in no block) and seeks to absent keys in the gaps between blocks, followed by
    steps in both directions; plus the same after writes that add a second child"""
    cases = []
    n = 12 if tier == "quick" else 600
    alpha = [0x61, 0x62, 0x63, 0x65, 0x78]
    for i in range(n):
        keys = set()
        while len(keys) < rng.choice([12, 25, 40]):
            keys.add(tuple(rng.choice(alpha) for _ in range(rng.choice([2, 3, 3, 4]))))
        keys = sorted(keys)
        hexk = ["x" + "".join("%02x" % b for b in k) for k in keys]
        toks = ["g%d" % i, "%d:%d:%d:%d" % (1 << 20, 1 << 20, rng.choice([32, 64, 128]), rng.randrange(2))]
        for k in hexk:
            toks.append("P%s=%s" % (k, "p%d.%d.1" % (rng.randrange(1, 30), rng.randrange(256))))
        toks += ["C-:-", "W"]
        if rng.random() < 0.5:
            for k in rng.sample(hexk, min(4, len(hexk))):
                toks.append(("D%s" % k) if rng.random() < 0.5 else "P%s=x07" % k)
        # seek targets: a stored key extended by one byte (falls between that key and the next),
        # a stored key with its last byte bumped, random keys over the alphabet
        def target():
            r = rng.random()
            k = list(rng.choice(keys))
            if r < 0.4:
                k.append(rng.choice([0x00, 0x61, 0x79, 0xff]))
            elif r < 0.7:
                k[-1] = min(255, k[-1] + 1)
            else:
                k = [rng.choice(alpha) for _ in range(rng.choice([1, 2, 3, 4]))]
            return "x" + "".join("%02x" % b for b in k)
        for j in range(3):
            ops = []
            for _ in range(rng.randrange(10, 40)):
                r = rng.random()
                ops.append("s" + target() if r < 0.45 else rng.choice(["n", "n", "p", "p", "f", "l"]))
            toks += ["X", "Jj%d:-" % j, "Kj%d:%s" % (j, ",".join(ops))]
        toks += ["Qj0", "Qj1", "Qj2"]
        cases.append(" ".join(toks))
    return cases


def suites(tier, seed, rng):
    return [dbh.DbSuite(dbh.corpus("C04") + gen_cases(tier, rng) + gen_gap_seeks(tier, rng))]


def replay_suites(rp):
    return [dbh.DbSuite([rp["case"]])]


def still_fails(suite, case, workdir):
    return dbh.still_fails(case, workdir)


def nontrivial(suite, case):
    return ",p" in case and ",n" in case


def classify(suite, case):
    return "dbhist:exhaustive-scripts" if case.startswith("e") else "dbhist:random-scripts"
