"""C15 — corrupted files are detected, never served as data."""
from gen import lib, corrupt

PROP_FILE = "props/C15.v"
RULE = ("corrupt: histories with flushes, compactions and reopens are run to quiescence and closed; "
        "then for every persistent file (CURRENT, manifest, write-ahead log, every table file) every "
        "offset of small files / evenly spread offsets plus the last 16 bytes of larger ones is mutated "
        "(bit flip, zero, 0xff, random byte, cycling), the database is reopened, every key is read and "
        "the database is scanned. Oracle: open or read errors are fine; for table/manifest/CURRENT "
        "corruption every value returned must be the correct latest one; for WAL corruption every value "
        "returned must have been written for that key at some time (damaged records are skipped); "
        "panics are violations. Non-trivial: a mutation that changes the outcome (error or different "
        "data); distinct by (history, file, offset, kind).")
TRUSTED = ["SimFs images; the oracle knows every value ever written per key from the history"]
ASSUMPTIONS = ["single-byte corruption; CRC-32C detects it when the byte is covered by a checksum (assumption of the theorems, not proved from the polynomial)"]


def corpus():
    import os
    d = os.path.join(lib.VERIF, "corpus", "C15")
    res = []
    if os.path.isdir(d):
        for f in sorted(os.listdir(d)):
            res += [l.strip() for l in open(os.path.join(d, f)) if l.strip() and not l.startswith("#")]
    return res


def suites(tier, seed, rng):
    return [corrupt.CorruptSuite(corpus() + corrupt.gen_cases(tier, rng))]


def replay_suites(rp):
    return [corrupt.CorruptSuite([rp["case"]])]


def nontrivial(suite, case):
    return " P" in case


def classify(suite, case):
    return "corrupt"
