"""C15 — corrupted files are detected, never served as data."""
from gen import lib, corrupt, crash, recover, tfile

PROP_FILE = "props/C15.v"
RULE = ("corrupt: histories with flushes, compactions and reopens are run to quiescence and closed; "
        "then for every persistent file (CURRENT, manifest, write-ahead log, every table file) every "
        "offset of small files / evenly spread offsets plus the last 16 bytes of larger ones is mutated "
        "(bit flip, zero, 0xff, random byte, cycling), the database is reopened, every key is read and "
        "the database is scanned. Oracle: open or read errors are fine; for table/manifest/CURRENT "
        "corruption every value returned must be the correct latest one; for WAL corruption every value "
        "returned must have been written for that key at some time (damaged records are skipped); "
        "panics are violations. Non-trivial: a mutation that changes the outcome (error or different "
        "data); distinct by (history, file, offset, kind). recoverc: every single-byte mutation of CURRENT, "
        "every manifest and every write-ahead log of small databases is also recovered by the extracted "
        "byte-exact recovery function Recover.recover_image and compared with the real DB::open: same "
        "success/failure, same last sequence number, same contents (the model reproduces skipped "
        "records, mis-framing after a checksum failure, rejected manifests). tfile: table files built by "
        "the real TableBuilder: the extracted layout model (block trailer check, handles, footer) must "
        "accept every stored block, decode the footer to the reader's handles and re-encode it byte for "
        "byte, and agree with the real reader on every sampled single-byte change (does the table open; "
        "which data blocks still read back).")
TRUSTED = ["SimFs images; the oracle knows every value ever written per key from the history"]
ASSUMPTIONS = ["single-byte corruption (CRC-32C's detection of any single changed byte is proved: C15a_crc32c_detects_single_byte)"]


def corpus():
    import os
    d = os.path.join(lib.VERIF, "corpus", "C15")
    res = []
    if os.path.isdir(d):
        for f in sorted(os.listdir(d)):
            res += [l.strip() for l in open(os.path.join(d, f)) if l.strip() and not l.startswith("#")]
    return res


def gen_recoverc(tier, rng):
    n = 6 if tier == "quick" else 60
    # a record of four fragments followed by small ones: corruption inside a middle fragment
    cases = ["kbig0 8388608:8388608:4096:%d Px61=x01 Px62=p100000.%d.1 Px63=x03 Dx61 Px64=p70000.%d.3 # %d"
             % (rng.randrange(2), rng.randrange(256), rng.randrange(256), 160 if tier == "quick" else 400)]
    for i in range(n):
        toks = crash.gen_history(rng, "k%d" % i, rng.choice([4, 8, 15]))
        cases.append("%s # %d" % (" ".join(toks), 200 if tier == "quick" else 300))
    return cases


def suites(tier, seed, rng):
    return [corrupt.CorruptSuite(corpus() + corrupt.gen_cases(tier, rng)),
            recover.RecoverSuite(gen_recoverc(tier, rng), "recoverc"),
            tfile.TFileSuite(tfile.gen_cases(tier, rng))]


def replay_suites(rp):
    if rp.get("suite") == "recover":
        return [recover.RecoverSuite([rp["case"]], "recoverc")]
    if rp.get("suite") == "tfile":
        return [tfile.TFileSuite([rp["case"]])]
    return [corrupt.CorruptSuite([rp["case"]])]


def still_fails(suite, case, workdir):
    if suite == "recover":
        s = recover.RecoverSuite([case], "recoverc")
        corr, prop = s.execute(workdir, tag="sh")
        return any("image" in x.get("detail", "") for x in corr)
    return False


def nontrivial(suite, case):
    return " P" in case


def classify(suite, case):
    if suite == "tfile":
        return "tfile:bs=" + case.split(" ")[1].split(":")[0]
    return "recoverc" if suite == "recover" else "corrupt"
