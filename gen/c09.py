"""C09 — every operation terminates; the background worker never dies."""
from gen import lib, dbh, sched, fault

PROP_FILE = "props/C09.v"
RULE = ("Every harness call runs under a watchdog and a process-wide panic hook records panics on "
        "database threads. dbhist: histories with sustained writes into tiny memtables (memtable-full, "
        "level-0 slowdown/stop conditions), every descriptor kind (NumFilesAtLevel, SSTables, Stats), "
        "snapshots, iterators, compact_range, close while an iterator is alive, reopen. sched: the "
        "background thread parked at each of its scheduling points while clients read, write and "
        "close; queued writers. Oracle: no call exceeds the watchdog, no thread panics, background "
        "work quiesces. Non-trivial: a history with at least 20 writes; distinct by sha1.")
TRUSTED = ["watchdog timeouts (120 s per history) stand in for 'bounded time'; liveness is proved on the model as 'no stuck state' only"]
ASSUMPTIONS = ["the file system makes progress (SimFs never blocks)"]


def gen_cases(tier, rng):
    n = 30 if tier == "quick" else 1500
    cases = []
    for i in range(n):
        w = dict(put=60, batch=10, get=5, snap=2, iter=3, compact=2, reopen=2, wait=2)
        w["del"] = 8
        h = dbh.gen_history(rng, i, rng.choice([60, 150, 400]), w).split(" ")
        # tiny memtable so that writers keep hitting the make-room path
        h[1] = "%d:%d:%d:%d" % (rng.choice([64, 128, 256]), rng.choice([512, 1024]), rng.choice([64, 256]), rng.randrange(2))
        out = []
        for t in h:
            out.append(t)
            if t == "T":
                out.append("E")
        if i % 3 == 0:
            out += ["Jz:-", "Kz:f,n", "N", "O" + dbh.rcfg(rng), "A"]
        cases.append(" ".join(out))
    return cases


def corpus():
    import os
    d = os.path.join(lib.VERIF, "corpus", "C09")
    res = []
    if os.path.isdir(d):
        for f in sorted(os.listdir(d)):
            res += [l.strip() for l in open(os.path.join(d, f)) if l.strip() and not l.startswith("#")]
    return res


def suites(tier, seed, rng):
    return [dbh.DbSuite(corpus() + gen_cases(tier, rng), timeout_s=60),
            sched.SchedSuite(sched.gen_cases(tier, rng, {"bg", "group", "waiters"})),
            # calls must return also after an I/O fault has put the database into its sticky error
            # state: every later write is refused, none may hang
            fault.FaultSuite(["%s # %d" % (" ".join(fault.gen_history(rng, "f%d" % i, rng.choice([12, 20]))), 2 if tier == "quick" else 20)
                              for i in range(3 if tier == "quick" else 60)])]


def replay_suites(rp):
    if rp.get("suite") == "fault":
        return [fault.FaultSuite([rp["case"]])]
    if rp.get("suite") == "sched":
        return [sched.SchedSuite([rp["case"]])]
    return [dbh.DbSuite([rp["case"]], timeout_s=60)]


def still_fails(suite, case, workdir):
    if suite == "fault":
        return bool(fault.FaultSuite([case]).execute(workdir, tag="sh")[1])
    if suite == "sched":
        s = sched.SchedSuite([case])
        return bool(s.execute(workdir, tag="sh")[1])
    return dbh.still_fails(case, workdir)


def nontrivial(suite, case):
    return case.count(" P") + case.count(" B") >= 20 or suite == "sched"


def classify(suite, case):
    return suite
