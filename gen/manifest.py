#!/usr/bin/env python3
"""Writes MANIFEST.json from the per-property table below (kept in one place so that the file is
always valid and current)."""
import json, os, subprocess, sys

VERIF = os.path.dirname(os.path.dirname(os.path.abspath(__file__)))

CLAIMED = {
    "C13": dict(
        text="Coq theorems about a model of keys, blocks and tables: internal-key order is a strict total preorder; shortest separator/successor lie between their arguments and their assertions never fire; every sorted entry list cut at arbitrary block boundaries builds a well-formed table; block encode/decode round trip for every restart interval; BlockIter and the two-level iterator refine a sorted-list cursor under arbitrary cursor operations; Table::get answers value/deletion/not-in-this-file exactly as the newest entry at or below the bound dictates. Tied to the code by differential execution (byte-exact for keys and blocks, entry level for tables built by the real TableBuilder).",
        note="Trusted: Coq kernel, extraction, glue. Modelled rather than verified: Snappy framing, block trailer, footer, metaindex, block cache (exercised by the correspondence only).",
        design="6 / C13",
        technique="machine-checked proof in Coq (order theory, codec round trips, cursor simulation) + checked model-code correspondence",
    ),
    "C14": dict(
        text="Coq theorems: a Bloom filter created from a key set answers may-match for every key of the set (any hash function, any probe count, any bits-per-key) and the filter block consulted with a data block start offset answers may-match for every key of that block (any block layout); byte-exact model tied to filter_policy.rs / filter_block*.rs by differential execution.",
        note="Trusted: Coq kernel, extraction, glue; theorem hypothesis keys*bits_per_key < 2^32 (the as-u32 truncation).",
        design="6 / C14",
        technique="machine-checked proof in Coq (bit-vector monotonicity, builder invariant) + checked model-code correspondence",
    ),
    "C12": dict(
        text="Coq theorems about a byte-exact model of the log writer/reader (round trip over all "
             "record lengths and writer re-openings, truncation at every byte, interruption between "
             "fragments), tied to src/logs.rs by differential execution of the extracted model and "
             "the implementation, file bytes and records compared.",
        note="Trusted: Coq kernel, extraction (ExtrOcamlBasic), OCaml/Python/Rust glue, SimFs; "
             "LogReader initial_offset != 0 and non-EOF I/O errors are not modelled.",
        design="6 / C12",
        technique="machine-checked proof in Coq (induction over the writer loop / block arithmetic) + checked model-code correspondence",
    ),
}

NOT_YET = {}

ALL = ["C%02d" % i for i in range(1, 18)]


def main():
    hooks_commits = subprocess.run(
        "git -C /repo log --format=%h --grep='^verif hooks' ", shell=True, stdout=subprocess.PIPE, text=True
    ).stdout.split()
    checks = []
    for pid in ALL:
        if pid not in CLAIMED:
            continue
        c = CLAIMED[pid]
        checks.append({
            "property_id": pid,
            "quick_cmd": "./check %s --tier quick" % pid,
            "thorough_cmd": "./check %s --tier thorough" % pid,
            "evidence_file": "/verif/evidence/%s.json" % pid,
            "replay_cmd_template": "./check %s --replay {path}" % pid,
            "engine": "coq+correspondence",
            "level_claimed": {"category": "proof", "text": c["text"], "design_ref": c["design"]},
            "level_note": c["note"],
            "technique": c["technique"],
        })
    na = []
    for pid in ALL:
        if pid not in CLAIMED:
            na.append({"property_id": pid, "reason": NOT_YET.get(
                pid, "not claimed yet: the model, theorems and correspondence for this property are still being built (see DESIGN.md section 9); the technique applies")})
    m = {
        "version": 1,
        "setup_cmd": "./setup.sh",
        "hooks": {
            "guard": "--cfg raindb_verif",
            "enable": "RUSTFLAGS=\"--cfg raindb_verif\" cargo build --offline (harness/ depends on raindb by path=/repo)",
            "baseline_off_cmd": "cd /repo && cargo nextest run --workspace --no-fail-fast --test-threads 8 --offline",
            "source_commits": hooks_commits,
            "add_only": True,
        },
        "engines": [{
            "name": "coq+correspondence",
            "path": "/verif/check",
            "serves_properties": sorted(CLAIMED),
            "kind_free_text": "Coq 8.16.1 development (coq/), extracted OCaml model driver (ocaml/), Rust differential harness (harness/), Python generators (gen/)",
        }],
        "checks": checks,
        "not_applicable": na,
        "notes": "See DESIGN.md. Known findings and repaired defects: KNOWN_FINDINGS.txt.",
    }
    with open(os.path.join(VERIF, "MANIFEST.json"), "w") as f:
        json.dump(m, f, indent=1)
    try:
        import jsonschema
        jsonschema.validate(m, json.load(open("/root/.vp/MANIFEST.schema.json")))
        print("MANIFEST.json valid,", len(checks), "checks")
    except ImportError:
        print("MANIFEST.json written (jsonschema not available)")


if __name__ == "__main__":
    main()
