#!/usr/bin/env python3
"""Writes MANIFEST.json from the per-property table below (kept in one place so that the file is
always valid and current)."""
import json, os, subprocess, sys

VERIF = os.path.dirname(os.path.dirname(os.path.abspath(__file__)))

CLAIMED = {
    "C11": dict(
        text="Coq theorems on the keep rule of remove_obsolete_files: no file needed by the current version, another live version, an output being written or recovery is ever selected for deletion; at a quiescent moment every surviving file is needed, except manifests numbered above the current one (recorded known finding orphan-newer-manifest, with a refutation witness). Tied to the code by judging every observed directory listing (after quiescence in histories, after recovery of every crash image and after the following clean reopen) with the extracted keep rule and exactness predicate.",
        note="The version-list discipline (a version stays linked exactly while the current pointer, an iterator, a read or a compaction holds it; with no holders only the current version's files are live) is proved on the reference-count model (C11_linked_iff_held, C11_no_holds_exact, D8 as a witness); inside the protocol model every file removed by garbage collection is one recovery does not look at and every prefix of the removals recovers the same contents (C11_gc_removed_not_needed, C11_gc_preserves_recovery). Reader-versus-deletion interleavings on the real code are exercised by pause-point schedules only.",
        design="6 / C11",
        technique="machine-checked proof in Coq (decision function properties) + checked model-code correspondence on directory listings",
    ),
    "C01": dict(
        text="Coq theorems, end to end on the joint model (logical LSM state machine and persistence protocol in lockstep, C01_stack_*): for every run of writes, rotations, flushes, compactions and trivial moves, any number of sessions each ending in a crash at any file operation (last append torn anywhere) or cleanly, the state rebuilt by recovery is well formed and a get through the real lookup path returns exactly the value of the latest acknowledged write (C01_stack_jreach_h_get, C01_stack_stack_crash_get). On the LSM model: the lookup path (memtable, immutable memtable, level-0 files newest first, one file per deeper level found by binary search) returns exactly the newest entry at or below the sequence bound among ALL entries, for every well-formed state (db_get_correct); a write batch updates the result like a sorted map (C01_write_then_get); every admissible run of writes, rotations, flushes, compactions, trivial moves keeps the state well formed (reachable_wf, shared with C10). Tied to the code by whole-database histories compared with the extracted map specification, by judging every structural dump of the real database with the extracted invariant lsm_wf_b and lookup path, and by function-level differential execution of the lookup-candidate functions.",
        note="Trusted: Coq kernel, extraction, glue, the DB::verif_dump hook. Every installed version change is also re-derived step by step by the LSM model (stepcheck). Table files answer lookups as proved in C13; the LRU cache in front of blocks and tables never serves a stale or invented value and keeps an entry while fewer than capacity other keys are used, and read-through use (get; on a miss read the immutable file and insert) answers the file's contents for every capacity and every sequence of reads and evictions (C01_cache_*), tied to the real LRUCache operation by operation. After any crash the recovered contents are those of the acknowledged batches (C02).",
        design="6 / C01",
        technique="machine-checked proof in Coq (invariant by induction over all step sequences with oracle-chosen internal steps; refinement to a sorted map) + checked model-code correspondence",
    ),
    "C03": dict(
        text="Coq theorems: at any sequence bound get and iteration agree on a well-formed state (a seek lands exactly on the key iff get finds it; a full scan yields exactly the contents at that bound); an iterator at a live snapshot yields identical observations for EVERY cursor script before and after any admissible run of writes, rotations, flushes, compactions and trivial moves that does not release the snapshot (C03_iterator_snapshot_stable, with the necessity witness for the not-released hypothesis); snapshot_stable: a live snapshot's view (and every get at it) is unchanged by any admissible run of writes, rotations, flushes, compactions and trivial moves that does not release it (multiset version for duplicate snapshots). Tied to the code by histories in which snapshots and iterators outlive writes, flushes and compactions, compared with frozen copies of the specification map.",
        note="Trusted as for C01. Iterators without an explicit snapshot pin a version; the deletion-safety part for pinned versions is exercised by the pause-point schedules (C05) and the directory checks (C11), not proved.",
        design="6 / C03",
        technique="machine-checked proof in Coq (corollary of the LSM invariant and step invisibility) + checked model-code correspondence",
    ),
    "C07": dict(
        text="Coq theorems: the merge with the drop rule preserves every view at or above the oldest snapshot (compact_preserves_visible, with necessity witnesses for each hypothesis); compaction input selection is closed under user-key overlap and boundary files on both paths (finalize_inputs_closed) and installing the outputs keeps the version well formed; every internal step (rotation, flush, compaction, trivial move) leaves all views >= oldest snapshot and all gets unchanged (internal_step_invisible). Tied to the code by function-level differential execution of every selection function, the closure predicate evaluated on the implementation's chosen inputs, and whole-database histories with snapshots and manual compactions.",
        note="Trusted as for C01. The proof attempt of input closure found defect D14 (expansion path without parent boundary files), reproduced on the database and repaired.",
        design="6 / C07",
        technique="machine-checked proof in Coq (list-level merge lemma, selection closure, invariant preservation) + checked model-code correspondence",
    ),
    "C09": dict(
        text="Coq theorems: no step of the LSM state machine from a well-formed state trips an assertion of the code and well-formedness is preserved along every admissible run (the worker never panics); input selection is total; the level-0 restart loop, the boundary-file loop, the two-level iterator skip loops and the log reader terminate within their fuel without panic; and, on a model of the scheduling of background work (Work.v: the scheduled flag, the task queue of the compaction thread, every place that consults should_schedule_compaction), in every reachable state pending work (an immutable memtable, a manual compaction, a version that needs compaction) implies that a compaction task is queued or running unless the database is in a bad state or shutting down, so a waiting writer always has a task working for it, and the next successful round removes the immutable memtable. Tied to the code by judging the scheduling flags of EVERY structural dump with the extracted invariant, by watchdogs and panic hooks on all histories, pause-point schedules of the background thread and all descriptor kinds.",
        note="Partial: termination of the modelled loops, absence of panics and the scheduling invariant are proved; fairness of the OS scheduler, condition-variable wake-ups and bounded wall-clock time are assumptions that the watchdogs only test.",
        design="6 / C09, 0.11",
        technique="machine-checked proof in Coq (fuel sufficiency, no-panic invariant, scheduling invariant over all interleavings of critical sections) + checked model-code correspondence on dumps + watchdog/panic-hook exploration",
    ),
    "C10": dict(
        text="Coq theorem reachable_shape_ok: in every state reachable by any admissible run, levels >= 1 are sorted and pairwise disjoint, every file's bounds are exactly its first and last entry with smallest <= largest, and file numbers are unique (part of the invariant lsm_wf_b, which is preserved by every step and never panics). The compaction triggers are modelled too (Pick.v): the level Version::finalize picks has the first maximal size score, and the file that iterator read samples schedule for a seek compaction lives at the level recorded with it, for every sequence of samples. Tied to the code by function-level differential execution of the score and of read sampling, by judging every structural dump (file bounds plus entries read back from each table) with the extracted invariant, cross-checking SSTables / NumFilesAtLevel against the dump, across reopens with changed options.",
        note="Trusted as for C01. The manifest codec (persist/recover) is exercised by reopen histories but not yet modelled byte for byte.",
        design="6 / C10",
        technique="machine-checked proof in Coq (invariant by induction over all step sequences) + checked model-code correspondence",
    ),
    "C17": dict(
        text="Coq theorems on a lock-table model of open / close / destroy_database: in every reachable state at most one handle is open and it is the lock owner; a failed open or destroy changes nothing; while a handle is open every further open and destroy fails; after a close exactly one of any set of racing opens succeeds. Tied to the code by scripts and thread races on TmpFileSystem (real flock) compared step by step with the extracted model.",
        note="Assumes kernel flock semantics (one holder per open file description, released on close). Two refinements of the atomic model are proved and tied to the code separately, not composed: destroy_database in its three externally visible steps with flocks attached to inodes (LockPhases.v, defect D18), and lock_file in its two system calls, open then flock, with destroy_database unlinking the name in between (LockFd.v, defect D20: the repaired code looks the name up again after the flock; single owner in every state of every schedule, exactly one winner in each of the six interleavings of two racing openers; the pinned code is refuted). Both are compared step by step with the real code on TmpFileSystem, the opener / destroyer parked at hook points between their steps; a handle closed while its compaction thread is busy (flush, follow-up table compaction) admits nobody before the close has returned.",
        design="6 / C17, 0.9, 0.18",
        technique="machine-checked proof in Coq (invariant over all interleavings of atomic actions) + checked model-code correspondence",
    ),
    "C13": dict(
        text="Coq theorems about a model of keys, blocks and tables: internal-key order is a strict total preorder; shortest separator/successor lie between their arguments and their assertions never fire; every sorted entry list cut at arbitrary block boundaries builds a well-formed table; block encode/decode round trip for every restart interval; BlockIter and the two-level iterator refine a sorted-list cursor under arbitrary cursor operations; Table::get answers value/deletion/not-in-this-file exactly as the newest entry at or below the bound dictates. Tied to the code by differential execution (byte-exact for keys and blocks, entry level for tables built by the real TableBuilder).",
        note="Trusted: Coq kernel, extraction, glue. Modelled rather than verified: Snappy framing, block trailer, footer, metaindex, block cache (exercised by the correspondence only).",
        design="6 / C13",
        technique="machine-checked proof in Coq (order theory, codec round trips, cursor simulation) + checked model-code correspondence",
    ),
    "C14": dict(
        text="Coq theorems: a Bloom filter created from a key set answers may-match for every key of the set (any hash function, any probe count, any bits-per-key) and the filter block consulted with a data block start offset answers may-match for every key of that block (any block layout); byte-exact model tied to filter_policy.rs / filter_block*.rs by differential execution.",
        note="Trusted: Coq kernel, extraction, glue; theorem hypothesis keys*bits_per_key < 2^32 (the as-u32 truncation).",
        design="6 / C14",
        technique="machine-checked proof in Coq (bit-vector monotonicity, builder invariant) + checked model-code correspondence",
    ),
    "C04": dict(
        text="Coq theorems: the merging iterator over any list of sorted children and the database iterator on top of it (hiding entries above the snapshot bound, older versions and deleted keys) refine a cursor over the sorted list of visible user keys, for every finite script of seek_to_first / seek_to_last / seek / next / prev including direction changes, stepping off either end and seeks to keys before, between, equal to and after the stored keys; corollary for the children of any well-formed LSM state. Tied to the code by differential execution of cursor scripts on real databases (itercheck: the implementation's children are dumped, the extracted merging and database iterators are run on them, position by position) and by whole-database histories with scans.",
        note="Trusted as for C01. Error propagation out of child iterators is not part of the cursor model (see the C15 known finding table-block-error-swallowed-by-iterators).",
        design="6 / C04",
        technique="machine-checked proof in Coq (simulation between the iterator state machines and a sorted-list cursor, by induction over scripts) + checked model-code correspondence",
    ),
    "C05": dict(
        text="Coq theorems on a transition system of the read path, the group-commit write path, memtable rotation and the background flush at the granularity of the places where the database mutex is released: for EVERY schedule (any number of threads, any interleaving, any group sizes and rotation choices; fresh thread ids, one background flush at a time) an invariant holds (unique leader at the head of the queue, entries in memory are exactly those of the committed batches plus the in-flight group, every parked reader's captured sources are sound and complete up to its sequence number) and every get returns exactly the map after the batches published when it captured its sequence number (get_linearizable, read_sees_acknowledged, read_ignores_later_writes). The unrepaired read path (memtable pointer loaded after the mutex was released, D6) is refuted in the model by a concrete schedule. Tied to the code by pause-point schedules executed on the real database through cfg(raindb_verif) scheduling points and compared with the extracted transition system and a linearizability oracle.",
        note="Sequential consistency between the modelled blocks is assumed; interleavings below mutex-release granularity (atomics, ArcSwap, the skip list's internals) are not modelled. Table compactions are not part of this transition system (their invisibility is C07). The correspondence explores schedules with one parked thread plus queued writers.",
        design="6 / C05",
        technique="machine-checked proof in Coq (inductive invariant over all interleavings of a transition system; refinement to a sorted map via a ghost commit log) + checked model-code correspondence on pause-point schedules",
    ),
    "C06": dict(
        text="Coq theorems on the same transition system as C05: every published sequence number is a batch boundary of the commit log (published_boundary); for every submitted batch there is a block of sequence numbers such that every published bound lies entirely before or after it, the block holds exactly the batch's entries and all of them are in memory once the bound covers it (batch_all_or_nothing, batch_visible_all_or_none); every acknowledged writer is in the commit log exactly once (writers_exactly_once). Tied to the code by pause-point schedules with a writer parked before the WAL append, between memtable inserts and before publication while readers and scans run, judged for batch atomicity and compared with the extracted model.",
        note="As for C05. Crash atomicity of batches is C02.",
        design="6 / C06",
        technique="machine-checked proof in Coq (inductive invariant over all interleavings) + checked model-code correspondence on pause-point schedules",
    ),
    "C02": dict(
        text="Coq theorems on byte-exact models of the batch codec, the manifest record codec, the write-ahead log, recovery and the persistence protocol: for every run of the protocol model, every crash point and every tear length the recovered contents are exactly the acknowledged batches (plus the in-flight one when its record is complete) and recovery never fails (C02_crash_safe_with_installs, C02_crash_recovery_succeeds); decode(encode x) = x for varints, slices, batches and version changes; for every sequence of writer sessions and EVERY byte length n at which the log is cut, recovery returns exactly a prefix of the appended batches, batch j being recovered iff its record ends at or before n (wal_crash_atomic: batches are all-or-nothing and acknowledged = fully written batches survive), the replayed map and the recovered last sequence number follow. Recovery itself is a Coq function of the directory image (Recover.recover_image: CURRENT, manifest records, version, logs replayed in order) and the whole persistence protocol is a Coq state machine that emits file operations (Proto.v: open/recover, write, rotate, flush, install, garbage collection). Tied to the code by crash images taken at every filesystem operation (including a torn last write) of real executions on SimFs, recovered by the real DB::open and judged against the extracted specification; every such image is also recovered by the extracted recover_image and compared with DB::open (result, last sequence, contents); after every operation of random histories the complete directory (CURRENT, logs byte for byte, manifests record by record, tables entry by entry) is compared with the directory Proto.p_run derives; plus byte-exact differential execution of the codecs.",
        note="The crash-safety theorem of the protocol model is proved for every run of open / write / rotate / flush / install / reopen from a cleanly closed directory, every crash point and every tear length (C02_crash_safe_with_installs); recovery FROM any crash image re-establishes the invariant (C02_open_step_crashed), so histories of sessions that each end in a crash anywhere (torn tails, crashes during recovery itself) or cleanly are covered (C02_history_safe_from_empty). fsync is not modelled because the code never calls it (every completed write is assumed durable).",
        design="6 / C02",
        technique="machine-checked proof in Coq (induction over writer sessions and block arithmetic; codec round trips) + checked model-code correspondence on crash images",
    ),
    "C15": dict(
        text="Coq theorems on the byte-exact log model with the real CRC32C: changing any single checksum-protected byte (the 4 checksum bytes or the payload of any fragment) of a log whose last block contains the change is detected: the reader returns the original records in order minus at most (exactly, for well-formed fragment sequences) one, invents and alters nothing and does not panic; crc32c itself is proved to detect every single-byte change; batch-level corollary through WAL recovery; the type byte, which the checksum does not cover: changing it in any fragment but the last of a written log to any other valid type leaves a fragment the reader counts as dropped, and recovery rejects a manifest with dropped fragments (C15c_*, after the repair of defect D19). Tied to the code by corrupting every offset of every persistent file (WAL, manifest, CURRENT, tables) of small real databases and judging the reopened database against the written history, also after a forced compaction; by comparing the extracted recovery function with DB::open on every single-byte corruption of CURRENT, manifests and logs (plus every fragment's type byte set to every other valid type); and by the table-file layout correspondence.",
        note="Table files: every stored block (payload, compression type, checksum) reads back at its handle and any single changed byte of it is rejected with a checksum error; handle and footer round trips; a changed magic number is rejected (TableFile.v, tied by the tfile suite on files written by the real builder); the block contents above that layer (Snappy frames) stay opaque. The manifest and CURRENT are covered by the byte-exact recovery model compared with DB::open on every single-byte corruption (recoverc). Three recorded known findings (table-block-error-swallowed-by-iterators, log-length-beyond-eof, log-type-byte-not-checksummed) and the model witness for the mis-framing after a checksum failure in a non-final block (loses more than one record, still invents nothing).",
        design="6 / C15",
        technique="machine-checked proof in Coq (GF(2)-linearity of CRC32C, layout induction) + checked model-code correspondence on corrupted files",
    ),
    "C16": dict(
        text="Coq theorems: for every history of sessions of the persistence-protocol model, each ending in a crash at any file operation with the last append torn at any byte (or cleanly) and the next one recovering from that image, the database opens and holds exactly the acknowledged batches, including those acknowledged after a recovery (C16_history_safe_from_empty, C16_writes_after_recovery_survive); a log cut at any byte (torn tail) followed by a NEW log file recovers exactly the batches whose records were complete in the first file followed by all batches of the second (wal_torn_then_new_log, with the cut characterised by record end offsets); appending to a log after a torn tail is refuted in the model (the appended record is lost), which is the repaired defect D2. Tied to the code by crash images with a torn last write (1 byte, half, all but one, and exactly at a 32 KiB block boundary of the file when the write crosses one) of WAL and manifest appends, recovery, further writes and another reopen, with both log-reuse settings.",
        note="Database-level theorems on the protocol model: every byte prefix of a manifest or log reads back a prefix of its records with no record counted as corrupted and is reported intact only if it is a well-formed log (so it is reused only then); every crash image (any tear length) recovers; C16_writes_after_recovery_survive: writes acknowledged after recovering from a torn tail are present after the next crash or clean reopen, for either log-reuse setting. Tied to the code as described in the claim.",
        design="6 / C16",
        technique="machine-checked proof in Coq + checked model-code correspondence on torn crash images",
    ),
    "C08": dict(
        text="Coq theorems on the write path under a failing write-ahead log append (Faults.v: apply_changes after the repair of D4 with the sticky bad-state flag; a failing append may leave ANY prefix of the record in the file), for all runs, all fault positions and all prefix lengths: results are Ok up to the first failure and errors from then on (reported, sticky); what reads see is exactly the acknowledged batches; after the fault is gone and the log is recovered the contents are the acknowledged batches followed by the failed batch wholly or not at all (exactly characterised by whether the whole emission reached the file); sequence numbers handed out after the reopen are fresh. For every other step (table write, manifest append, CURRENT switch through the temp file, file removal) a failing call leaves a prefix of the step's file operations applied, i.e. a crash image of the step: every such image recovers exactly the acknowledged batches and recovery from it re-establishes the invariant (C08_fault_*_step_crashed, C08_fault_open_step_crashed; the theorems of C02 restated for faults). Tied to the code by (wfault) failing log appends that let 0, a few, thousands of bytes through on real databases, comparing results, scans, the exact log bytes and the reopened contents with the extracted model, and by (fault) every call position of every file-system call class x transient/sticky on whole histories, judged against the specification.",
        note="Failures of table writes, manifest appends, the CURRENT switch and file removal are covered by the fault suite (every position) and, for the durable side, by the crash-safety theorem of the protocol model (a failed call leaves a prefix of the operations applied), but the in-memory error handling of those paths (bad-state flag set by the background thread, retries) is exercised, not modelled.",
        design="6 / C08, 0.10",
        technique="machine-checked proof in Coq (induction over the run; crash atomicity of the log for the partial append) + checked model-code correspondence under injected faults",
    ),
    "C12": dict(
        text="Coq theorems about a byte-exact model of the log writer/reader (round trip over all "
             "record lengths and writer re-openings, truncation at every byte, interruption between "
             "fragments), tied to src/logs.rs by differential execution of the extracted model and "
             "the implementation, file bytes and records compared.",
        note="Trusted: Coq kernel, extraction (ExtrOcamlBasic), OCaml/Python/Rust glue, SimFs; "
             "LogReader initial_offset != 0 and non-EOF I/O errors are not modelled.",
        design="6 / C12",
        technique="machine-checked proof in Coq (induction over the writer loop / block arithmetic) + checked model-code correspondence",
    ),
}

NOT_YET = {}

ALL = ["C%02d" % i for i in range(1, 18)]


def main():
    hooks_commits = subprocess.run(
        "git -C /repo log --format=%h --grep='^verif hooks' ", shell=True, stdout=subprocess.PIPE, text=True
    ).stdout.split()
    checks = []
    for pid in ALL:
        if pid not in CLAIMED:
            continue
        c = CLAIMED[pid]
        checks.append({
            "property_id": pid,
            "quick_cmd": "./check %s --tier quick" % pid,
            "thorough_cmd": "./check %s --tier thorough" % pid,
            "evidence_file": "/verif/evidence/%s.json" % pid,
            "replay_cmd_template": "./check %s --replay {path}" % pid,
            "engine": "coq+correspondence",
            "level_claimed": {"category": "proof", "text": c["text"], "design_ref": c["design"]},
            "level_note": c["note"],
            "technique": c["technique"],
        })
    na = []
    for pid in ALL:
        if pid not in CLAIMED:
            na.append({"property_id": pid, "reason": NOT_YET.get(
                pid, "not claimed yet: the model, theorems and correspondence for this property are still being built (see DESIGN.md section 9); the technique applies")})
    m = {
        "version": 1,
        "setup_cmd": "./setup.sh",
        "hooks": {
            "guard": "--cfg raindb_verif",
            "enable": "RUSTFLAGS=\"--cfg raindb_verif\" cargo build --offline (harness/ depends on raindb by path=/repo)",
            "baseline_off_cmd": "cd /repo && cargo nextest run --workspace --no-fail-fast --test-threads 8 --offline",
            "source_commits": hooks_commits,
            "add_only": True,
        },
        "engines": [{
            "name": "coq+correspondence",
            "path": "/verif/check",
            "serves_properties": sorted(CLAIMED),
            "kind_free_text": "Coq 8.16.1 development (coq/), extracted OCaml model driver (ocaml/), Rust differential harness (harness/), Python generators (gen/)",
        }],
        "checks": checks,
        "not_applicable": na,
        "notes": "See DESIGN.md. Known findings and repaired defects: KNOWN_FINDINGS.txt.",
    }
    with open(os.path.join(VERIF, "MANIFEST.json"), "w") as f:
        json.dump(m, f, indent=1)
    try:
        import jsonschema
        jsonschema.validate(m, json.load(open("/root/.vp/MANIFEST.schema.json")))
        print("MANIFEST.json valid,", len(checks), "checks")
    except ImportError:
        print("MANIFEST.json written (jsonschema not available)")


if __name__ == "__main__":
    main()
