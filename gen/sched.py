"""Pause-point schedules (suite `sched`, Tier A): generator and the linearizability / batch
atomicity oracle shared by C05, C06, C09 (and the reader-vs-deletion part of C03/C11)."""
import itertools
from gen import lib, dbh, fault

WRITE_POINTS = ["write:before_wal", "write:after_wal", "write:between_inserts", "write:after_memtable"]
BG_POINTS = ["flush:building", "gc:before_delete", "manifest:before_append", "compact:loop"]
KEYS = ["x61", "x62", "x63", "x64", "x65"]


def wtok(rng, kind=None, big=False):
    kind = kind or rng.choice(["P", "P", "D", "B"])
    if kind == "P":
        return "P%s=%s" % (rng.choice(KEYS), "r%d.%d" % (rng.choice([3000, 6000]), rng.randrange(1000)) if big else "x%02x%02x" % (rng.randrange(256), rng.randrange(256)))
    if kind == "D":
        return "D" + rng.choice(KEYS)
    els = []
    for k in rng.sample(KEYS, rng.randrange(2, 5)):
        els.append("%s=x%02x%02x" % (k, rng.randrange(256), rng.randrange(256)) if rng.random() < 0.75 else k)
    return "B" + ";".join(els)


def reads(rng, n):
    out = []
    for _ in range(n):
        r = rng.random()
        if r < 0.5:
            out.append("MG" + rng.choice(KEYS))
        elif r < 0.8:
            out.append("MA")
        else:
            out.append("MS")
    return out


def gen_cases(tier, rng, families):
    cases = []
    n = 0

    def add(steps, cfg=None):
        nonlocal n
        cases.append("s%d %s %s" % (n, cfg or "100000:4096:256:%d" % rng.randrange(2), " ".join(steps)))
        n += 1

    reps = 12 if tier == "quick" else 150
    for rep in range(reps):
        if "reader" in families:
            # reader parked between releasing the mutex and reading; rotation + flush + deletion
            # (and optionally a compaction) run to completion meanwhile
            st = ["M" + wtok(rng, "P") for _ in range(rng.randrange(1, 5))]
            if rng.random() < 0.5:
                st += ["MCxfe:xff", "Q"]            # data now in a table file
                st += ["M" + wtok(rng) for _ in range(rng.randrange(0, 3))]
            k = rng.choice(KEYS)
            st += ["Ar:get:after_unlock", "Tr:G" + k, "Vr"]
            for _ in range(rng.randrange(1, 4)):
                st.append("M" + wtok(rng))
                r = rng.random()
                if r < 0.5:
                    st += ["MCxfe:xff", "Q"]
                elif r < 0.7:
                    st += ["MC-:-", "Q"]
            st += ["Ur", "Jr", "MG" + k, "MA"]
            add(st)
        if "writer" in families:
            # writer parked at each unlocked point of apply_changes; readers take snapshots, scan, get
            for pt in WRITE_POINTS:
                st = ["M" + wtok(rng) for _ in range(rng.randrange(0, 3))]
                big = rng.random() < 0.2
                st += ["Aw:" + pt, "Tw:" + wtok(rng, rng.choice(["B", "B", "P"]), big), "Vw"]
                st += reads(rng, rng.randrange(2, 6))
                nsn = sum(1 for x in st if x == "MS")
                for i in range(nsn):
                    st += ["MH%d:%s" % (i, rng.choice(KEYS)), "MZ%d" % i]
                st += ["Uw", "Jw"] + reads(rng, 2)
                for i in range(nsn):
                    st += ["MH%d:%s" % (i, rng.choice(KEYS)), "MZ%d" % i]
                st += ["MA"]
                add(st, "%d:4096:256:%d" % (rng.choice([256, 100000]), rng.randrange(2)))
        if "group" in families:
            st = ["M" + wtok(rng)]
            st += ["Aw1:" + rng.choice(WRITE_POINTS[:2]), "Tw1:" + wtok(rng), "Vw1"]
            st += ["Tw2:" + wtok(rng), "Tw3:" + wtok(rng)]
            st += reads(rng, 2)
            st += ["Uw1", "Jw1", "Jw2", "Jw3", "MA"] + ["MG" + k for k in KEYS]
            add(st)
        if "group" in families and (tier != "quick" or rep < 4):
            # group commit at its size limit: the leader after w1 merges queued writers only up to
            # its own batch + 128 KiB (1 MiB for a large leader batch); a writer that does not fit
            # must lead its own group later (and must not be acknowledged without being applied)
            sizes = rng.choice([(100000, 100000, 40000), (120000, 10000, 1000), (60000, 60000, 60000, 60000),
                                (200000, 500000, 400000), (1000, 131000, 500)])
            st = ["M" + wtok(rng)]
            st += ["Aw1:" + rng.choice(WRITE_POINTS[:2]), "Tw1:" + wtok(rng, "P"), "Vw1"]
            names = []
            for j, sz in enumerate(sizes):
                nm = "g%d" % j
                names.append(nm)
                st.append("T%s:P%s=p%d.%d.1" % (nm, KEYS[j % len(KEYS)], sz, rng.randrange(256)))
            # V on a queued writer waits out its timeout: by then every follower is in the queue
            st += ["MG" + rng.choice(KEYS), "V" + names[-1], "Uw1", "Jw1"] + ["J" + nm for nm in names] + ["MG" + k for k in KEYS]
            add(st, "8388608:4096:4096:%d" % rng.randrange(2))
        if "waiters" in families:
            # several threads wait for the background thread at once (compact_range callers, a
            # writer stalled behind a pending flush): when the background task ends every one of
            # them has to be woken
            st = ["M" + wtok(rng, "P") for _ in range(rng.randrange(1, 4))]
            st += ["MCxfe:xff", "Q", "M" + wtok(rng, "P")]
            st += ["Abg:" + rng.choice(["flush:building", "flush:building", "manifest:before_append"]), "Tc1:C-:-", "Vbg"]
            names = ["c1"]
            for j in range(rng.randrange(1, 4)):
                nm = "c%d" % (j + 2)
                names.append(nm)
                st.append("T%s:%s" % (nm, rng.choice(["C-:-", "Cxfe:xff", "Cx61:x63"])))
            if rng.random() < 0.5:
                names.append("w")
                st.append("Tw:" + wtok(rng, "P"))
            st += ["MG" + rng.choice(KEYS), "Ubg"] + ["J" + nm for nm in names] + ["Q", "MA"]
            add(st, "4096:4096:256:%d" % rng.randrange(2))
        if "walgc" in families:
            # the window between a memtable rotation and the installation of that memtable's flush,
            # with a table compaction installing its result (and collecting garbage) inside it: the
            # log of the rotated memtable is the only place its writes live, so a crash image taken
            # right after the compaction (the background thread is parked again at the start of the
            # flush) must still recover them
            ks = rng.sample(KEYS, 4)
            st = ["MP%s=x%02x%02x" % (k, rng.randrange(256), rng.randrange(256)) for k in ks[:2]]
            st += ["MCxfe:xff", "Q", "MP%s=x%02x%02x" % (ks[0], rng.randrange(256), rng.randrange(256))]
            if rng.random() < 0.5:
                st += ["MD" + ks[1]]
            st += ["MCxfe:xff", "Q"]
            pt = "compact:finish" if rng.random() < 0.75 else "compact:loop"
            st += ["Abg:" + pt, "Tc:C-:-", "Vbg"]
            st += ["MP%s=r3000.%d" % (ks[2], rng.randrange(1000)), "MP%s=r3000.%d" % (ks[3], rng.randrange(1000)),
                   "MP%s=x%02x" % (ks[0], rng.randrange(256))]
            if rng.random() < 0.3:
                st += ["K"]
            st += ["Abg:flush:building", "Ubg", "Vbg", "K", "MG" + ks[2], "Ubg", "Jc", "Q", "K", "MA"]
            add(st, "4096:4096:256:%d" % rng.randrange(2))
        if "bg" in families:
            # a tombstone (or a newer value) that only the immutable memtable holds while its flush
            # is parked, over an older value in a table file: reads must stop at the immutable
            # memtable
            ks = rng.sample(KEYS, 3)
            st = ["MP%s=x%02x%02x" % (k, rng.randrange(256), rng.randrange(256)) for k in ks]
            st += ["MCxfe:xff", "Q"]
            if rng.random() < 0.5:
                st += ["MD" + ks[0], "MP%s=x%02x%02x" % (ks[1], rng.randrange(256), rng.randrange(256))]
            else:
                # the same as one batch: a reader must not see the put without the delete
                st += ["MB%s;%s=x%02x%02x" % (ks[0], ks[1], rng.randrange(256), rng.randrange(256))]
            if rng.random() < 0.5:
                st += ["MD" + ks[2]]
            st += ["Abg:flush:building", "Tc:Cxfe:xff", "Vbg"]
            st += ["MG" + k for k in ks] + ["MA", "MS", "MH0:" + ks[0], "MZ0"]
            if rng.random() < 0.5:
                st += ["MP%s=x%02x%02x" % (ks[2], rng.randrange(256), rng.randrange(256)), "MG" + ks[2], "MG" + ks[0]]
            st += ["Ubg", "Jc", "Q", "MA"] + ["MG" + k for k in KEYS]
            add(st)
            for pt in BG_POINTS:
                st = ["M" + wtok(rng, "P") for _ in range(rng.randrange(1, 4))]
                if pt == "compact:loop":
                    st += ["MCxfe:xff", "Q", "M" + wtok(rng, "P"), "MCxfe:xff", "Q"]
                st += ["Abg:" + pt, "Tc:" + ("C-:-" if pt == "compact:loop" else "Cxfe:xff"), "Vbg"]
                st += ["MG" + rng.choice(KEYS), "MA", "M" + wtok(rng, "P"), "MG" + rng.choice(KEYS), "MS"]
                st += ["Ubg", "Jc", "Q", "MA", "MH0:" + rng.choice(KEYS), "MZ0"] + ["MG" + k for k in KEYS]
                add(st)
    return cases


# ---------------------------------------------------------------------------------------------
# oracle
# ---------------------------------------------------------------------------------------------

def parse_script(case):
    """returns list of ops: dict(kind, tok, start, end, thread)"""
    toks = case.split(" ")[2:]
    ops = []
    open_threads = {}
    for i, t in enumerate(toks):
        c = t[0]
        if c == "M":
            ops.append(dict(tok=t[1:], start=i, end=i, thread="main", step=i))
        elif c == "T":
            name, op = t[1:].split(":", 1)
            o = dict(tok=op, start=i, end=len(toks) + 1, thread=name, step=None)
            ops.append(o)
            open_threads[name] = o
        elif c == "K":
            # a crash image recovered and scanned: every write acknowledged by now is in it
            ops.append(dict(tok="A", start=i, end=i, thread="main", step=i))
        elif c == "J":
            if t[1:] in open_threads:
                o = open_threads.pop(t[1:])
                o["end"] = i
                o["step"] = i
    return toks, ops


def judge(case, results):
    toks, ops = parse_script(case)
    if len(results) != len(toks):
        return "result count %d differs from step count %d: %s" % (len(results), len(toks), lib.trunc(" ".join(results), 200))
    for i, (t, r) in enumerate(zip(toks, results)):
        if t[0] == "J" and r in ("stuck", "panic", "nothread"):
            return "step %d %s: thread %s" % (i, t, r)
        if t == "Q" and r != "ok":
            return "step %d: background work did not quiesce" % i
    if "db-still-shared" in results[-1:]:
        return "the database handle could not be closed"
    writes = [o for o in ops if o["tok"][0] in "PDB"]
    for o in writes:
        res = results[o["step"]] if o["step"] is not None else "unjoined"
        if res != "ok" and res != "unjoined":
            return "write %s returned %s" % (lib.trunc(o["tok"], 60), res)

    def before(a, b):          # a entirely precedes b in real time
        return a["end"] < b["start"] or (a["end"] == b["start"] and a["thread"] == "main" and b["thread"] == "main" and a is not b and a["end"] < b["start"])

    def candidates(at_start, at_end):
        """all maps obtainable at a cut taken in [at_start, at_end]: linearizations of the writes
        that began before at_end, containing at least those that ended before at_start"""
        ws = [w for w in writes if w["start"] < at_end or (w["start"] == at_end and False)]
        ws = [w for w in ws if w["start"] <= at_end]
        must = [w for w in ws if w["end"] < at_start]
        opt = [w for w in ws if w not in must]
        out = []
        seen = set()
        for k in range(len(opt) + 1):
            for sub in itertools.combinations(opt, k):
                chosen = must + list(sub)
                # a chosen write may not skip a write that strictly precedes it
                ok = all(not (w2["end"] < w["start"]) or w2 in chosen for w in chosen for w2 in ws)
                if not ok:
                    continue
                for perm in linear_extensions(chosen):
                    m = {}
                    for w in perm:
                        m = fault.apply_write(m, w["tok"])
                    s = fault.show(m)
                    if s not in seen:
                        seen.add(s)
                        out.append(m)
                    if len(out) > 400:
                        return out
        return out

    def linear_extensions(ws, limit=60):
        res = []

        def rec(prefix, rest):
            if len(res) >= limit:
                return
            if not rest:
                res.append(prefix)
                return
            for w in rest:
                if all(not (o["end"] < w["start"]) for o in rest if o is not w):
                    rec(prefix + [w], [o for o in rest if o is not w])
        rec([], list(ws))
        return res

    snaps = []
    for o in ops:
        t = o["tok"]
        if o["step"] is None:
            continue
        r = results[o["step"]]
        if t[0] == "S":
            snaps.append(candidates(o["start"], o["end"]))
        elif t[0] == "G":
            k = fault.tok_bytes(t[1:])
            cands = candidates(o["start"], o["end"])
            allowed = {("v" + m[k]) if k in m else "nf" for m in cands}
            if r not in allowed:
                return "read %s (steps %d..%d) returned %s; explainable results: %s" % (t, o["start"], o["end"], lib.trunc(r, 60), lib.trunc(sorted(allowed), 200))
        elif t[0] == "A":
            cands = candidates(o["start"], o["end"])
            if r not in {fault.show(m) for m in cands}:
                return "scan (steps %d..%d) returned %s; no cut of whole writes explains it: %s" % (o["start"], o["end"], lib.trunc(r, 200), lib.trunc(sorted(fault.show(m) for m in cands)[:5], 400))
        elif t[0] in "HZ":
            if r == "nosnap":
                continue
            idx = int(t[1:].split(":")[0]) if t[0] == "H" else int(t[1:])
            if idx >= len(snaps):
                continue
            if t[0] == "H":
                k = fault.tok_bytes(t[1:].split(":", 1)[1])
                keep = [m for m in snaps[idx] if ((("v" + m[k]) if k in m else "nf") == r)]
            else:
                keep = [m for m in snaps[idx] if fault.show(m) == r]
            if not keep:
                return "snapshot %d read %s returned %s; not consistent with any single cut of whole writes (previous reads of the snapshot included)" % (idx, t, lib.trunc(r, 200))
            snaps[idx] = keep
    return None


class SchedSuite:
    suite = "sched"

    def __init__(self, cases):
        self.cases = cases
        self.stats = {"parked": 0, "by_point": {}}

    def execute(self, workdir, tag="sc"):
        impl = lib.run_sharded(lib.RVH, "sched", self.cases, workdir, tag + "i",
                               extra_env={"RVH_CASE_TIMEOUT": "120", "VERIF_JOBS": "8"})
        model = lib.run_sharded(lib.DRIVER, "sched", self.cases, workdir, tag + "m")
        prop, corr = [], []
        self.stats["model_compared"] = 0
        for c in self.cases:
            cid = c.split(" ", 1)[0]
            il = impl.get(cid, cid + " MISSING")
            res = il.split(" ")[1:]
            mres = model.get(cid, "").split(" ")[1:]
            # with several concurrently spawned writers the order in which they enter the writer
            # queue is decided by the OS scheduler: both orders are correct, the model run fixes one
            one_thread = sum(1 for t in c.split(" ")[2:] if t[0] == "T") <= 1
            if one_thread and len(mres) == len(c.split(" ")) - 2 and len(res) >= len(mres) and "DRIVER-ERROR" not in model.get(cid, ""):
                for i, (a, b) in enumerate(zip(res, mres)):
                    if b != "*" and a != b and not a.startswith("parked@"):
                        corr.append({"case": c, "impl": lib.trunc(il, 800), "model": lib.trunc(model.get(cid, ""), 800),
                                     "kind": "conc-model", "detail": "step %d: implementation %s, concurrency model %s" % (i, lib.trunc(a, 60), lib.trunc(b, 60))})
                        break
                self.stats["model_compared"] += 1
            if "BGPANIC" in il or "HANG" in res[:1] or "HARNESS-PANIC" in il or "NO-OUTPUT" in il:
                prop.append({"case": c, "impl": lib.trunc(il, 600), "spec": "", "model": "", "detail": "run failed: " + il[:300]})
                continue
            for r in res:
                if r.startswith("parked@"):
                    self.stats["parked"] += 1
                    self.stats["by_point"][r[7:]] = self.stats["by_point"].get(r[7:], 0) + 1
            msg = judge(c, res)
            if msg:
                prop.append({"case": c, "impl": lib.trunc(il, 1500), "spec": "", "model": "", "detail": msg})
        return corr, prop


def still_fails(case, workdir):
    s = SchedSuite([case])
    corr, prop = s.execute(workdir, tag="sh")
    return any(p["detail"].split(" ")[0] in ("read", "scan", "snapshot") for p in prop)
