"""C13 — table files give back exactly what was put in."""
import os
from gen import lib

PROP_FILE = "props/C13.v"
RULE = ("key: pairs of internal keys over byte strings {empty, 1 byte, 0x00/0xff runs, shared "
        "prefixes} x sequences {0,1,2,2^64-1,..} x ops, all pairs of a small universe enumerated "
        "(ordering, equality, encoding, separator, successor compared with the model; separator "
        "property a <= sep < b checked on the implementation's answer). block: sorted entry lists x "
        "restart interval 1..17 with BlockIter scripts (bytes, size estimate, decoded entries, cursor "
        "trace). table: sorted entry lists (many versions per key crossing block cuts, values 0..3 "
        "blocks long) x max_block_size {1,16,64,256,4096,huge}; block layout and index keys, every "
        "point lookup at sequence bounds around every stored version, TwoLevelIterator scripts biased "
        "to block boundaries, filter consulted for every stored key. Non-trivial = at least two "
        "entries; distinct by sha1.")
TRUSTED = [
    "modelled byte-exact: InternalKey ordering/encoding/separator/successor, varint32, BlockBuilder, BlockReader::new, BlockIter; modelled at entry level: TableBuilder block cuts and index keys, Table::get, TwoLevelIterator",
    "modelled rather than verified: Snappy framing, 5-byte block trailer, footer, metaindex block, block cache (exercised by the correspondence: real files are written and re-read)",
]
ASSUMPTIONS = ["point lookups use a sequence bound < 2^64-1 (hypothesis of C13_table_get_spec)"]

USERS = ["x", "x00", "x61", "x6161", "x6162", "x61ff", "xff", "xffff", "x62", "x6100", "xfe", "x61626364"]
SEQS = [0, 1, 2, 5, 255, 256, 2 ** 32, 2 ** 64 - 2, 2 ** 64 - 1]


def ikey_lt(a, b):
    return (a[0], -a[1]) < (b[0], -b[1])


def ub(tok):
    return bytes.fromhex(tok[1:])


def rand_user(rng):
    r = rng.random()
    if r < 0.35:
        return rng.choice(USERS)
    n = rng.choice([0, 1, 1, 2, 3, 4, 8])
    return "x" + "".join("%02x" % rng.choice([0, 255, 97, 98, 99, rng.randrange(256)]) for _ in range(n))


def gen_key(tier, rng):
    cases = []
    i = 0
    us = USERS[:8] if tier == "quick" else USERS
    ss = [0, 1, 2 ** 64 - 1] if tier == "quick" else [0, 1, 2, 2 ** 64 - 2, 2 ** 64 - 1]
    for ua in us:
        for ub_ in us:
            for sa in ss:
                for sb in ss:
                    cases.append("k%d %s:%d:%d %s:%d:%d" % (i, ua, sa, (i // 3) % 2, ub_, sb, i % 2))
                    i += 1
    for _ in range(500 if tier == "quick" else 20000):
        cases.append("k%d %s:%d:%d %s:%d:%d" % (i, rand_user(rng), rng.choice(SEQS), rng.randrange(2),
                                               rand_user(rng), rng.choice(SEQS), rng.randrange(2)))
        i += 1
    return cases


def rand_entries(rng, nkeys, maxver, vals):
    users = sorted({ub(rand_user(rng)) for _ in range(nkeys)})
    es = []
    for u in users:
        nv = rng.randrange(1, maxver + 1)
        seqs = sorted(rng.sample(range(1, 4 * maxver + 2), nv), reverse=True)
        if rng.random() < 0.05:
            seqs[0] = 2 ** 64 - 1
        for s in seqs:
            op = 0 if rng.random() < 0.25 else 1
            vl = 0 if op == 0 else rng.choice(vals)
            es.append(("x" + u.hex(), s, op, "p%d.%d.%d" % (vl, rng.randrange(256), rng.choice([0, 1, 3]))))
    return es


def etok(e):
    return "E%s:%d:%d:%s" % e


def rand_script(rng, es, n):
    ops = []
    for _ in range(n):
        r = rng.random()
        if r < 0.3:
            ops.append("On")
        elif r < 0.6:
            ops.append("Op")
        elif r < 0.68:
            ops.append("Of")
        elif r < 0.76:
            ops.append("Ol")
        else:
            if es and rng.random() < 0.7:
                e = rng.choice(es)
                s = max(0, min(2 ** 64 - 1, e[1] + rng.choice([-1, 0, 0, 1])))
                ops.append("Os%s:%d:%d" % (e[0], s, rng.choice([e[2], 1])))
            else:
                ops.append("Os%s:%d:1" % (rand_user(rng), rng.choice(SEQS)))
    return ops


def gen_block(tier, rng):
    cases = []
    for i in range(300 if tier == "quick" else 10000):
        es = rand_entries(rng, rng.randrange(1, 12), rng.choice([1, 1, 3, 20]), [0, 1, 5, 40, 300])
        ri = rng.choice([1, 2, 3, 16, 16, 17])
        cases.append("b%d %d %s %s" % (i, ri, " ".join(etok(e) for e in es), " ".join(rand_script(rng, es, rng.randrange(0, 14)))))
    return cases


def gen_table(tier, rng, d3):
    cases = []
    sizes = [1, 16, 64, 256, 4096, 10 ** 7]
    for i in range(250 if tier == "quick" else 8000):
        es = rand_entries(rng, rng.randrange(1, 14), rng.choice([1, 2, 6, 40]), [0, 1, 10, 100, 5000])
        if not es:
            continue
        bs = rng.choice(sizes)
        gets = []
        for e in es:
            for ds in (-1, 0, 1):
                s = e[1] + ds
                if 0 <= s < 2 ** 64 - 1:
                    gets.append("G%s:%d:1" % (e[0], s))
        for _ in range(4):
            gets.append("G%s:%d:1" % (rand_user(rng), rng.choice(SEQS[:-1])))
        # keys beyond the last entry / equal to last user key with a low bound (D3 territory)
        gets.append("G%s:0:1" % es[-1][0])
        gets.append("G%sff:7:1" % es[-1][0])
        if len(gets) > 60:
            gets = rng.sample(gets, 60)
        ops = rand_script(rng, es, rng.randrange(0, 25))
        cases.append("t%d %d:%d %s %s %s" % (i, bs, d3, " ".join(etok(e) for e in es), " ".join(gets), " ".join(ops)))
    # exhaustive short scripts on a small multi-block table
    es = [("x61", 5, 1, "x01"), ("x61", 3, 0, "x"), ("x62", 9, 1, "x02"), ("x63", 4, 1, "x03"), ("x64", 2, 1, "x04")]
    alphabet = ["Of", "Ol", "On", "Op", "Osx62:9:1", "Osx61:4:1", "Osx65:1:1"]
    import itertools
    depth = 3 if tier == "quick" else 4
    j = 0
    for bs in (1, 40):
        for seq in itertools.product(alphabet, repeat=depth):
            cases.append("u%d %d:%d %s %s" % (j, bs, d3, " ".join(etok(e) for e in es), " ".join(seq)))
            j += 1
    return cases


def corpus(name):
    d = os.path.join(lib.VERIF, "corpus", "C13")
    res = []
    if os.path.isdir(d):
        for f in sorted(os.listdir(d)):
            if f.startswith(name):
                res += [l.strip() for l in open(os.path.join(d, f)) if l.strip() and not l.startswith("#")]
    return res


def key_prop_ok(impl_line, spec, case):
    return True


def key_oracle(impl_line, case):
    """a < b  ->  a <= sep < b (as internal keys) and a <= succ"""
    t = impl_line.split(" ")
    c = case.split(" ")
    pa, pb = c[1].split(":"), c[2].split(":")
    a = (ub(pa[0]), int(pa[1]))
    b = (ub(pb[0]), int(pb[1]))
    if len(t) < 10:
        return False

    def dec(x):
        raw = bytes.fromhex(x[1:])
        return (raw[:-9], int.from_bytes(raw[-9:-1], "little"))
    if t[6] == "panic" or t[7] == "panic":
        return not ikey_lt(a, b) and t[7] != "panic"
    succ = dec(t[7])
    if ikey_lt(succ, a):
        return False
    if ikey_lt(a, b):
        sep = dec(t[6])
        if ikey_lt(sep, a) or not ikey_lt(sep, b):
            return False
    return True


def prop_ok_block(impl_line, spec, case):
    t = impl_line.split(" ")
    return len(t) >= 5 and " ".join(t[3:5]) == spec


def prop_ok_table(impl_line, spec, case):
    t = impl_line.split(" ")
    return len(t) >= 6 and " ".join(t[2:6]) == spec


class KeySuite(lib.SuiteRun):
    def execute(self, workdir, tag="g"):
        corr, prop = super().execute(workdir, tag)
        # the python oracle is the failing-input search for the separator property
        impl = lib.run_sharded(lib.RVH, self.suite, self.cases, workdir, tag + "o")
        for c in self.cases:
            il = impl[c.split(" ", 1)[0]]
            if not key_oracle(il, c):
                prop.append({"case": c, "impl": il, "spec": "a<b -> a <= separator < b, a <= successor", "model": ""})
        return corr, prop


def suites(tier, seed, rng):
    return [KeySuite("key", corpus("key") + gen_key(tier, rng), key_prop_ok),
            lib.SuiteRun("block", corpus("block") + gen_block(tier, rng), prop_ok_block),
            lib.SuiteRun("table", corpus("table") + gen_table(tier, rng, D3FIX), prop_ok_table)]


D3FIX = 1


def replay_suites(rp):
    s = rp["suite"]
    if s == "key":
        return [KeySuite("key", [rp["case"]], key_prop_ok)]
    return [lib.SuiteRun(s, [rp["case"]], prop_ok_block if s == "block" else prop_ok_table)]


def still_fails(suite, case, workdir):
    il, mobs, spec = lib.run_single(suite, case, workdir)
    if suite == "key":
        return not key_oracle(il, case)
    ok = prop_ok_block if suite == "block" else prop_ok_table
    if "error" in il or "panic" in il.split(" ", 1)[-1][:20]:
        return False
    return spec != "none" and not ok(il, spec, case)


def nontrivial(suite, case):
    return suite == "key" or case.count(" E") >= 2


def classify(suite, case):
    if suite == "table":
        bs = case.split(" ")[1].split(":")[0]
        return "table:bs=" + bs
    if suite == "block":
        return "block:ri=" + case.split(" ")[1]
    return "key"
