"""Crash-image suite (`crash`): every prefix of the recorded stream of mutating file operations is
rebuilt as a file system image, reopened, scanned, written to, cleanly reopened and scanned again.
Shared by C02 (crash prefixes), C16 (torn last write), C11 (directory contents after recovery)."""
import os
from gen import lib, dbh


def gen_history(rng, hid, nops, reopen_p=0.04, compact_p=0.03):
    nkeys = rng.choice([3, 6, 10])
    toks = ["c%s" % hid, dbh.rcfg(rng)]
    for _ in range(nops):
        r = rng.random()
        if r < 0.5:
            toks.append("P%s=%s" % (dbh.rkey(rng, nkeys), dbh.rval(rng, 70000)))
        elif r < 0.65:
            toks.append("D" + dbh.rkey(rng, nkeys))
        elif r < 0.8:
            els = []
            for _ in range(rng.randrange(2, 6)):
                els.append("%s=%s" % (dbh.rkey(rng, nkeys), dbh.rval(rng, 40000)) if rng.random() < 0.7 else dbh.rkey(rng, nkeys))
            toks.append("B" + ";".join(els))
        elif r < 0.8 + reopen_p:
            toks.append("O" + dbh.rcfg(rng))
        elif r < 0.8 + reopen_p + compact_p:
            toks.append("C-:-")
        elif r < 0.92:
            toks.append("W")
        else:
            toks.append("G" + dbh.rkey(rng, nkeys))
    return toks


def make_case(rng, hid, nops, points, post_reuse=None):
    toks = gen_history(rng, hid, nops)
    reuse = rng.randrange(2) if post_reuse is None else post_reuse
    post_cfg = "%d:%d:%d:%d" % (rng.choice([256, 1024, 4096]), rng.choice([512, 4096]), rng.choice([64, 1024]), reuse)
    post = ["Px7a7a=p20.%d.1" % rng.randrange(256), "Dx61", "Px7a7b=x%02x" % rng.randrange(256)]
    return "%s # %s %s # %s" % (" ".join(toks), post_cfg, " ".join(post), points)


POST_APPLY = None


def apply_post(scan, post_tokens):
    """python mirror of the three fixed post writes (used only to predict scan2 from scan1)"""
    m = {}
    if scan != "-":
        for kv in scan.split(","):
            k, v = kv.split("=")
            m[bytes.fromhex(k)] = v
    for t in post_tokens:
        if t[0] == "P":
            k, v = t[1:].split("=")
            kb = bytes.fromhex(k[1:])
            if v.startswith("x"):
                m[kb] = v[1:]
            else:
                n, a, b = [int(x) for x in v[1:].split(".")]
                m[kb] = bytes(((a + i * b) & 255) for i in range(n)).hex()
        elif t[0] == "D":
            m.pop(bytes.fromhex(t[2:]), None)
    if not m:
        return "-"
    return ",".join("%s=%s" % (k.hex(), m[k]) for k in sorted(m))


class CrashSuite:
    suite = "crash"

    def __init__(self, cases, want=("recover", "post", "dir")):
        self.cases = cases
        self.want = want
        self.stats = {"images": 0, "torn_images": 0, "nested_images": 0, "inflight_images": 0}
        self.known_hits = []

    def execute(self, workdir, tag="cr"):
        impl = lib.run_sharded(lib.RVH, "crash", self.cases, workdir, tag + "i",
                               extra_env={"RVH_CASE_TIMEOUT": "600"})
        # specification: contents after every prefix of the write tokens
        wcases = []
        for c in self.cases:
            hist = c.split(" # ")[0].split(" ")
            ws = [t for t in hist[2:] if t[0] in "PDB"]
            wcases.append("%s %s" % (hist[0], " ".join(ws)))
        spec = lib.run_sharded(lib.DRIVER, "wspec", wcases, workdir, tag + "s")
        prop, corr = [], []
        for c in self.cases:
            cid = c.split(" ", 1)[0]
            il = impl.get(cid, cid + " MISSING")
            post_tokens = c.split(" # ")[1].split(" ")[1:]
            fields = il.split(" ")
            if len(fields) < 3 or not fields[1].startswith("W="):
                prop.append({"case": c, "impl": lib.trunc(il, 1500), "spec": "", "model": "", "detail": "run failed: " + il[:200]})
                continue
            sl = spec.get(cid, "").split(" ")
            scans = sl[1].split(";") if len(sl) > 1 else ["-"]
            writes = [] if fields[1] == "W=-" else [tuple(int(x) for x in w.split(":")) for w in fields[1][2:].split(",")]
            bad = None
            for img in fields[3:]:
                if "BGPANIC" in img:
                    bad = "background thread panicked: " + img[:200]
                    break
                parts = img.split("|")
                head = parts[0].split(".")
                n = int(head[0])
                torn = head[1] != "-"
                nested = len(head) > 2
                self.stats["images"] += 1
                self.stats["torn_images"] += torn
                self.stats["nested_images"] += nested
                # completed writes: those whose last file operation is inside the prefix. With a
                # torn last operation the operation at index n-1 is only partially applied.
                eff = n - 1 if torn else n
                k = sum(1 for (s, e, a) in writes if e <= eff)
                inflight = any(s < n and e > eff for (s, e, a) in writes)
                self.stats["inflight_images"] += inflight
                allowed = {scans[min(k, len(scans) - 1)]}
                if inflight and k + 1 < len(scans):
                    allowed.add(scans[k + 1])
                if parts[1] != "ok":
                    bad = "crash image %s does not open: %s" % (parts[0], parts[1])
                    break
                scan1, postres, scan2, dir2, dir1 = parts[2], parts[3], parts[4], parts[5], parts[6]
                if "recover" in self.want and scan1 not in allowed:
                    bad = ("crash image %s (writes completed: %d, one in flight: %s): recovered contents %s not in allowed %s"
                           % (parts[0], k, inflight, lib.trunc(scan1, 300), lib.trunc(sorted(allowed), 400)))
                    break
                if "post" in self.want:
                    if any(r != "ok" for r in postres.split(",")):
                        bad = "crash image %s: writes after recovery failed: %s" % (parts[0], postres)
                        break
                    exp2 = apply_post(scan1, post_tokens)
                    if scan2 != exp2:
                        bad = ("crash image %s: after recovery, further writes and a clean reopen the contents are %s, expected %s"
                               % (parts[0], lib.trunc(scan2, 300), lib.trunc(exp2, 300)))
                        break
                if "dir" in self.want and (dir1 != "exact" or dir2 != "exact"):
                    if all(d == "exact" or known_dir(d) for d in (dir1, dir2)):
                        self.known_hits.append(("orphan-newer-manifest", cid, parts[0]))
                    else:
                        bad = "crash image %s: directory after recovery is not exactly the needed files: %s / after reopen: %s" % (parts[0], dir1, dir2)
                        break
            if bad:
                prop.append({"case": c, "impl": lib.trunc(il, 1500), "spec": lib.trunc(";".join(scans), 800), "model": "", "detail": bad})
        return corr, prop


def known_dir(d):
    """KNOWN FINDING orphan-newer-manifest: the only surplus files are manifests with a number
    greater than the current manifest's (left by a crash while a new manifest was being written,
    then the older manifest was reused): remove_obsolete_files only deletes smaller numbers."""
    import re
    m = re.fullmatch(r"extra\[([^\]]*)\]missing\[\]cur\[man=(\d+);wal=\d+;live=\d+\]", d)
    if not m:
        return False
    cur = int(m.group(2))
    names = [x for x in m.group(1).split(";") if x]
    if not names:
        return False
    for nme in names:
        mm = re.fullmatch(r"MANIFEST-(\d+)\.manifest", nme)
        if not mm or int(mm.group(1)) <= cur:
            return False
    return True


def narrow_points(case, detail):
    """replace the crash points of a failing case by the single failing image"""
    import re
    m = re.search(r"crash image (\d+)\.(\S+?)[ :(]", detail)
    if not m:
        return case
    head, post, pts = case.split(" # ")
    extra = ",torn" if m.group(2).split(".")[0] != "-" else ""
    return "%s # %s # list:%s%s" % (head, post, m.group(1), extra)


def still_fails(case, workdir, want):
    parts = case.split(" # ")
    if len(parts) != 3 or len(parts[1].split(" ")[0].split(":")) != 4 or len(parts[0].split(" ")) < 2:
        return False
    s = CrashSuite([case], want)
    corr, prop = s.execute(workdir, tag="sh")
    return any("crash image" in p.get("detail", "") for p in prop)


def shrink(case, workdir, want, budget=60):
    """remove history tokens one at a time, keeping options, post phase and crash point spec; the
    crash point is re-searched (all points) after every removal because indices shift"""
    head, post, pts = case.split(" # ")
    toks = head.split(" ")
    fixed, body = toks[:2], toks[2:]
    torn = ",torn" if "torn" in pts else ""

    def fails(b):
        c = "%s # %s # all%s" % (" ".join(fixed + b), post, torn)
        s = CrashSuite([c], want)
        corr, prop = s.execute(workdir, tag="sh")
        for p in prop:
            if "crash image" in p.get("detail", ""):
                return narrow_points(c, p["detail"]), p["detail"]
        return None

    import os, time
    deadline = time.time() + int(os.environ.get("VERIF_SHRINK_SECS", "150"))
    best = None
    runs = 0
    changed = True
    while changed and runs < budget and time.time() < deadline:
        changed = False
        i = 0
        while i < len(body) and runs < budget and time.time() < deadline:
            cand = body[:i] + body[i + 1:]
            runs += 1
            r = fails(cand)
            if r:
                body = cand
                best = r
                changed = True
            else:
                i += 1
    if best:
        return best
    r = fails(body)
    return r if r else (case, "")
