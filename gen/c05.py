"""C05 — concurrent operations are linearizable: no lost, stale or phantom reads."""
from gen import lib, sched

PROP_FILE = "props/C05.v"
FAMILIES = {"reader", "writer", "group", "bg", "walgc", "waiters"}
RULE = ("sched (Tier A pause-point schedules): one thread is parked at a scheduling point where it "
        "does not hold the database mutex (reader: between releasing the mutex and reading; writer: "
        "before the WAL append, after it, between memtable inserts, after the inserts; background "
        "thread: while building a flush table, before deleting obsolete files, before the manifest "
        "append, inside the compaction loop) while the main thread runs writes, flushes, compactions "
        "and reads to completion; queued writers for group commit. Oracle: every read must equal the "
        "value in some linearization of whole writes consistent with real time (a write that ended "
        "before the read started is visible unless superseded; nothing from a write that started "
        "after the read ended); scans and snapshot reads must be explained by one cut. Non-trivial: a "
        "schedule in which the armed thread actually parked; distinct by sha1.")
TRUSTED = ["scheduling hooks (cfg raindb_verif) at the places where the database mutex is released; interleavings below that granularity (atomics, ArcSwap, skiplist internals) are assumed sequentially consistent"]
ASSUMPTIONS = ["at most one parked thread plus queued writers per schedule (Tier A)"]


def corpus():
    import os
    d = os.path.join(lib.VERIF, "corpus", PROP_FILE[6:9])
    res = []
    if os.path.isdir(d):
        for f in sorted(os.listdir(d)):
            res += [l.strip() for l in open(os.path.join(d, f)) if l.strip() and not l.startswith("#")]
    return res


def suites(tier, seed, rng):
    return [sched.SchedSuite(corpus() + sched.gen_cases(tier, rng, FAMILIES))]


def replay_suites(rp):
    return [sched.SchedSuite([rp["case"]])]


def still_fails(suite, case, workdir):
    return sched.still_fails(case, workdir)


def nontrivial(suite, case):
    return " A" in case and " T" in case


def classify(suite, case):
    import re
    m = re.search(r" A\w+:([\w:]+)", case)
    return "sched:" + (m.group(1) if m else "none")
