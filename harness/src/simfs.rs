//! SimFs: an in-memory, POSIX-like implementation of the public `raindb::fs::FileSystem` trait
//! owned by the harness. Per-handle cursors, O_APPEND semantics, unlinked files stay readable
//! through open handles. It records the totally ordered stream of mutating operations (for
//! crash-prefix images), can inject failures by operation class/ordinal, and can rebuild a file
//! system image from a prefix of a recorded stream.
use std::collections::{BTreeMap, BTreeSet};
use std::io::{self, Read, Seek, SeekFrom, Write};
use std::path::{Path, PathBuf};
use std::sync::{Arc, Mutex};

use raindb::fs::{
    FileLock, FileSystem, InMemoryFileSystem, RandomAccessFile, ReadonlyRandomAccessFile,
};

#[derive(Clone, Debug, PartialEq, Eq)]
pub enum FsOp {
    /// create or truncate (append=false) / create-if-missing (append=true)
    Create { path: PathBuf, append: bool },
    Write { path: PathBuf, data: Vec<u8> },
    Rename { from: PathBuf, to: PathBuf },
    Remove { path: PathBuf },
    RemoveDirAll { path: PathBuf },
}

impl FsOp {
    pub fn class(&self) -> &'static str {
        match self {
            FsOp::Create { .. } => "create",
            FsOp::Write { .. } => "write",
            FsOp::Rename { .. } => "rename",
            FsOp::Remove { .. } => "remove",
            FsOp::RemoveDirAll { .. } => "rmdir",
        }
    }
    pub fn path(&self) -> &Path {
        match self {
            FsOp::Create { path, .. } => path,
            FsOp::Write { path, .. } => path,
            FsOp::Rename { to, .. } => to,
            FsOp::Remove { path } => path,
            FsOp::RemoveDirAll { path } => path,
        }
    }
}

/// Which call to fail: the `ordinal`-th (0-based) call whose class string equals `class`
/// (classes: create, write, rename, remove, open, size, list) and whose path contains `path_part`.
#[derive(Clone, Debug)]
pub struct FaultPlan {
    pub class: String,
    pub path_part: String,
    pub ordinal: usize,
    pub sticky: bool,
    /// for a failing `write`: this many bytes of the buffer reach the file before the call fails
    pub partial: usize,
}

type Inode = Arc<Mutex<Vec<u8>>>;

#[derive(Default)]
pub struct SimState {
    pub files: BTreeMap<PathBuf, Inode>,
    pub dirs: BTreeSet<PathBuf>,
    pub oplog: Vec<FsOp>,
    pub recording: bool,
    pub fault: Option<FaultPlan>,
    pub fault_seen: usize,
    pub fault_fired: usize,
    pub fault_armed: bool,
    /// every call is counted here by (class) for the evidence/statistics
    pub calls: BTreeMap<String, usize>,
    /// log of fault-relevant calls (class, path) when `trace_calls` is set
    pub trace_calls: bool,
    pub call_trace: Vec<(String, PathBuf)>,
}

#[derive(Clone)]
pub struct SimFs {
    pub st: Arc<Mutex<SimState>>,
    lockfs: Arc<InMemoryFileSystem>,
}

fn injected() -> io::Error {
    io::Error::new(io::ErrorKind::Other, "injected fault")
}

impl SimFs {
    pub fn new() -> Self {
        SimFs {
            st: Arc::new(Mutex::new(SimState {
                recording: true,
                ..Default::default()
            })),
            lockfs: Arc::new(InMemoryFileSystem::new()),
        }
    }

    /// Build an image by replaying `ops` on an empty file system. `torn`: if set, the last op
    /// (which must be a Write) is applied only with its first `torn` bytes.
    pub fn from_ops(ops: &[FsOp], torn: Option<usize>) -> Self {
        let fs = SimFs::new();
        {
            let mut st = fs.st.lock().unwrap();
            st.recording = false;
            let n = ops.len();
            for (i, op) in ops.iter().enumerate() {
                let mut op = op.clone();
                if i + 1 == n {
                    if let (Some(t), FsOp::Write { data, .. }) = (torn, &mut op) {
                        let t = t.min(data.len());
                        data.truncate(t);
                    }
                }
                apply_op(&mut st, &op);
            }
            st.recording = true;
        }
        fs
    }

    pub fn oplog(&self) -> Vec<FsOp> {
        self.st.lock().unwrap().oplog.clone()
    }

    pub fn clear_oplog(&self) {
        self.st.lock().unwrap().oplog.clear();
    }

    pub fn arm_fault(&self, plan: FaultPlan) {
        let mut st = self.st.lock().unwrap();
        st.fault = Some(plan);
        st.fault_seen = 0;
        st.fault_fired = 0;
        st.fault_armed = true;
    }

    pub fn disarm_fault(&self) -> usize {
        let mut st = self.st.lock().unwrap();
        st.fault_armed = false;
        st.fault = None;
        st.fault_fired
    }

    /// number of `list_dir` calls seen so far
    pub fn list_calls(&self) -> usize {
        self.st.lock().unwrap().calls.get("list").cloned().unwrap_or(0)
    }

    pub fn read_whole(&self, path: &Path) -> Option<Vec<u8>> {
        let st = self.st.lock().unwrap();
        st.files.get(path).map(|i| i.lock().unwrap().clone())
    }

    pub fn overwrite(&self, path: &Path, data: &[u8]) {
        let st = self.st.lock().unwrap();
        if let Some(i) = st.files.get(path) {
            *i.lock().unwrap() = data.to_vec();
        }
    }

    pub fn all_files(&self) -> Vec<(PathBuf, usize)> {
        let st = self.st.lock().unwrap();
        st.files
            .iter()
            .map(|(p, i)| (p.clone(), i.lock().unwrap().len()))
            .collect()
    }

    /// Deep copy of the current image (fresh op log).
    pub fn snapshot(&self) -> SimFs {
        let fs = SimFs::new();
        {
            let src = self.st.lock().unwrap();
            let mut dst = fs.st.lock().unwrap();
            for (p, i) in src.files.iter() {
                dst.files
                    .insert(p.clone(), Arc::new(Mutex::new(i.lock().unwrap().clone())));
            }
            dst.dirs = src.dirs.clone();
        }
        fs
    }
}

fn apply_op(st: &mut SimState, op: &FsOp) {
    match op {
        FsOp::Create { path, append } => {
            if *append && st.files.contains_key(path) {
                // nothing
            } else {
                st.files
                    .insert(path.clone(), Arc::new(Mutex::new(Vec::new())));
            }
        }
        FsOp::Write { path, data } => {
            if let Some(i) = st.files.get(path) {
                i.lock().unwrap().extend_from_slice(data);
            }
        }
        FsOp::Rename { from, to } => {
            if let Some(i) = st.files.remove(from) {
                st.files.insert(to.clone(), i);
            }
        }
        FsOp::Remove { path } => {
            st.files.remove(path);
        }
        FsOp::RemoveDirAll { path } => {
            let keys: Vec<PathBuf> = st
                .files
                .keys()
                .filter(|k| k.starts_with(path))
                .cloned()
                .collect();
            for k in keys {
                st.files.remove(&k);
            }
        }
    }
}

impl SimState {
    /// Returns Err if a fault is to be injected for this call.
    fn gate(&mut self, class: &str, path: &Path) -> io::Result<()> {
        *self.calls.entry(class.to_string()).or_insert(0) += 1;
        if self.trace_calls {
            self.call_trace.push((class.to_string(), path.to_path_buf()));
        }
        if !self.fault_armed {
            return Ok(());
        }
        let plan = match &self.fault {
            Some(p) => p.clone(),
            None => return Ok(()),
        };
        if plan.class != class || !path.to_string_lossy().contains(&plan.path_part) {
            return Ok(());
        }
        let idx = self.fault_seen;
        self.fault_seen += 1;
        let fire = if plan.sticky {
            idx >= plan.ordinal
        } else {
            idx == plan.ordinal
        };
        if fire {
            self.fault_fired += 1;
            return Err(injected());
        }
        Ok(())
    }

    fn log(&mut self, op: FsOp) {
        if self.recording {
            self.oplog.push(op);
        }
    }
}

pub struct SimFile {
    fs: Arc<Mutex<SimState>>,
    inode: Inode,
    path: PathBuf,
    cursor: usize,
    append: bool,
    writable: bool,
}

impl Read for SimFile {
    fn read(&mut self, buf: &mut [u8]) -> io::Result<usize> {
        let data = self.inode.lock().unwrap();
        if self.cursor >= data.len() {
            return Ok(0);
        }
        let n = buf.len().min(data.len() - self.cursor);
        buf[..n].copy_from_slice(&data[self.cursor..self.cursor + n]);
        self.cursor += n;
        Ok(n)
    }
}

impl Seek for SimFile {
    fn seek(&mut self, pos: SeekFrom) -> io::Result<u64> {
        let len = self.inode.lock().unwrap().len() as i64;
        let target = match pos {
            SeekFrom::Start(o) => o as i64,
            SeekFrom::Current(o) => self.cursor as i64 + o,
            SeekFrom::End(o) => len + o,
        };
        if target < 0 {
            return Err(io::Error::new(io::ErrorKind::InvalidInput, "negative seek"));
        }
        self.cursor = target as usize;
        Ok(target as u64)
    }
}

impl SimFile {
    fn do_write(&mut self, buf: &[u8], at_end: bool) -> io::Result<usize> {
        if !self.writable {
            return Err(io::Error::new(io::ErrorKind::PermissionDenied, "read-only"));
        }
        if buf.is_empty() {
            return Ok(0);
        }
        let mut st = self.fs.lock().unwrap();
        if let Err(e) = st.gate("write", &self.path) {
            let p = st.fault.as_ref().map(|f| f.partial).unwrap_or(0).min(buf.len());
            if p > 0 {
                let mut data = self.inode.lock().unwrap();
                if at_end || self.append || self.cursor >= data.len() {
                    data.extend_from_slice(&buf[..p]);
                    self.cursor = data.len();
                    drop(data);
                    st.log(FsOp::Write {
                        path: self.path.clone(),
                        data: buf[..p].to_vec(),
                    });
                }
            }
            return Err(e);
        }
        let mut data = self.inode.lock().unwrap();
        if at_end || self.append {
            self.cursor = data.len();
        }
        if self.cursor > data.len() {
            data.resize(self.cursor, 0);
        }
        if self.cursor == data.len() {
            data.extend_from_slice(buf);
        } else {
            // overwrite in place (not used by raindb: logged as a write of the tail for replay)
            let end = self.cursor + buf.len();
            if end > data.len() {
                data.resize(end, 0);
            }
            data[self.cursor..end].copy_from_slice(buf);
        }
        self.cursor += buf.len();
        drop(data);
        st.log(FsOp::Write {
            path: self.path.clone(),
            data: buf.to_vec(),
        });
        Ok(buf.len())
    }
}

impl Write for SimFile {
    fn write(&mut self, buf: &[u8]) -> io::Result<usize> {
        self.do_write(buf, false)
    }
    fn flush(&mut self) -> io::Result<()> {
        Ok(())
    }
}

impl ReadonlyRandomAccessFile for SimFile {
    fn read_from(&self, buf: &mut [u8], offset: usize) -> io::Result<usize> {
        let data = self.inode.lock().unwrap();
        if offset >= data.len() {
            return Ok(0);
        }
        let n = buf.len().min(data.len() - offset);
        buf[..n].copy_from_slice(&data[offset..offset + n]);
        Ok(n)
    }
    fn len(&self) -> io::Result<u64> {
        // the size query on a handle opened for appending (a log that is being reused) is a
        // fault position of class `size`; sizes of read handles are not gated
        if self.writable && self.append {
            self.fs.lock().unwrap().gate("size", &self.path)?;
        }
        Ok(self.inode.lock().unwrap().len() as u64)
    }
}

impl RandomAccessFile for SimFile {
    fn append(&mut self, buf: &[u8]) -> io::Result<usize> {
        self.do_write(buf, true)
    }
}

impl FileSystem for SimFs {
    fn get_name(&self) -> String {
        "SimFs".to_string()
    }

    fn create_dir(&self, path: &Path) -> io::Result<()> {
        let mut st = self.st.lock().unwrap();
        st.dirs.insert(path.to_path_buf());
        Ok(())
    }

    fn create_dir_all(&self, path: &Path) -> io::Result<()> {
        let mut st = self.st.lock().unwrap();
        let mut p = path.to_path_buf();
        loop {
            st.dirs.insert(p.clone());
            if !p.pop() || p.as_os_str().is_empty() {
                break;
            }
        }
        Ok(())
    }

    fn list_dir(&self, path: &Path) -> io::Result<Vec<PathBuf>> {
        let mut st = self.st.lock().unwrap();
        st.gate("list", path)?;
        let mut out: BTreeSet<PathBuf> = BTreeSet::new();
        for k in st.files.keys().chain(st.dirs.iter()) {
            if k == path {
                continue;
            }
            if let Ok(rel) = k.strip_prefix(path) {
                if let Some(first) = rel.components().next() {
                    out.insert(path.join(first));
                }
            }
        }
        Ok(out.into_iter().collect())
    }

    fn open_file(&self, path: &Path) -> io::Result<Box<dyn ReadonlyRandomAccessFile>> {
        let mut st = self.st.lock().unwrap();
        st.gate("open", path)?;
        match st.files.get(path) {
            Some(i) => Ok(Box::new(SimFile {
                fs: Arc::clone(&self.st),
                inode: Arc::clone(i),
                path: path.to_path_buf(),
                cursor: 0,
                append: false,
                writable: false,
            })),
            None => Err(io::Error::new(
                io::ErrorKind::NotFound,
                format!("no such file {}", path.to_string_lossy()),
            )),
        }
    }

    fn rename(&self, from: &Path, to: &Path) -> io::Result<()> {
        let mut st = self.st.lock().unwrap();
        st.gate("rename", to)?;
        match st.files.remove(from) {
            Some(i) => {
                st.files.insert(to.to_path_buf(), i);
                st.log(FsOp::Rename {
                    from: from.to_path_buf(),
                    to: to.to_path_buf(),
                });
                Ok(())
            }
            None => Err(io::Error::new(io::ErrorKind::NotFound, "rename: no such file")),
        }
    }

    fn create_file(&self, path: &Path, append: bool) -> io::Result<Box<dyn RandomAccessFile>> {
        let mut st = self.st.lock().unwrap();
        st.gate("create", path)?;
        let inode = if append && st.files.contains_key(path) {
            Arc::clone(st.files.get(path).unwrap())
        } else {
            let i: Inode = Arc::new(Mutex::new(Vec::new()));
            st.files.insert(path.to_path_buf(), Arc::clone(&i));
            i
        };
        st.log(FsOp::Create {
            path: path.to_path_buf(),
            append,
        });
        let cursor = inode.lock().unwrap().len();
        Ok(Box::new(SimFile {
            fs: Arc::clone(&self.st),
            inode,
            path: path.to_path_buf(),
            cursor: if append { cursor } else { 0 },
            append,
            writable: true,
        }))
    }

    fn remove_file(&self, path: &Path) -> io::Result<()> {
        let mut st = self.st.lock().unwrap();
        st.gate("remove", path)?;
        match st.files.remove(path) {
            Some(_) => {
                st.log(FsOp::Remove {
                    path: path.to_path_buf(),
                });
                Ok(())
            }
            None => Err(io::Error::new(io::ErrorKind::NotFound, "remove: no such file")),
        }
    }

    fn remove_dir(&self, path: &Path) -> io::Result<()> {
        let mut st = self.st.lock().unwrap();
        if st.files.keys().any(|k| k.starts_with(path)) {
            return Err(io::Error::new(
                io::ErrorKind::InvalidInput,
                "directory not empty",
            ));
        }
        st.dirs.remove(path);
        Ok(())
    }

    fn remove_dir_all(&self, path: &Path) -> io::Result<()> {
        let mut st = self.st.lock().unwrap();
        let op = FsOp::RemoveDirAll {
            path: path.to_path_buf(),
        };
        apply_op(&mut st, &op);
        let dirs: Vec<PathBuf> = st
            .dirs
            .iter()
            .filter(|d| d.starts_with(path))
            .cloned()
            .collect();
        for d in dirs {
            st.dirs.remove(&d);
        }
        st.log(op);
        Ok(())
    }

    fn get_file_size(&self, path: &Path) -> io::Result<u64> {
        let mut st = self.st.lock().unwrap();
        st.gate("size", path)?;
        match st.files.get(path) {
            Some(i) => Ok(i.lock().unwrap().len() as u64),
            None => Err(io::Error::new(io::ErrorKind::NotFound, "size: no such file")),
        }
    }

    fn is_dir(&self, path: &Path) -> io::Result<bool> {
        let st = self.st.lock().unwrap();
        if st.files.contains_key(path) {
            return Ok(false);
        }
        Ok(st.dirs.contains(path) || st.files.keys().any(|k| k.starts_with(path)))
    }

    fn lock_file(&self, path: &Path) -> io::Result<FileLock> {
        // `UnlockableFile` is not re-exported by raindb: delegate to its in-memory file system,
        // whose lock always succeeds. The LOCK file is also made visible in this image.
        {
            let mut st = self.st.lock().unwrap();
            if !st.files.contains_key(path) {
                st.files
                    .insert(path.to_path_buf(), Arc::new(Mutex::new(Vec::new())));
            }
        }
        self.lockfs.lock_file(path)
    }
}
