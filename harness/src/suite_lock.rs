//! Suite `lock`: ownership of a database directory on a disk-backed file system (real flock).
//!
//! case: <id> step step ...
//!   O<h>      open a handle named <h> (main thread)
//!   X<h>      close handle <h>
//!   D         destroy_database
//!   P<h>:<k>=<v>   put through handle <h>     G<h>:<k>   get through handle <h>
//!   R<n>      n threads race to open; report the number of successes; the winners are closed
//!   Q<n>      n threads race to open while one thread calls destroy_database
//!   E         start destroy_database on a thread; it parks right before it removes the LOCK file
//!   F         let it go on; it parks right before it removes the database directory
//!   H         let it finish and report its result
//!   Y<h>      like Z, but the handle's compaction thread is parked inside the merge loop of a table
//!             compaction that follows a flush (hook point compact:loop)
//!   I<h>      start DB::open for handle <h> on a thread; it parks inside FileSystem::lock_file between
//!             opening the LOCK file and locking it (hook point lock:after_open)
//!   L<h>      let that open go on and report its result
//!   Z<h>      close handle <h> while its background thread is parked inside the creation of a
//!             table file (a flush is provoked first); every open attempted before the close has
//!             returned must be refused
use std::collections::HashMap;
use std::sync::{Arc, Barrier};

use std::io;
use std::path::{Path, PathBuf};
use std::sync::{Condvar, Mutex};
use std::time::{Duration, Instant};

use raindb::fs::{FileLock, FileSystem, RandomAccessFile, ReadonlyRandomAccessFile, TmpFileSystem};
use raindb::{DbOptions, ReadOptions, WriteOptions, DB};

use crate::suite_db::err_class;
use crate::util::*;

/// A disk-backed file system on which the thread named `case-lock-destroyer` parks before it
/// removes the LOCK file (gate 1) and before it removes the database directory (gate 2).
struct GatedFs {
    inner: TmpFileSystem,
    st: Mutex<(u8, u8)>, // (gate the destroyer is parked at, gates released so far)
    cv: Condvar,
    rdb: Mutex<(bool, bool, bool)>, // table creation gate: (armed, a thread is parked, released)
    rdb_cv: Condvar,
}

impl GatedFs {
    fn park(&self, gate: u8) {
        if std::thread::current().name() != Some("case-lock-destroyer") {
            return;
        }
        let mut st = self.st.lock().unwrap();
        st.0 = gate;
        self.cv.notify_all();
        let deadline = Instant::now() + Duration::from_secs(60);
        while st.1 < gate && Instant::now() < deadline {
            st = self.cv.wait_timeout(st, Duration::from_millis(100)).unwrap().0;
        }
        st.0 = 0;
        self.cv.notify_all();
    }
    fn release(&self, gate: u8) {
        let mut st = self.st.lock().unwrap();
        st.1 = gate;
        self.cv.notify_all();
    }
    fn reset(&self) {
        *self.st.lock().unwrap() = (0, 0);
    }
    /// wait until the destroyer is parked at `gate` or `done` says it has finished
    fn wait_parked(&self, gate: u8, done: &dyn Fn() -> bool) -> bool {
        let deadline = Instant::now() + Duration::from_secs(20);
        loop {
            if self.st.lock().unwrap().0 == gate {
                return true;
            }
            if done() || Instant::now() > deadline {
                return false;
            }
            std::thread::sleep(Duration::from_micros(200));
        }
    }
}

impl FileSystem for GatedFs {
    fn get_name(&self) -> String {
        "GatedFs".to_string()
    }
    fn create_dir(&self, path: &Path) -> io::Result<()> {
        self.inner.create_dir(path)
    }
    fn create_dir_all(&self, path: &Path) -> io::Result<()> {
        self.inner.create_dir_all(path)
    }
    fn list_dir(&self, path: &Path) -> io::Result<Vec<PathBuf>> {
        self.inner.list_dir(path)
    }
    fn open_file(&self, path: &Path) -> io::Result<Box<dyn ReadonlyRandomAccessFile>> {
        self.inner.open_file(path)
    }
    fn rename(&self, from: &Path, to: &Path) -> io::Result<()> {
        self.inner.rename(from, to)
    }
    fn create_file(&self, path: &Path, append: bool) -> io::Result<Box<dyn RandomAccessFile>> {
        if path.extension().map(|e| e == "rdb").unwrap_or(false) {
            let mut g = self.rdb.lock().unwrap();
            if g.0 && !g.1 {
                g.1 = true;
                self.rdb_cv.notify_all();
                let deadline = Instant::now() + Duration::from_secs(30);
                while !g.2 && Instant::now() < deadline {
                    g = self.rdb_cv.wait_timeout(g, Duration::from_millis(50)).unwrap().0;
                }
                g.0 = false;
            }
        }
        self.inner.create_file(path, append)
    }
    fn remove_file(&self, path: &Path) -> io::Result<()> {
        if path.file_name().map(|n| n == "LOCK").unwrap_or(false) {
            self.park(1);
        }
        self.inner.remove_file(path)
    }
    fn remove_dir(&self, path: &Path) -> io::Result<()> {
        self.park(2);
        self.inner.remove_dir(path)
    }
    fn remove_dir_all(&self, path: &Path) -> io::Result<()> {
        self.inner.remove_dir_all(path)
    }
    fn get_file_size(&self, path: &Path) -> io::Result<u64> {
        self.inner.get_file_size(path)
    }
    fn is_dir(&self, path: &Path) -> io::Result<bool> {
        self.inner.is_dir(path)
    }
    fn lock_file(&self, path: &Path) -> io::Result<FileLock> {
        self.inner.lock_file(path)
    }
}

fn options(fs: &Arc<dyn FileSystem>) -> DbOptions {
    let mut o = DbOptions::with_memory_env();
    o.filesystem_provider = Arc::clone(fs);
    o.db_path = "lockdb".to_string();
    o.create_if_missing = true;
    o.max_memtable_size = 2048;
    o
}

pub fn run_lock(line: &str) -> String {
    let toks = split_nonempty(line, ' ');
    let id = toks[0];
    let gated = Arc::new(GatedFs {
        inner: TmpFileSystem::new(None),
        st: Mutex::new((0, 0)),
        cv: Condvar::new(),
        rdb: Mutex::new((false, false, false)),
        rdb_cv: Condvar::new(),
    });
    let fs: Arc<dyn FileSystem> = Arc::clone(&gated) as Arc<dyn FileSystem>;
    let mut destroyer: Option<std::thread::JoinHandle<bool>> = None;
    let mut dphase: u8 = 0; // gate the destroyer is parked at (0 = no destroyer running)
    // openers parked between opening and locking the LOCK file: thread name -> (parked, released)
    let openers: Arc<(Mutex<HashMap<String, (bool, bool)>>, Condvar)> = Arc::new((Mutex::new(HashMap::new()), Condvar::new()));
    // table compaction gate: (armed, the compaction thread is parked, released)
    let bgpark: Arc<(Mutex<(bool, bool, bool)>, Condvar)> = Arc::new((Mutex::new((false, false, false)), Condvar::new()));
    {
        let op2 = Arc::clone(&openers);
        let bg2 = Arc::clone(&bgpark);
        raindb::verif_hooks::sched::install(Arc::new(move |point: &'static str| {
            if point == "compact:loop" {
                // the compaction thread of a handle parks once inside the merge loop of a table
                // compaction when armed (step Y)
                let (m, cv) = &*bg2;
                let mut g = m.lock().unwrap();
                if g.0 && !g.1 {
                    g.1 = true;
                    cv.notify_all();
                    let deadline = Instant::now() + Duration::from_secs(30);
                    while !g.2 && Instant::now() < deadline {
                        g = cv.wait_timeout(g, Duration::from_millis(50)).unwrap().0;
                    }
                    g.0 = false;
                }
                return;
            }
            if point != "lock:after_open" {
                return;
            }
            let name = std::thread::current().name().unwrap_or("?").to_string();
            if !name.starts_with("case-lock-opener-") {
                return;
            }
            let (m, cv) = &*op2;
            let mut st = m.lock().unwrap();
            if st.get(&name).map(|x| x.0).unwrap_or(true) {
                return; // parks once only
            }
            st.insert(name.clone(), (true, false));
            cv.notify_all();
            let deadline = Instant::now() + Duration::from_secs(60);
            while !st.get(&name).map(|x| x.1).unwrap_or(true) && Instant::now() < deadline {
                st = cv.wait_timeout(st, Duration::from_millis(100)).unwrap().0;
            }
        }));
    }
    let mut pending: HashMap<String, std::thread::JoinHandle<Option<DB>>> = HashMap::new();
    let mut handles: HashMap<String, DB> = HashMap::new();
    let mut out: Vec<String> = vec![];
    for step in &toks[1..] {
        let body = &step[1..];
        match step.as_bytes()[0] {
            b'O' => match DB::open(options(&fs)) {
                Ok(db) => {
                    handles.insert(body.to_string(), db);
                    out.push("ok".to_string());
                }
                Err(_) => out.push("err".to_string()),
            },
            b'X' => match handles.remove(body) {
                Some(db) => {
                    drop(db);
                    out.push("ok".to_string());
                }
                None => out.push("nohandle".to_string()),
            },
            b'D' => match DB::destroy_database(options(&fs)) {
                Ok(()) => out.push("ok".to_string()),
                Err(_) => out.push("err".to_string()),
            },
            b'P' => {
                let i = body.find(':').unwrap();
                let j = body.find('=').unwrap();
                match handles.get(&body[..i]) {
                    None => out.push("nohandle".to_string()),
                    Some(db) => match db.put(WriteOptions::default(), parse_bytes(&body[i + 1..j]), parse_bytes(&body[j + 1..])) {
                        Ok(()) => out.push("ok".to_string()),
                        Err(e) => out.push(err_class(&e)),
                    },
                }
            }
            b'G' => {
                let i = body.find(':').unwrap();
                match handles.get(&body[..i]) {
                    None => out.push("nohandle".to_string()),
                    Some(db) => match db.get(ReadOptions::default(), &parse_bytes(&body[i + 1..])) {
                        Ok(v) => out.push(format!("v{}", hex(&v))),
                        Err(e) => out.push(err_class(&e)),
                    },
                }
            }
            b'R' | b'Q' => {
                let n: usize = body.parse().unwrap();
                let with_destroy = step.as_bytes()[0] == b'Q';
                let barrier = Arc::new(Barrier::new(n + with_destroy as usize));
                let mut ths = vec![];
                for t in 0..n {
                    let fs2 = Arc::clone(&fs);
                    let b2 = Arc::clone(&barrier);
                    ths.push(
                        std::thread::Builder::new()
                            .name(format!("case-lock-{}", t))
                            .spawn(move || {
                                b2.wait();
                                DB::open(options(&fs2)).ok()
                            })
                            .unwrap(),
                    );
                }
                let dth = if with_destroy {
                    let fs2 = Arc::clone(&fs);
                    let b2 = Arc::clone(&barrier);
                    Some(
                        std::thread::Builder::new()
                            .name("case-lock-d".to_string())
                            .spawn(move || {
                                b2.wait();
                                DB::destroy_database(options(&fs2)).is_ok()
                            })
                            .unwrap(),
                    )
                } else {
                    None
                };
                let mut winners: Vec<DB> = vec![];
                for th in ths {
                    if let Ok(Some(db)) = th.join() {
                        winners.push(db);
                    }
                }
                let destroyed = dth.map(|d| d.join().unwrap_or(false));
                // every winner must be usable
                let mut usable = true;
                for (i, db) in winners.iter().enumerate() {
                    if db.put(WriteOptions::default(), vec![0xfe, i as u8], vec![1]).is_err() {
                        usable = false;
                    }
                }
                out.push(format!(
                    "wins={}{}{}",
                    winners.len(),
                    match destroyed {
                        Some(true) => ",destroyed",
                        Some(false) => ",notdestroyed",
                        None => "",
                    },
                    if usable { "" } else { ",unusable" }
                ));
                winners.clear();
            }
            b'Z' => match handles.remove(body) {
                None => out.push("nohandle".to_string()),
                Some(db) => {
                    *gated.rdb.lock().unwrap() = (true, false, false);
                    // write until a flush has been started and its thread is parked in the creation
                    // of the table file (never more than one rotation: a second one would wait for
                    // the parked flush)
                    let mut wrote = true;
                    let mut parked = false;
                    for i in 0..6u8 {
                        if db.put(WriteOptions::default(), vec![0xfd, i], vec![i; 1500]).is_err() {
                            wrote = false;
                            break;
                        }
                        let deadline = Instant::now() + Duration::from_millis(if i >= 2 { 8000 } else { 50 });
                        while !gated.rdb.lock().unwrap().1 && Instant::now() < deadline {
                            std::thread::sleep(Duration::from_micros(200));
                        }
                        if gated.rdb.lock().unwrap().1 {
                            parked = true;
                            break;
                        }
                    }
                    let closer = std::thread::Builder::new()
                        .name("case-lock-closer".to_string())
                        .spawn(move || drop(db))
                        .unwrap();
                    // every open before the close has returned must be refused
                    let mut admitted = false;
                    let until = Instant::now() + Duration::from_millis(300);
                    while Instant::now() < until && !closer.is_finished() {
                        if let Ok(db2) = DB::open(options(&fs)) {
                            admitted = !closer.is_finished();
                            drop(db2);
                            break;
                        }
                        std::thread::sleep(Duration::from_millis(5));
                    }
                    {
                        let mut g = gated.rdb.lock().unwrap();
                        g.2 = true;
                        gated.rdb_cv.notify_all();
                    }
                    let _ = closer.join();
                    *gated.rdb.lock().unwrap() = (false, false, false);
                    out.push(if !wrote {
                        "write-failed".to_string()
                    } else if !parked {
                        "notparked".to_string()
                    } else if admitted {
                        "admitted".to_string()
                    } else {
                        "excluded".to_string()
                    });
                }
            },
            b'Y' => match handles.remove(body) {
                None => out.push("nohandle".to_string()),
                Some(db) => {
                    // overwrite the same keys until enough level-0 tables have piled up for a table
                    // compaction (the follow-up of a flush) and its thread is parked inside the
                    // merge loop; then close the handle: every open attempted before the close
                    // has returned must be refused
                    *bgpark.0.lock().unwrap() = (true, false, false);
                    let mut wrote = true;
                    let mut parked = false;
                    for i in 0..60u8 {
                        if db.put(WriteOptions::default(), vec![0xfc, i % 3], vec![i; 900]).is_err() {
                            wrote = false;
                            break;
                        }
                        let deadline = Instant::now() + Duration::from_millis(if i >= 20 { 300 } else { 20 });
                        while !bgpark.0.lock().unwrap().1 && Instant::now() < deadline {
                            std::thread::sleep(Duration::from_micros(200));
                        }
                        if bgpark.0.lock().unwrap().1 {
                            parked = true;
                            break;
                        }
                    }
                    let closer = std::thread::Builder::new()
                        .name("case-lock-closer".to_string())
                        .spawn(move || drop(db))
                        .unwrap();
                    let mut admitted = false;
                    let until = Instant::now() + Duration::from_millis(300);
                    while parked && Instant::now() < until && !closer.is_finished() {
                        if let Ok(db2) = DB::open(options(&fs)) {
                            admitted = !closer.is_finished();
                            drop(db2);
                            break;
                        }
                        std::thread::sleep(Duration::from_millis(5));
                    }
                    {
                        let (m, cv) = &*bgpark;
                        m.lock().unwrap().2 = true;
                        cv.notify_all();
                    }
                    let _ = closer.join();
                    *bgpark.0.lock().unwrap() = (false, false, false);
                    out.push(if !wrote {
                        "write-failed".to_string()
                    } else if !parked {
                        "notparked".to_string()
                    } else if admitted {
                        "admitted".to_string()
                    } else {
                        "excluded".to_string()
                    });
                }
            },
            b'I' => {
                let name = format!("case-lock-opener-{}", body);
                if pending.contains_key(body) || handles.contains_key(body) {
                    out.push("none".to_string());
                } else {
                    openers.0.lock().unwrap().insert(name.clone(), (false, false));
                    let fs2 = Arc::clone(&fs);
                    let th = std::thread::Builder::new()
                        .name(name.clone())
                        .spawn(move || DB::open(options(&fs2)).ok())
                        .unwrap();
                    let deadline = Instant::now() + Duration::from_secs(20);
                    loop {
                        if openers.0.lock().unwrap().get(&name).map(|x| x.0).unwrap_or(false) {
                            pending.insert(body.to_string(), th);
                            out.push("parked".to_string());
                            break;
                        }
                        if th.is_finished() || Instant::now() > deadline {
                            match th.join() {
                                Ok(Some(db)) => {
                                    handles.insert(body.to_string(), db);
                                    out.push("ok".to_string());
                                }
                                _ => out.push("err".to_string()),
                            }
                            break;
                        }
                        std::thread::sleep(Duration::from_micros(200));
                    }
                }
            }
            b'L' => match pending.remove(body) {
                None => out.push("none".to_string()),
                Some(th) => {
                    let name = format!("case-lock-opener-{}", body);
                    {
                        let (m, cv) = &*openers;
                        m.lock().unwrap().insert(name, (true, true));
                        cv.notify_all();
                    }
                    match th.join() {
                        Ok(Some(db)) => {
                            handles.insert(body.to_string(), db);
                            out.push("ok".to_string());
                        }
                        _ => out.push("err".to_string()),
                    }
                }
            },
            b'E' => {
                if destroyer.is_some() {
                    out.push("none".to_string());
                } else {
                    gated.reset();
                    let fs2 = Arc::clone(&fs);
                    let th = std::thread::Builder::new()
                        .name("case-lock-destroyer".to_string())
                        .spawn(move || DB::destroy_database(options(&fs2)).is_ok())
                        .unwrap();
                    if gated.wait_parked(1, &|| th.is_finished()) {
                        destroyer = Some(th);
                        dphase = 1;
                        out.push("parked".to_string());
                    } else {
                        out.push(if th.join().unwrap_or(false) { "ok".to_string() } else { "err".to_string() });
                    }
                }
            }
            b'F' => {
                if dphase != 1 {
                    // only a destroyer parked before the LOCK removal can take this step
                    out.push("none".to_string());
                } else {
                    let th = destroyer.take().unwrap();
                    gated.release(1);
                    if gated.wait_parked(2, &|| th.is_finished()) {
                        destroyer = Some(th);
                        dphase = 2;
                        out.push("parked".to_string());
                    } else {
                        dphase = 0;
                        out.push(if th.join().unwrap_or(false) { "ok".to_string() } else { "err".to_string() });
                    }
                }
            }
            b'H' => match destroyer.take() {
                None => out.push("none".to_string()),
                Some(th) => {
                    dphase = 0;
                    gated.release(2);
                    out.push(if th.join().unwrap_or(false) { "ok".to_string() } else { "err".to_string() });
                }
            },
            _ => panic!("bad step {}", step),
        }
    }
    if let Some(th) = destroyer.take() {
        gated.release(2);
        let _ = th.join();
    }
    {
        let (m, cv) = &*openers;
        for v in m.lock().unwrap().values_mut() {
            *v = (true, true);
        }
        cv.notify_all();
    }
    for (_, th) in pending.drain() {
        let _ = th.join();
    }
    raindb::verif_hooks::sched::uninstall();
    handles.clear();
    format!("{} {}", id, out.join(" "))
}
