//! Suite `lock`: ownership of a database directory on a disk-backed file system (real flock).
//!
//! case: <id> step step ...
//!   O<h>      open a handle named <h> (main thread)
//!   X<h>      close handle <h>
//!   D         destroy_database
//!   P<h>:<k>=<v>   put through handle <h>     G<h>:<k>   get through handle <h>
//!   R<n>      n threads race to open; report the number of successes; the winners are closed
//!   Q<n>      n threads race to open while one thread calls destroy_database
use std::collections::HashMap;
use std::sync::{Arc, Barrier};

use raindb::fs::{FileSystem, TmpFileSystem};
use raindb::{DbOptions, ReadOptions, WriteOptions, DB};

use crate::suite_db::err_class;
use crate::util::*;

fn options(fs: &Arc<dyn FileSystem>) -> DbOptions {
    let mut o = DbOptions::with_memory_env();
    o.filesystem_provider = Arc::clone(fs);
    o.db_path = "lockdb".to_string();
    o.create_if_missing = true;
    o
}

pub fn run_lock(line: &str) -> String {
    let toks = split_nonempty(line, ' ');
    let id = toks[0];
    let fs: Arc<dyn FileSystem> = Arc::new(TmpFileSystem::new(None));
    let mut handles: HashMap<String, DB> = HashMap::new();
    let mut out: Vec<String> = vec![];
    for step in &toks[1..] {
        let body = &step[1..];
        match step.as_bytes()[0] {
            b'O' => match DB::open(options(&fs)) {
                Ok(db) => {
                    handles.insert(body.to_string(), db);
                    out.push("ok".to_string());
                }
                Err(_) => out.push("err".to_string()),
            },
            b'X' => match handles.remove(body) {
                Some(db) => {
                    drop(db);
                    out.push("ok".to_string());
                }
                None => out.push("nohandle".to_string()),
            },
            b'D' => match DB::destroy_database(options(&fs)) {
                Ok(()) => out.push("ok".to_string()),
                Err(_) => out.push("err".to_string()),
            },
            b'P' => {
                let i = body.find(':').unwrap();
                let j = body.find('=').unwrap();
                match handles.get(&body[..i]) {
                    None => out.push("nohandle".to_string()),
                    Some(db) => match db.put(WriteOptions::default(), parse_bytes(&body[i + 1..j]), parse_bytes(&body[j + 1..])) {
                        Ok(()) => out.push("ok".to_string()),
                        Err(e) => out.push(err_class(&e)),
                    },
                }
            }
            b'G' => {
                let i = body.find(':').unwrap();
                match handles.get(&body[..i]) {
                    None => out.push("nohandle".to_string()),
                    Some(db) => match db.get(ReadOptions::default(), &parse_bytes(&body[i + 1..])) {
                        Ok(v) => out.push(format!("v{}", hex(&v))),
                        Err(e) => out.push(err_class(&e)),
                    },
                }
            }
            b'R' | b'Q' => {
                let n: usize = body.parse().unwrap();
                let with_destroy = step.as_bytes()[0] == b'Q';
                let barrier = Arc::new(Barrier::new(n + with_destroy as usize));
                let mut ths = vec![];
                for t in 0..n {
                    let fs2 = Arc::clone(&fs);
                    let b2 = Arc::clone(&barrier);
                    ths.push(
                        std::thread::Builder::new()
                            .name(format!("case-lock-{}", t))
                            .spawn(move || {
                                b2.wait();
                                DB::open(options(&fs2)).ok()
                            })
                            .unwrap(),
                    );
                }
                let dth = if with_destroy {
                    let fs2 = Arc::clone(&fs);
                    let b2 = Arc::clone(&barrier);
                    Some(
                        std::thread::Builder::new()
                            .name("case-lock-d".to_string())
                            .spawn(move || {
                                b2.wait();
                                DB::destroy_database(options(&fs2)).is_ok()
                            })
                            .unwrap(),
                    )
                } else {
                    None
                };
                let mut winners: Vec<DB> = vec![];
                for th in ths {
                    if let Ok(Some(db)) = th.join() {
                        winners.push(db);
                    }
                }
                let destroyed = dth.map(|d| d.join().unwrap_or(false));
                // every winner must be usable
                let mut usable = true;
                for (i, db) in winners.iter().enumerate() {
                    if db.put(WriteOptions::default(), vec![0xfe, i as u8], vec![1]).is_err() {
                        usable = false;
                    }
                }
                out.push(format!(
                    "wins={}{}{}",
                    winners.len(),
                    match destroyed {
                        Some(true) => ",destroyed",
                        Some(false) => ",notdestroyed",
                        None => "",
                    },
                    if usable { "" } else { ",unusable" }
                ));
                winners.clear();
            }
            _ => panic!("bad step {}", step),
        }
    }
    handles.clear();
    format!("{} {}", id, out.join(" "))
}
