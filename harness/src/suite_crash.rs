//! Suite `crash`: every prefix of the recorded stream of mutating file operations is a crash
//! image; each image is reopened, scanned, written to, cleanly reopened and scanned again.
//!
//! case: <id> <cfg> <history tokens...> # <post cfg> <post tokens...> # <points>
//!   points: all | step:<k> | list:<n1,n2,..>      (+ optional ",torn" and ",nested:<m>")
//! output: <id> W=<s0:e0:ack,...> N=<oplog len> then one field per crash image:
//!   <n>.<torn>[.<nested m>]|<open result>|<scan after recovery>|<post results>|<scan after clean reopen>|<dir check>
use std::path::PathBuf;

use crate::simfs::{FsOp, SimFs};
use crate::suite_db::{parse_cfg, Session};
use crate::util::*;

/// raw facts of every directory check of the current case, for the model-side judgement
pub static LAST_DIR_FACTS: std::sync::Mutex<Vec<String>> = std::sync::Mutex::new(Vec::new());

/// directory check after quiescence: the files on disk are exactly CURRENT, LOCK, the current
/// manifest, the live WAL(s) and the tables of the current version
pub fn dir_check(sess: &Session) -> String {
    let d = sess.db().verif_dump();
    let mut expected: Vec<String> = vec![
        "db/CURRENT".to_string(),
        "db/LOCK".to_string(),
        format!("db/MANIFEST-{}.manifest", d.manifest_file_number),
        format!("db/wal/wal-{}.log", d.curr_wal_number),
    ];
    for files in d.levels.iter() {
        for f in files {
            expected.push(format!("db/data/{}.rdb", f.0));
        }
    }
    expected.sort();
    let mut actual: Vec<String> = sess
        .sim
        .all_files()
        .into_iter()
        .map(|(p, _)| p.to_string_lossy().to_string())
        .collect();
    actual.sort();
    // an iterator was released and remove_obsolete_files has not run since (it lists the directories)
    let released_no_gc = sess.lists_at_release.map(|n| n == sess.sim.list_calls()).unwrap_or(false);
    let facts = format!(
        "D[{}]G[{}|{}|{}|{}|{}|{}]R[{}]",
        actual.iter().map(|s| s.replace("db/", "")).collect::<Vec<_>>().join(";"),
        d.live_versions.iter().flatten().map(|n| n.to_string()).collect::<Vec<_>>().join(";"),
        d.tables_in_use.iter().map(|n| n.to_string()).collect::<Vec<_>>().join(";"),
        d.version_set_wal_number,
        d.prev_wal_number.map(|n| n.to_string()).unwrap_or("-".to_string()),
        d.manifest_file_number,
        d.levels.iter().flatten().map(|f| f.0.to_string()).collect::<Vec<_>>().join(";"),
        released_no_gc as u8
    );
    if let Ok(mut g) = LAST_DIR_FACTS.lock() {
        g.push(facts);
    }
    if actual == expected {
        "exact".to_string()
    } else {
        let extra: Vec<&String> = actual.iter().filter(|a| !expected.contains(a)).collect();
        let missing: Vec<&String> = expected.iter().filter(|a| !actual.contains(a)).collect();
        format!(
            "extra[{}]missing[{}]cur[man={};wal={};live={}]",
            extra.iter().map(|s| s.replace("db/", "")).collect::<Vec<_>>().join(";"),
            missing.iter().map(|s| s.replace("db/", "")).collect::<Vec<_>>().join(";"),
            d.manifest_file_number,
            d.curr_wal_number,
            d.live_versions.len()
        )
    }
}

fn recover_and_check(
    image: SimFs,
    cfg: (usize, u64, usize, bool),
    post: &[&str],
) -> (String, Option<Vec<FsOp>>) {
    let mut sess = match Session::open(image.clone(), cfg) {
        Ok(s) => s,
        Err(e) => return (format!("open-{}|-|-|-|-", e), None),
    };
    sess.quiesce();
    let recovery_ops = image.oplog();
    let scan1 = sess.scan_all(None);
    let dir1 = dir_check(&sess);
    let mut post_res: Vec<String> = vec![];
    for t in post {
        post_res.push(sess.exec(t));
    }
    sess.quiesce();
    sess.close();
    // clean reopen with the same options
    let scan2 = match Session::open(image.clone(), cfg) {
        Ok(mut s2) => {
            s2.quiesce();
            let r = s2.scan_all(None);
            let d2 = dir_check(&s2);
            s2.close();
            format!("{}|{}", r, d2)
        }
        Err(e) => format!("open-{}|-", e),
    };
    (
        format!(
            "ok|{}|{}|{}|{}",
            scan1,
            if post_res.is_empty() { "-".to_string() } else { post_res.join(",") },
            scan2,
            dir1
        ),
        Some(recovery_ops),
    )
}

pub fn run_crash(line: &str) -> String {
    let parts: Vec<&str> = line.split(" # ").collect();
    let toks = split_nonempty(parts[0], ' ');
    let id = toks[0];
    let cfg = parse_cfg(toks[1]);
    let post_toks = split_nonempty(parts[1], ' ');
    let post_cfg = parse_cfg(post_toks[0]);
    let post: Vec<&str> = post_toks[1..].to_vec();
    let points_spec = parts[2].trim();

    let sim = SimFs::new();
    let mut sess = match Session::open(sim.clone(), cfg) {
        Ok(s) => s,
        Err(e) => return format!("{} open-{}", id, e),
    };
    let mut writes: Vec<String> = vec![];
    for op in &toks[2..] {
        let start = sim.oplog().len();
        let res = if sess.db.is_none() && op.as_bytes()[0] != b'O' {
            "closed".to_string()
        } else {
            sess.exec(op)
        };
        let end = sim.oplog().len();
        if matches!(op.as_bytes()[0], b'P' | b'D' | b'B') {
            writes.push(format!("{}:{}:{}", start, end, (res == "ok") as u8));
        }
    }
    if sess.db.is_some() {
        sess.quiesce();
    }
    sess.close();
    let oplog = sim.oplog();
    let n = oplog.len();

    // crash points
    let mut spec_parts = points_spec.split(',');
    let main = spec_parts.next().unwrap();
    let mut torn = false;
    let mut nested: usize = 0;
    for extra in spec_parts {
        if extra == "torn" {
            torn = true;
        } else if let Some(m) = extra.strip_prefix("nested:") {
            nested = m.parse().unwrap();
        }
    }
    let points: Vec<usize> = if main == "all" {
        (0..=n).collect()
    } else if let Some(k) = main.strip_prefix("step:") {
        let k: usize = k.parse().unwrap();
        let mut v: Vec<usize> = (0..=n).step_by(k.max(1)).collect();
        if *v.last().unwrap() != n {
            v.push(n);
        }
        v
    } else if let Some(l) = main.strip_prefix("list:") {
        l.split(';').filter(|x| !x.is_empty()).map(|x| x.parse::<usize>().unwrap().min(n)).collect()
    } else {
        panic!("bad points spec {}", points_spec)
    };

    let mut out: Vec<String> = vec![];
    for &p in &points {
        let mut variants: Vec<Option<usize>> = vec![None];
        if torn && p > 0 {
            if let FsOp::Write { data, path } = &oplog[p - 1] {
                let l = data.len();
                // a write that crosses a 32 KiB block boundary of the file (a log record emitted
                // as several fragments in one write) is also cut exactly at that boundary
                let mut cuts = vec![1usize, l / 2, l.saturating_sub(1)];
                if l > 4096 {
                    let before = SimFs::from_ops(&oplog[..p - 1], None).read_whole(path).map(|d| d.len()).unwrap_or(0);
                    cuts.push(32768 - before % 32768);
                }
                for t in cuts {
                    if t > 0 && t < l && !variants.contains(&Some(t)) {
                        variants.push(Some(t));
                    }
                }
            }
        }
        for v in variants {
            let image = SimFs::from_ops(&oplog[..p], v);
            let (res, rec_ops) = recover_and_check(image, post_cfg, &post);
            out.push(format!("{}.{}|{}", p, v.map(|x| x.to_string()).unwrap_or("-".to_string()), res));
            // crash during the recovery itself
            if nested > 0 {
                if let Some(rops) = rec_ops {
                    let rn = rops.len();
                    let stepn = (rn / nested).max(1);
                    let mut m = 1;
                    while m < rn {
                        let mut all: Vec<FsOp> = oplog[..p].to_vec();
                        if let (Some(t), Some(FsOp::Write { data, .. })) = (v, all.last_mut()) {
                            data.truncate(t);
                        }
                        all.extend_from_slice(&rops[..m]);
                        let image2 = SimFs::from_ops(&all, None);
                        let (res2, _) = recover_and_check(image2, post_cfg, &post);
                        out.push(format!("{}.{}.{}|{}", p, v.map(|x| x.to_string()).unwrap_or("-".to_string()), m, res2));
                        m += stepn;
                    }
                }
            }
        }
    }
    let _ = PathBuf::new();
    format!(
        "{} W={} N={} {}",
        id,
        if writes.is_empty() { "-".to_string() } else { writes.join(",") },
        n,
        out.join(" ")
    )
}

/// The directory image in the model's format:
/// IMG:C[<hex|->]M[<n>=<hex>;..]W[<n>=<hex>;..]T[<n>=<entries|unreadable>;..]X[<n>;..]O[other names]
pub fn image_str(image: &SimFs, cfg: (usize, u64, usize, bool)) -> String {
    use raindb::verif_hooks::tables as vt;
    let opts = crate::suite_db::make_options(image, cfg);
    let mut cur = "-".to_string();
    let mut ms: Vec<String> = vec![];
    let mut ws: Vec<String> = vec![];
    let mut ts: Vec<String> = vec![];
    let mut xs: Vec<String> = vec![];
    let mut other: Vec<String> = vec![];
    for (p, _) in image.all_files() {
        let name = p.to_string_lossy().to_string();
        let data = image.read_whole(&p).unwrap_or_default();
        let base = name.rsplit('/').next().unwrap_or("").to_string();
        if name == "db/CURRENT" {
            cur = format!("x{}", hex(&data));
        } else if name == "db/LOCK" {
        } else if let Some(n) = base.strip_prefix("MANIFEST-").and_then(|r| r.strip_suffix(".manifest")) {
            ms.push(format!("{}=x{}", n, hex(&data)));
        } else if let Some(n) = base.strip_prefix("wal-").and_then(|r| r.strip_suffix(".log")) {
            ws.push(format!("{}=x{}", n, hex(&data)));
        } else if let Some(n) = base.strip_suffix(".rdb") {
            let ent = |e: &(Vec<u8>, u64, u8, Vec<u8>)| format!("x{}:{}:{}:x{}", hex(&e.0), e.1, e.2, hex(&e.3));
            let entries = match vt::VTable::open(opts.clone(), &p) {
                Ok(t) => match t.layout() {
                    Ok(l) => {
                        let es: Vec<String> = l.into_iter().flat_map(|(_, _, es)| es).map(|e| ent(&e)).collect();
                        if es.is_empty() { "-".to_string() } else { es.join(",") }
                    }
                    Err(_) => "unreadable".to_string(),
                },
                Err(_) => "unreadable".to_string(),
            };
            ts.push(format!("{}={}", n, entries));
        } else if let Some(n) = base.strip_suffix(".dbtemp") {
            xs.push(n.to_string());
        } else {
            other.push(name.clone());
        }
    }
    format!(
        "IMG:C[{}]M[{}]W[{}]T[{}]X[{}]O[{}]",
        cur,
        ms.join(";"),
        ws.join(";"),
        ts.join(";"),
        xs.join(";"),
        other.join(";")
    )
}

/// Suite `recover`: same case format as `crash`; for every crash image the image itself (in the
/// model's format) and what the real `DB::open` recovers from it: result, last sequence number,
/// full scan.   output: <id> N=<oplog len> then per image  <n>.<torn>|<open result>|<seq>|<scan>|<IMG..>
pub fn run_recover(line: &str) -> String {
    let parts: Vec<&str> = line.split(" # ").collect();
    let toks = split_nonempty(parts[0], ' ');
    let id = toks[0];
    let cfg = parse_cfg(toks[1]);
    let post_toks = split_nonempty(parts[1], ' ');
    let post_cfg = parse_cfg(post_toks[0]);
    let points_spec = parts[2].trim();
    let sim = SimFs::new();
    let mut sess = match Session::open(sim.clone(), cfg) {
        Ok(s) => s,
        Err(e) => return format!("{} open-{}", id, e),
    };
    for op in &toks[2..] {
        if sess.db.is_none() && op.as_bytes()[0] != b'O' {
            continue;
        }
        sess.exec(op);
    }
    if sess.db.is_some() {
        sess.quiesce();
    }
    sess.close();
    let oplog = sim.oplog();
    let n = oplog.len();
    let mut spec_parts = points_spec.split(',');
    let main = spec_parts.next().unwrap();
    let torn = spec_parts.any(|e| e == "torn");
    let points: Vec<usize> = if main == "all" {
        (0..=n).collect()
    } else if let Some(k) = main.strip_prefix("step:") {
        let k: usize = k.parse().unwrap();
        let mut v: Vec<usize> = (0..=n).step_by(k.max(1)).collect();
        if *v.last().unwrap() != n {
            v.push(n);
        }
        v
    } else if let Some(l) = main.strip_prefix("list:") {
        l.split(';').filter(|x| !x.is_empty()).map(|x| x.parse::<usize>().unwrap().min(n)).collect()
    } else {
        panic!("bad points spec {}", points_spec)
    };
    let mut out: Vec<String> = vec![];
    for &p in &points {
        let mut variants: Vec<Option<usize>> = vec![None];
        if torn && p > 0 {
            if let FsOp::Write { data, path } = &oplog[p - 1] {
                let l = data.len();
                // a write that crosses a 32 KiB block boundary of the file (a log record emitted
                // as several fragments in one write) is also cut exactly at that boundary
                let mut cuts = vec![1usize, l / 2, l.saturating_sub(1)];
                if l > 4096 {
                    let before = SimFs::from_ops(&oplog[..p - 1], None).read_whole(path).map(|d| d.len()).unwrap_or(0);
                    cuts.push(32768 - before % 32768);
                }
                for t in cuts {
                    if t > 0 && t < l && !variants.contains(&Some(t)) {
                        variants.push(Some(t));
                    }
                }
            }
        }
        for v in variants {
            let image = SimFs::from_ops(&oplog[..p], v);
            let img = image_str(&image, post_cfg);
            let res = match Session::open(image.clone(), post_cfg) {
                Err(e) => format!("open-{}|-|-", e),
                Ok(mut s) => {
                    let seq = s.db().verif_dump().last_sequence;
                    s.quiesce();
                    let scan = s.scan_all(None);
                    s.close();
                    format!("ok|{}|{}", seq, scan)
                }
            };
            out.push(format!("{}.{}|{}|{}", p, v.map(|x| x.to_string()).unwrap_or("-".to_string()), res, img));
        }
    }
    format!("{} N={} {}", id, n, out.join(" "))
}

/// Suite `recoverc`: single-byte corruptions of CURRENT, manifests and write-ahead logs of a closed
/// database; for every mutated directory the image and what the real `DB::open` recovers from it.
/// case: <id> <cfg> <history tokens...> # <max mutations per file>
/// output: <id> then per mutation  <file>@<offset>:<new byte>|<open result>|<seq>|<scan>|<IMG..>
pub fn run_recover_corrupt(line: &str) -> String {
    let parts: Vec<&str> = line.split(" # ").collect();
    let toks = split_nonempty(parts[0], ' ');
    let id = toks[0];
    let cfg = parse_cfg(toks[1]);
    let max_per_file: usize = parts[1].trim().parse().unwrap();
    let sim = SimFs::new();
    let mut sess = match Session::open(sim.clone(), cfg) {
        Ok(s) => s,
        Err(e) => return format!("{} open-{}", id, e),
    };
    for op in &toks[2..] {
        if sess.db.is_none() && op.as_bytes()[0] != b'O' {
            continue;
        }
        sess.exec(op);
    }
    if sess.db.is_some() {
        sess.quiesce();
    }
    let last_cfg = sess.cfg;
    sess.close();
    let mut out: Vec<String> = vec![];
    let mut lcg: u64 = 777;
    for (path, len) in sim.all_files() {
        let name = path.to_string_lossy().to_string();
        if name.ends_with("LOCK") || name.ends_with(".rdb") || len == 0 {
            continue;
        }
        let mut offsets: Vec<usize> = vec![];
        if len <= max_per_file {
            offsets.extend(0..len);
        } else {
            let step = (len / max_per_file.max(1)).max(1);
            let mut o = 0;
            while o < len {
                offsets.push(o);
                o += step;
            }
            for t in 0..8.min(len) {
                offsets.push(len - 1 - t);
            }
        }
        let original = sim.read_whole(&path).unwrap();
        let mut muts: Vec<(usize, u8)> = vec![];
        for (i, off) in offsets.iter().enumerate() {
            lcg = (lcg * 1103515245 + 12345) & 0x7fff_ffff;
            let old = original[*off];
            let newb = match i % 4 {
                0 => old ^ (1 << ((lcg >> 8) & 7)),
                1 => 0,
                2 => 0xff,
                _ => ((lcg >> 16) & 255) as u8,
            };
            muts.push((*off, newb));
        }
        // directed: the type byte of every fragment of a log file set to every other valid type
        // (at most 48 fragments per file, the last ones first)
        if name.contains("wal-") || name.contains("MANIFEST") {
            let mut hs: Vec<usize> = vec![];
            let mut pos = 0usize;
            while pos + 7 <= original.len() {
                let in_block = pos % 32768;
                if 32768 - in_block < 7 {
                    pos += 32768 - in_block;
                    continue;
                }
                let flen = u16::from_le_bytes([original[pos + 4], original[pos + 5]]) as usize;
                hs.push(pos);
                pos += 7 + flen;
            }
            for h in hs.iter().rev().take(48) {
                for t in 0..4u8 {
                    muts.push((*h + 6, t));
                }
            }
        }
        for (off, newb) in muts.iter() {
            let newb = *newb;
            let old = original[*off];
            if newb == old {
                continue;
            }
            let mut data = original.clone();
            data[*off] = newb;
            let image = sim.snapshot();
            image.overwrite(&path, &data);
            let img = image_str(&image, last_cfg);
            let im2 = image.clone();
            let res = std::panic::catch_unwind(std::panic::AssertUnwindSafe(move || {
                match Session::open(im2, last_cfg) {
                    Err(e) => format!("open-{}|-|-", e),
                    Ok(mut s) => {
                        let seq = s.db().verif_dump().last_sequence;
                        s.quiesce();
                        let scan = s.scan_all(None);
                        s.close();
                        format!("ok|{}|{}", seq, scan)
                    }
                }
            }))
            .unwrap_or_else(|_| "panic|-|-".to_string());
            out.push(format!("{}@{}:{}|{}|{}", name.replace("db/", "").replace('/', "_"), off, newb, res, img));
        }
    }
    format!("{} N=0 {}", id, out.join(" "))
}
