//! Suites `key`, `block`, `table`.
use std::path::PathBuf;
use std::sync::Arc;

use raindb::fs::FileSystem;
use raindb::verif_hooks::tables as vt;
use raindb::verif_hooks::tables::CursorOp;
use raindb::DbOptions;

use crate::simfs::SimFs;
use crate::util::*;

fn catch<T>(f: impl FnOnce() -> T) -> Option<T> {
    std::panic::catch_unwind(std::panic::AssertUnwindSafe(f)).ok()
}

/// case: <id> <a_user>:<seq>:<op> <b_user>:<seq>:<op>
pub fn run_key(line: &str) -> String {
    let toks = split_nonempty(line, ' ');
    let a = parse_entry(toks[1]);
    let b = parse_entry(toks[2]);
    let ka = (a.0.as_slice(), a.1, a.2);
    let kb = (b.0.as_slice(), b.1, b.2);
    let (ord, eq) = vt::ikey_cmp(ka, kb);
    let enc = vt::ikey_bytes(&a.0, a.1, a.2);
    let parsed = match vt::ikey_parse(&enc) {
        Some((u, s, o)) => format!("x{}:{}:{}", hex(&u), s, o),
        None => "none".to_string(),
    };
    // parsing of a truncated / tag-mutated buffer
    let mut bad = enc.clone();
    let l = bad.len();
    bad[l - 1] = 2;
    let parsed_bad = vt::ikey_parse(&bad).is_some();
    let parsed_short = vt::ikey_parse(&enc[..8.min(enc.len())]).is_some();
    let sep = match catch(|| vt::ikey_separator(ka, kb)) {
        Some(s) => format!("x{}", hex(&s)),
        None => "panic".to_string(),
    };
    let succ = match catch(|| vt::ikey_successor(ka)) {
        Some(s) => format!("x{}", hex(&s)),
        None => "panic".to_string(),
    };
    let bsep = match catch(|| vt::bytes_separator(&a.0, &b.0)) {
        Some(s) => format!("x{}", hex(&s)),
        None => "panic".to_string(),
    };
    let bsucc = vt::bytes_successor(&a.0);
    format!(
        "{} {} {} x{} {} {}{} {} {} {} x{}",
        toks[0],
        ord,
        eq as u8,
        hex(&enc),
        parsed,
        parsed_bad as u8,
        parsed_short as u8,
        sep,
        succ,
        bsep,
        hex(&bsucc)
    )
}

pub fn parse_cop(tok: &str) -> CursorOp {
    match tok.as_bytes()[0] {
        b'f' => CursorOp::First,
        b'l' => CursorOp::Last,
        b'n' => CursorOp::Next,
        b'p' => CursorOp::Prev,
        b's' => {
            let e = parse_entry(&tok[1..]);
            CursorOp::Seek(e.0, e.1, e.2)
        }
        _ => panic!("bad cursor op {}", tok),
    }
}

pub fn show_script(res: &[Result<Option<vt::Entry>, String>]) -> String {
    if res.is_empty() {
        return "-".to_string();
    }
    res.iter()
        .map(|r| match r {
            Ok(Some(e)) => show_entry(e),
            Ok(None) => "inv".to_string(),
            Err(e) => format!("err:{}", e.replace(' ', "_").replace(',', ";")),
        })
        .collect::<Vec<_>>()
        .join(",")
}

/// case: <id> <restart_interval> E<entry> ... O<cop> ...
pub fn run_block(line: &str) -> String {
    let toks = split_nonempty(line, ' ');
    let ri: usize = toks[1].parse().unwrap();
    let mut entries = vec![];
    let mut ops = vec![];
    for t in &toks[2..] {
        match t.as_bytes()[0] {
            b'E' => entries.push(parse_entry(&t[1..])),
            b'O' => ops.push(parse_cop(&t[1..])),
            _ => panic!("bad token"),
        }
    }
    let built = catch(|| vt::block_build(ri, &entries));
    let (raw, size) = match built {
        Some(x) => x,
        None => return format!("{} build-panic", toks[0]),
    };
    let raw2 = raw.clone();
    match catch(move || vt::block_read(raw2, &ops)) {
        None => format!("{} x{} {} read-panic", toks[0], hex(&raw), size),
        Some(Err(e)) => format!("{} x{} {} read-error:{}", toks[0], hex(&raw), size, e.replace(' ', "_")),
        Some(Ok((es, script))) => format!(
            "{} x{} {} {} {}",
            toks[0],
            hex(&raw),
            size,
            show_entries(&es),
            show_script(&script)
        ),
    }
}

pub fn sim_options(sim: &SimFs, block_size: usize) -> DbOptions {
    let mut o = DbOptions::with_memory_env();
    o.filesystem_provider = Arc::new(sim.clone());
    o.db_path = "db".to_string();
    o.max_block_size = block_size;
    o
}

/// case: <id> <max_block_size> E<entry> ... G<user>:<seq> ... O<cop> ...
/// output: <id> <layout: index key + number of entries per block> <gets> <script> <filter bits>
pub fn run_table(line: &str) -> String {
    let toks = split_nonempty(line, ' ');
    let bs: usize = toks[1].split(':').next().unwrap().parse().unwrap();
    let mut entries = vec![];
    let mut ops = vec![];
    let mut gets = vec![];
    for t in &toks[2..] {
        match t.as_bytes()[0] {
            b'E' => entries.push(parse_entry(&t[1..])),
            b'O' => ops.push(parse_cop(&t[1..])),
            b'G' => gets.push(parse_entry(&t[1..])),
            _ => panic!("bad token"),
        }
    }
    let sim = SimFs::new();
    let opts = sim_options(&sim, bs);
    let fs: Arc<dyn FileSystem> = opts.filesystem_provider();
    fs.create_dir_all(&PathBuf::from("db/data")).unwrap();
    let o2 = opts.clone();
    let es2 = entries.clone();
    match catch(move || vt::build_table(o2, 7, &es2)) {
        None => return format!("{} build-panic", toks[0]),
        Some(Err(e)) => return format!("{} build-error:{}", toks[0], e.replace(' ', "_")),
        Some(Ok(_)) => {}
    }
    let path = sim
        .all_files()
        .into_iter()
        .map(|(p, _)| p)
        .find(|p| p.to_string_lossy().ends_with(".rdb"))
        .expect("table file");
    let table = match vt::VTable::open(opts.clone(), &path) {
        Ok(t) => t,
        Err(e) => return format!("{} open-error:{}", toks[0], e.replace(' ', "_")),
    };
    let layout = match table.layout() {
        Ok(l) => l,
        Err(e) => return format!("{} layout-error:{}", toks[0], e.replace(' ', "_")),
    };
    let lay: String = if layout.is_empty() {
        "-".to_string()
    } else {
        layout
            .iter()
            .map(|(k, _, es)| format!("x{}/{}", hex(k), es.len()))
            .collect::<Vec<_>>()
            .join(",")
    };
    let all: Vec<vt::Entry> = layout.iter().flat_map(|(_, _, es)| es.clone()).collect();
    let content_ok = all == entries;
    let mut filt = String::new();
    for (_, off, es) in &layout {
        for e in es {
            filt.push(match table.filter_may_match(*off, &e.0) {
                Some(true) => '1',
                Some(false) => '0',
                None => 'x',
            });
        }
    }
    let gres: String = if gets.is_empty() {
        "-".to_string()
    } else {
        gets.iter()
            .map(|g| match catch(|| table.get(&g.0, g.1)) {
                None => "panic".to_string(),
                Some((c, v, e)) => match c {
                    'F' => format!("Fx{}", hex(&v)),
                    'E' => format!("E:{}", e.replace(' ', "_").replace(',', ";")),
                    c => c.to_string(),
                },
            })
            .collect::<Vec<_>>()
            .join(",")
    };
    let script = match catch(|| table.iter_script(&ops)) {
        Some(s) => show_script(&s),
        None => "panic".to_string(),
    };
    format!(
        "{} {} {} {} {} {}",
        toks[0],
        lay,
        content_ok as u8,
        gres,
        script,
        if filt.is_empty() { "-".to_string() } else { filt }
    )
}

/// Suite `tfile`: the byte layout of a table file below the block contents (block trailers,
/// handles, footer) and the reader's reaction to single-byte changes.
/// case: <id> <max_block_size> <nmut> <lcg seed> E<entry> ...
/// output: <id> x<file bytes> <m_off>:<m_size>,<i_off>:<i_size> <off:size;...> then per mutation
///   <offset>:<new byte>:<open ok 0/1>:<one bit per original data block: readable>
pub fn run_tfile(line: &str) -> String {
    let toks = split_nonempty(line, ' ');
    let bs: usize = toks[1].split(':').next().unwrap().parse().unwrap();
    let nmut: usize = toks[2].parse().unwrap();
    let mut lcg: u64 = toks[3].parse().unwrap();
    let entries: Vec<vt::Entry> = toks[4..].iter().filter(|t| t.as_bytes()[0] == b'E').map(|t| parse_entry(&t[1..])).collect();
    let sim = SimFs::new();
    let opts = sim_options(&sim, bs);
    let fs: Arc<dyn FileSystem> = opts.filesystem_provider();
    fs.create_dir_all(&PathBuf::from("db/data")).unwrap();
    let o2 = opts.clone();
    let es2 = entries.clone();
    match catch(move || vt::build_table(o2, 7, &es2)) {
        None => return format!("{} build-panic", toks[0]),
        Some(Err(e)) => return format!("{} build-error:{}", toks[0], e.replace(' ', "_")),
        Some(Ok(_)) => {}
    }
    let path = sim
        .all_files()
        .into_iter()
        .map(|(p, _)| p)
        .find(|p| p.to_string_lossy().ends_with(".rdb"))
        .expect("table file");
    let original = sim.read_whole(&path).unwrap();
    let table = match vt::VTable::open(opts.clone(), &path) {
        Ok(t) => t,
        Err(e) => return format!("{} open-error:{}", toks[0], e.replace(' ', "_")),
    };
    let (m, i, blocks) = table.handles();
    drop(table);
    let mut out: Vec<String> = vec![];
    let len = original.len();
    for k in 0..nmut {
        lcg = (lcg * 1103515245 + 12345) & 0x7fff_ffff;
        // spread the offsets; the last ones go into the footer
        let off = if k % 5 == 4 { len - 1 - ((lcg >> 8) as usize % 48.min(len)) } else { (lcg >> 4) as usize % len };
        lcg = (lcg * 1103515245 + 12345) & 0x7fff_ffff;
        let old = original[off];
        let newb = match k % 3 {
            0 => old ^ (1 << ((lcg >> 8) & 7)),
            1 => ((lcg >> 16) & 255) as u8,
            _ => if old == 0 { 0xff } else { 0 },
        };
        if newb == old {
            continue;
        }
        let mut data = original.clone();
        data[off] = newb;
        sim.overwrite(&path, &data);
        let res = match vt::VTable::open(sim_options(&sim, bs), &path) {
            Err(_) => "0:-".to_string(),
            Ok(t) => {
                let bits: String = blocks.iter().map(|(o, s)| if t.block_readable(*o, *s) { '1' } else { '0' }).collect();
                format!("1:{}", if bits.is_empty() { "-".to_string() } else { bits })
            }
        };
        out.push(format!("{}:{}:{}", off, newb, res));
    }
    sim.overwrite(&path, &original);
    format!(
        "{} x{} {}:{},{}:{} {} {}",
        toks[0],
        hex(&original),
        m.0, m.1, i.0, i.1,
        if blocks.is_empty() { "-".to_string() } else { blocks.iter().map(|(o, s)| format!("{}:{}", o, s)).collect::<Vec<_>>().join(";") },
        if out.is_empty() { "-".to_string() } else { out.join(" ") }
    )
}
