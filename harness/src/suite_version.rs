//! Suite `vfn`: selection functions over file metadata.
use raindb::verif_hooks::versions as vv;
use raindb::verif_hooks::versions::{File, Key};

use crate::simfs::SimFs;
use crate::suite_table::sim_options;
use crate::util::*;

fn parse_key(tok: &str) -> Key {
    let p: Vec<&str> = tok.split(':').collect();
    (parse_bytes(p[0]), p[1].parse().unwrap(), p[2].parse().unwrap())
}

fn opt_key(tok: &str) -> Option<Key> {
    if tok == "-" {
        None
    } else {
        Some(parse_key(tok))
    }
}

fn show_key(k: &Key) -> String {
    format!("x{}:{}:{}", hex(&k.0), k.1, k.2)
}

/// F<level>:<num>:<size>:<su>:<ss>:<so>:<lu>:<ls>:<lo>
fn parse_file(tok: &str) -> (usize, File) {
    let p: Vec<&str> = tok[1..].split(':').collect();
    (
        p[0].parse().unwrap(),
        (
            p[1].parse().unwrap(),
            p[2].parse().unwrap(),
            (parse_bytes(p[3]), p[4].parse().unwrap(), p[5].parse().unwrap()),
            (parse_bytes(p[6]), p[7].parse().unwrap(), p[8].parse().unwrap()),
        ),
    )
}

fn nums(fs: &[File]) -> String {
    if fs.is_empty() {
        "-".to_string()
    } else {
        fs.iter().map(|f| f.0.to_string()).collect::<Vec<_>>().join(",")
    }
}

fn levels_str(ls: &[Vec<File>]) -> String {
    ls.iter().map(|l| nums(l)).collect::<Vec<_>>().join("/")
}

pub fn run_vfn(line: &str) -> String {
    let toks = split_nonempty(line, ' ');
    let id = toks[0];
    let mfs: u64 = toks[1].split(':').next().unwrap().parse().unwrap();
    let func = toks[2];
    let (a1, a2, a3) = (toks[3], toks[4], toks[5]);
    let mut levels: Vec<Vec<File>> = vec![vec![]; 7];
    let mut deleted: Vec<(usize, u64)> = vec![];
    let mut added: Vec<(usize, File)> = vec![];
    for t in &toks[6..] {
        match t.as_bytes()[0] {
            b'F' => {
                let (l, f) = parse_file(t);
                levels[l].push(f);
            }
            b'A' => added.push(parse_file(t)),
            b'D' => {
                let p: Vec<&str> = t[1..].split(':').collect();
                deleted.push((p[0].parse().unwrap(), p[1].parse().unwrap()));
            }
            _ => panic!("bad token {}", t),
        }
    }
    let sim = SimFs::new();
    let mut opts = sim_options(&sim, 4096);
    opts.max_file_size = mfs;
    let res = std::panic::catch_unwind(std::panic::AssertUnwindSafe(|| -> String {
        match func {
            "range" => {
                let r = vv::key_range_for_files(&levels[0]);
                format!("{}~{}", show_key(&r.0), show_key(&r.1))
            }
            "range2" => {
                let r = vv::key_range_for_two(&levels[0], &levels[1]);
                format!("{}~{}", show_key(&r.0), show_key(&r.1))
            }
            "ffub" => match vv::find_file_with_upper_bound_range(&levels[1], &parse_key(a1)) {
                Some(i) => i.to_string(),
                None => "none".to_string(),
            },
            "ovl" => {
                let v = vv::VVersion::new(opts.clone(), &levels);
                let lo = if a2 == "-" { None } else { Some(parse_bytes(a2)) };
                let hi = if a3 == "-" { None } else { Some(parse_bytes(a3)) };
                (v.has_overlap_in_level(a1.parse().unwrap(), lo.as_deref(), hi.as_deref()) as u8).to_string()
            }
            "getfiles" => {
                let v = vv::VVersion::new(opts.clone(), &levels);
                levels_str(&v.get_overlapping_files(&parse_key(a1)))
            }
            "oci" => {
                let v = vv::VVersion::new(opts.clone(), &levels);
                let lo = opt_key(a2);
                let hi = opt_key(a3);
                nums(&v.overlapping_inputs(a1.parse().unwrap(), lo.as_ref(), hi.as_ref()))
            }
            "plmo" => {
                let v = vv::VVersion::new(opts.clone(), &levels);
                v.pick_level_for_memtable_output(&parse_bytes(a1), &parse_bytes(a2)).to_string()
            }
            "fin" => {
                let v = vv::VVersion::new(opts.clone(), &levels);
                let seed: Vec<u64> = split_nonempty(a2, ',').iter().filter(|x| **x != "-").map(|x| x.parse().unwrap()).collect();
                let base: Vec<Vec<u8>> = split_nonempty(a3, ',').iter().filter(|x| **x != "-").map(|x| parse_bytes(x)).collect();
                let (i0, i1, tm, ptr, b) = v.finalize_inputs(a1.parse().unwrap(), &seed, &base);
                let bs: String = b.iter().map(|x| if *x { '1' } else { '0' }).collect();
                format!("{} {} {} {} {}", nums(&i0), nums(&i1), tm as u8, show_key(&ptr), if bs.is_empty() { "-".to_string() } else { bs })
            }
            "score" => {
                let v = vv::VVersion::new(opts.clone(), &levels);
                let (level, need) = v.size_compaction();
                format!("{} {}", level, need as u8)
            }
            "samples" => {
                let v = vv::VVersion::new(opts.clone(), &levels);
                let keys: Vec<Key> = split_nonempty(a1, ',').iter().map(|k| parse_key(k)).collect();
                let res = v.read_samples(&keys);
                // run-length encoded: <answer><state> xN
                let mut out: Vec<String> = vec![];
                let mut last = String::new();
                let mut count = 0usize;
                for (a, st) in res {
                    let cur = format!("{}{}", a as u8, match st { Some((n, l)) => format!("@{}/{}", n, l), None => "@-".to_string() });
                    if cur == last {
                        count += 1;
                    } else {
                        if count > 0 {
                            out.push(format!("{}x{}", last, count));
                        }
                        last = cur;
                        count = 1;
                    }
                }
                if count > 0 {
                    out.push(format!("{}x{}", last, count));
                }
                if out.is_empty() { "-".to_string() } else { out.join(",") }
            }
            "apply" => {
                let v = vv::VVersion::new(opts.clone(), &levels);
                levels_str(&v.apply_edit(&deleted, &added))
            }
            _ => panic!("unknown function {}", func),
        }
    }));
    match res {
        Ok(s) => format!("{} {}", id, s),
        Err(_) => format!("{} panic", id),
    }
}
