//! Parsing/printing helpers shared by all suites (mirrors ocaml/driver.ml).

pub fn hex(b: &[u8]) -> String {
    const D: &[u8; 16] = b"0123456789abcdef";
    let mut s = String::with_capacity(b.len() * 2);
    for x in b {
        s.push(D[(x >> 4) as usize] as char);
        s.push(D[(x & 15) as usize] as char);
    }
    s
}

pub fn unhex(s: &str) -> Vec<u8> {
    (0..s.len() / 2)
        .map(|i| u8::from_str_radix(&s[2 * i..2 * i + 2], 16).expect("hex"))
        .collect()
}

/// `x<hex>` or `p<len>.<a>.<b>` (byte i = (a + i*b) mod 256)
pub fn parse_bytes(tok: &str) -> Vec<u8> {
    if tok.is_empty() {
        return vec![];
    }
    match tok.as_bytes()[0] {
        b'x' => unhex(&tok[1..]),
        b'p' => {
            let parts: Vec<usize> = tok[1..].split('.').map(|x| x.parse().unwrap()).collect();
            (0..parts[0])
                .map(|i| ((parts[1] + i * parts[2]) & 255) as u8)
                .collect()
        }
        b'r' => {
            // pseudo-random (incompressible) bytes: r<len>.<seed>, LCG x = x*1103515245+12345 mod 2^31
            let parts: Vec<u64> = tok[1..].split('.').map(|x| x.parse().unwrap()).collect();
            let mut x: u64 = parts[1] & 0x7fff_ffff;
            (0..parts[0])
                .map(|_| {
                    x = (x * 1103515245 + 12345) & 0x7fff_ffff;
                    ((x >> 16) & 255) as u8
                })
                .collect()
        }
        _ => panic!("bad bytes token {}", tok),
    }
}

pub fn show_recs(recs: &[Vec<u8>]) -> String {
    if recs.is_empty() {
        "-".to_string()
    } else {
        recs.iter()
            .map(|r| format!("x{}", hex(r)))
            .collect::<Vec<_>>()
            .join(",")
    }
}

pub fn split_nonempty(s: &str, c: char) -> Vec<&str> {
    s.split(c).filter(|x| !x.is_empty()).collect()
}

/// entry token `<user>:<seq>:<op>:<value>`
pub fn parse_entry(tok: &str) -> (Vec<u8>, u64, u8, Vec<u8>) {
    let p: Vec<&str> = tok.split(':').collect();
    (
        parse_bytes(p[0]),
        p[1].parse().unwrap(),
        p[2].parse().unwrap(),
        if p.len() > 3 { parse_bytes(p[3]) } else { vec![] },
    )
}

pub fn show_entry(e: &(Vec<u8>, u64, u8, Vec<u8>)) -> String {
    format!("x{}:{}:{}:x{}", hex(&e.0), e.1, e.2, hex(&e.3))
}

pub fn show_entries(es: &[(Vec<u8>, u64, u8, Vec<u8>)]) -> String {
    if es.is_empty() {
        "-".to_string()
    } else {
        es.iter().map(show_entry).collect::<Vec<_>>().join(",")
    }
}
