//! Suite `log`: LogWriter / LogReader on an in-memory file system.
use std::io::Write;
use std::path::Path;
use std::sync::Arc;

use raindb::fs::FileSystem;
use crate::simfs::SimFs;
use raindb::verif_hooks::logs as vlog;

use crate::util::*;

fn read_file(fs: &SimFs, path: &Path) -> Vec<u8> {
    fs.read_whole(path).unwrap_or_default()
}

fn write_file(fs: &SimFs, path: &Path, data: &[u8]) {
    if fs.read_whole(path).is_none() {
        let mut f = fs.create_file(path, false).unwrap();
        f.write_all(data).unwrap();
    } else {
        fs.overwrite(path, data);
    }
}

/// A `LogWriter` wrapper that stops after `k` fragments: implemented by appending the whole
/// record to a scratch copy of the file and keeping only the first `k` fragments' bytes.
/// Fragment boundaries are recovered from the bytes (7-byte header with a 2-byte length at
/// offset 4, zero trailers of < 7 bytes at block ends).
fn fragment_ends(file: &[u8], start: usize, block: usize, header: usize) -> Vec<usize> {
    let mut ends = vec![];
    let mut pos = start;
    while pos < file.len() {
        let in_block = pos % block;
        if block - in_block < header {
            pos += block - in_block;
            continue;
        }
        if pos + header > file.len() {
            break;
        }
        let len = u16::from_le_bytes([file[pos + 4], file[pos + 5]]) as usize;
        pos += header + len;
        ends.push(pos);
    }
    ends
}

pub fn run_log(line: &str) -> String {
    let toks = split_nonempty(line, ' ');
    let id = toks[0];
    let sim = SimFs::new();
    let fs: Arc<dyn FileSystem> = Arc::new(sim.clone());
    let path = Path::new("wal-1.log");
    write_file(&sim, path, &[]);
    for op in &toks[2..] {
        match op.as_bytes()[0] {
            b'S' => {
                let body = &op[2..];
                let (main, partial) = match body.find(';') {
                    None => (body, None),
                    Some(i) => (&body[..i], Some(&body[i + 1..])),
                };
                let mut w = vlog::Writer::new(Arc::clone(&fs), path, true).unwrap();
                for r in split_nonempty(main, ',') {
                    w.append(&parse_bytes(r)).unwrap();
                }
                if let Some(p) = partial {
                    let j = p.find(':').unwrap();
                    let k: usize = p[..j].parse().unwrap();
                    let rec = parse_bytes(&p[j + 1..]);
                    let before = read_file(&sim, path).len();
                    w.append(&rec).unwrap();
                    drop(w);
                    let after = read_file(&sim, path);
                    let ends = fragment_ends(&after, before, 32768, 7);
                    let keep = if k == 0 {
                        before
                    } else if k > ends.len() {
                        after.len()
                    } else {
                        ends[k - 1]
                    };
                    write_file(&sim, path, &after[..keep]);
                }
            }
            b'T' => {
                let n: usize = op[2..].parse().unwrap();
                let cur = read_file(&sim, path);
                let n = n.min(cur.len());
                write_file(&sim, path, &cur[..n]);
            }
            b'M' => {
                let parts: Vec<&str> = op.split(':').collect();
                let off: usize = parts[1].parse().unwrap();
                let b: u8 = parts[2].parse().unwrap();
                let mut cur = read_file(&sim, path);
                if off < cur.len() {
                    cur[off] = b;
                }
                write_file(&sim, path, &cur);
            }
            _ => panic!("bad op {}", op),
        }
    }
    let file = read_file(&sim, path);
    let mut recs: Vec<Vec<u8>> = vec![];
    let fs2 = Arc::clone(&fs);
    let res = std::panic::catch_unwind(std::panic::AssertUnwindSafe(|| {
        let mut out: Vec<Vec<u8>> = vec![];
        let mut r = vlog::Reader::new(fs2, path, 0).unwrap();
        let mut budget = file.len() + 2;
        loop {
            match r.read_record() {
                Ok((_, true)) => return (out, "eof".to_string()),
                Ok((d, false)) => out.push(d),
                Err(e) => return (out, format!("err:{}", e.replace(' ', "_"))),
            }
            if budget == 0 {
                return (out, "nonterminating".to_string());
            }
            budget -= 1;
        }
    }));
    let end = match res {
        Ok((o, e)) => {
            recs = o;
            e
        }
        Err(_) => "panic".to_string(),
    };
    format!("{} x{} {} {}", id, hex(&file), show_recs(&recs), end)
}

pub fn run_crcmask(line: &str) -> String {
    let toks = split_nonempty(line, ' ');
    let v: u32 = toks[1].parse().unwrap();
    let d = parse_bytes(toks[2]);
    // the crc crate is not a dependency of the harness: go through a one-fragment log
    let sim = SimFs::new();
    let fs: Arc<dyn FileSystem> = Arc::new(sim.clone());
    let path = Path::new("c.log");
    let mut w = vlog::Writer::new(Arc::clone(&fs), path, false).unwrap();
    let small = if d.len() > 1000 { &d[..1000] } else { &d[..] };
    w.append(small).unwrap();
    let file = read_file(&sim, path);
    let stored = u32::from_le_bytes([file[0], file[1], file[2], file[3]]);
    let crc = vlog::unmask_checksum(stored);
    format!(
        "{} {} {} {}",
        toks[0],
        vlog::mask_checksum(v),
        vlog::unmask_checksum(v),
        crc
    )
}
