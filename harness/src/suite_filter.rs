//! Suites `bloom` and `fblock`.
use std::sync::Arc;

use raindb::verif_hooks::filters as vf;
use raindb::{BloomFilterPolicy, FilterPolicy};

use crate::util::*;

fn show(r: Result<bool, String>) -> char {
    match r {
        Ok(true) => '1',
        Ok(false) => '0',
        Err(_) => 'E',
    }
}

/// case: <id> <bpk> <probe> <k1,k2,...> [<bpk of the policy that reads the filter>]
pub fn run_bloom(line: &str) -> String {
    let toks: Vec<&str> = line.split(' ').collect();
    let bpk: usize = toks[1].parse().unwrap();
    let probe = parse_bytes(toks[2]);
    let keys: Vec<Vec<u8>> = if toks.len() > 3 {
        split_nonempty(toks[3], ',').into_iter().map(parse_bytes).collect()
    } else {
        vec![]
    };
    let policy = BloomFilterPolicy::new(bpk);
    let filter = policy.create_filter(&keys);
    // optional 5th token: the filter is consulted by a policy object configured with another
    // bits-per-key (a database reopened with different options reads its old filters): the number
    // of probes is the one stored in the filter
    let policy = if toks.len() > 4 {
        BloomFilterPolicy::new(toks[4].parse().unwrap())
    } else {
        policy
    };
    let res: String = keys
        .iter()
        .map(|k| show(policy.key_may_match(k, &filter).map_err(|e| e.to_string())))
        .collect();
    let p = show(policy.key_may_match(&probe, &filter).map_err(|e| e.to_string()));
    // a truncated filter exercises the parse-error path
    let short = show(
        policy
            .key_may_match(&probe, &filter[..1])
            .map_err(|e| e.to_string()),
    );
    format!(
        "{} x{} {} {}{}",
        toks[0],
        hex(&filter),
        if res.is_empty() { "-".to_string() } else { res },
        p,
        short
    )
}

/// case: <id> <bpk> ev ev ...   ev: K<bytes> | N<offset>
/// Queries: every key with the start offset of its block (0, then each notify offset), plus
/// every key at every notify offset (answers compared with the model only).
pub fn run_fblock(line: &str) -> String {
    let toks: Vec<&str> = split_nonempty(line, ' ');
    let bpk: usize = toks[1].parse().unwrap();
    let policy: Arc<dyn FilterPolicy> = Arc::new(BloomFilterPolicy::new(bpk));
    let mut b = vf::Builder::new(Arc::clone(&policy));
    let mut start: u64 = 0;
    let mut queries: Vec<(u64, Vec<u8>)> = vec![];
    let mut offs: Vec<u64> = vec![0];
    for ev in &toks[2..] {
        match ev.as_bytes()[0] {
            b'K' => {
                let k = parse_bytes(&ev[1..]);
                b.add_key(k.clone());
                queries.push((start, k));
            }
            b'N' => {
                let off: u64 = ev[1..].parse().unwrap();
                b.notify_new_data_block(off as usize);
                start = off;
                offs.push(off);
            }
            _ => panic!("bad event"),
        }
    }
    let block = b.finalize();
    let reader = match vf::Reader::new(Arc::clone(&policy), block.clone()) {
        Ok(r) => r,
        Err(_) => return format!("{} x{} parse-error -", toks[0], hex(&block)),
    };
    let own: String = queries
        .iter()
        .map(|(o, k)| if reader.key_may_match(*o, k) { '1' } else { '0' })
        .collect();
    let mut cross = String::new();
    for (_, k) in queries.iter().take(6) {
        for o in offs.iter().take(6) {
            cross.push(if reader.key_may_match(*o, k) { '1' } else { '0' });
        }
    }
    format!(
        "{} x{} {} {}",
        toks[0],
        hex(&block),
        if own.is_empty() { "-".to_string() } else { own },
        if cross.is_empty() { "-".to_string() } else { cross }
    )
}
