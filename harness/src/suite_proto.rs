//! Suite `proto`: the persistence protocol. After every operation (and after the background work
//! it caused has finished) the events reported by the database since the previous operation and
//! the complete directory image are recorded; the extracted protocol model re-derives the
//! directory from the operations and the events.
//!
//! case: <id> <cfg> op op ...     ops: P D B (writes), O<cfg> (close + reopen), C<lo>:<hi>, W
//! output: <id> seg seg ...       seg = <op>~<events joined by |, or ->~<image>
use crate::simfs::SimFs;
use crate::suite_crash::image_str;
use crate::suite_db::{enable_events, parse_cfg, Session, EVENTS};
use crate::util::*;

/// the file operations since `from`, as `c:<file>` (create/truncate), `w:<file>` (consecutive
/// writes to one file collapsed), `r:<from>><to>`, `d:<file>`
fn ops_since(sim: &SimFs, from: usize) -> (String, usize) {
    use crate::simfs::FsOp;
    let log = sim.oplog();
    let base = |p: &std::path::PathBuf| p.file_name().map(|n| n.to_string_lossy().to_string()).unwrap_or_default();
    let mut out: Vec<String> = vec![];
    for op in &log[from.min(log.len())..] {
        let t = match op {
            FsOp::Create { path, append } => format!("{}:{}", if *append { "a" } else { "c" }, base(path)),
            FsOp::Write { path, .. } => format!("w:{}", base(path)),
            FsOp::Rename { from, to } => format!("r:{}>{}", base(from), base(to)),
            FsOp::Remove { path } => format!("d:{}", base(path)),
            FsOp::RemoveDirAll { path } => format!("D:{}", base(path)),
        };
        if t.starts_with("w:") && out.last() == Some(&t) {
            continue;
        }
        out.push(t);
    }
    (if out.is_empty() { "-".to_string() } else { out.join(",") }, log.len())
}

fn drain() -> String {
    let evs: Vec<String> = EVENTS.lock().unwrap().drain(..).collect();
    if evs.is_empty() {
        "-".to_string()
    } else {
        evs.join("|")
    }
}

pub fn run_proto(line: &str) -> String {
    let toks = split_nonempty(line, ' ');
    let id = toks[0];
    let mut cfg = parse_cfg(toks[1]);
    let sim = SimFs::new();
    EVENTS.lock().unwrap().clear();
    enable_events(&sim, cfg);
    let mut out: Vec<String> = vec![];
    let mut sess = match Session::open(sim.clone(), cfg) {
        Ok(s) => s,
        Err(e) => return format!("{} open-{}", id, e),
    };
    sess.quiesce();
    let (fsops, mut mark) = ops_since(&sim, 0);
    out.push(format!("O{}%ok%{}%{}%{}", toks[1], drain(), image_str(&sim, cfg), fsops));
    for op in &toks[2..] {
        if sess.db.is_none() && op.as_bytes()[0] != b'O' {
            out.push(format!("{}%closed%-", op));
            continue;
        }
        let res = sess.exec(op);
        if op.as_bytes()[0] == b'O' {
            cfg = parse_cfg(&op[1..]);
        }
        if sess.db.is_some() {
            sess.quiesce();
        }
        let evs = drain();
        let (fsops, m2) = ops_since(&sim, mark);
        mark = m2;
        out.push(format!("{}%{}%{}%{}%{}", op, res.replace('%', "_").replace(' ', "_"), evs, image_str(&sim, cfg), fsops));
    }
    sess.close();
    raindb::verif_hooks::events::uninstall();
    format!("{} {}", id, out.join(" "))
}
