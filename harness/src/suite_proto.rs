//! Suite `proto`: the persistence protocol. After every operation (and after the background work
//! it caused has finished) the events reported by the database since the previous operation and
//! the complete directory image are recorded; the extracted protocol model re-derives the
//! directory from the operations and the events.
//!
//! case: <id> <cfg> op op ...     ops: P D B (writes), O<cfg> (close + reopen), C<lo>:<hi>, W
//! output: <id> seg seg ...       seg = <op>~<events joined by |, or ->~<image>
use crate::simfs::SimFs;
use crate::suite_crash::image_str;
use crate::suite_db::{enable_events, parse_cfg, Session, EVENTS};
use crate::util::*;

fn drain() -> String {
    let evs: Vec<String> = EVENTS.lock().unwrap().drain(..).collect();
    if evs.is_empty() {
        "-".to_string()
    } else {
        evs.join("|")
    }
}

pub fn run_proto(line: &str) -> String {
    let toks = split_nonempty(line, ' ');
    let id = toks[0];
    let mut cfg = parse_cfg(toks[1]);
    let sim = SimFs::new();
    EVENTS.lock().unwrap().clear();
    enable_events(&sim, cfg);
    let mut out: Vec<String> = vec![];
    let mut sess = match Session::open(sim.clone(), cfg) {
        Ok(s) => s,
        Err(e) => return format!("{} open-{}", id, e),
    };
    sess.quiesce();
    out.push(format!("O{}%ok%{}%{}", toks[1], drain(), image_str(&sim, cfg)));
    for op in &toks[2..] {
        if sess.db.is_none() && op.as_bytes()[0] != b'O' {
            out.push(format!("{}%closed%-", op));
            continue;
        }
        let res = sess.exec(op);
        if op.as_bytes()[0] == b'O' {
            cfg = parse_cfg(&op[1..]);
        }
        if sess.db.is_some() {
            sess.quiesce();
        }
        let evs = drain();
        out.push(format!("{}%{}%{}%{}", op, res.replace('%', "_").replace(' ', "_"), evs, image_str(&sim, cfg)));
    }
    sess.close();
    raindb::verif_hooks::events::uninstall();
    format!("{} {}", id, out.join(" "))
}
