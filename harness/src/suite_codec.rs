//! Suite `codec`: write batch and version change codecs.
//! case: <id> B <seq> <cut> <op>;<op>...           op: k=v | k
//!       <id> V <cut> w=<n|-> pw=<n|-> cf=<n|-> ps=<n|-> [P<level>:<key>] [D<level>:<num>] [N<level>:<num>:<size>:<small key>:<large key>] ...
//! output: <id> <encoding hex> <decoded canonical form> <decoding of the first <cut> bytes: ok/err>
use raindb::verif_hooks::codecs as vc;

use crate::util::*;

fn show_ops(ops: &[vc::Op]) -> String {
    if ops.is_empty() {
        return "-".to_string();
    }
    ops.iter()
        .map(|(p, k, v)| if *p { format!("x{}=x{}", hex(k), hex(v)) } else { format!("x{}", hex(k)) })
        .collect::<Vec<_>>()
        .join(";")
}

fn show_key(k: &vc::Key) -> String {
    format!("x{}:{}:{}", hex(&k.0), k.1, k.2)
}

fn show_change(c: &vc::Change) -> String {
    let o = |x: &Option<u64>| x.map(|v| v.to_string()).unwrap_or("-".to_string());
    let mut parts = vec![format!("w={}", o(&c.wal)), format!("pw={}", o(&c.prev_wal)), format!("cf={}", o(&c.curr_file)), format!("ps={}", o(&c.prev_seq))];
    for (l, k) in &c.pointers {
        parts.push(format!("P{}:{}", l, show_key(k)));
    }
    let mut del = c.deleted.clone();
    del.sort_unstable();
    for (l, n) in &del {
        parts.push(format!("D{}:{}", l, n));
    }
    for (l, n, s, a, b) in &c.new_files {
        parts.push(format!("N{}:{}:{}:{}:{}", l, n, s, show_key(a), show_key(b)));
    }
    parts.join(",")
}

fn parse_key3(p: &[&str]) -> vc::Key {
    (parse_bytes(p[0]), p[1].parse().unwrap(), p[2].parse().unwrap())
}

pub fn run_codec(line: &str) -> String {
    let toks = split_nonempty(line, ' ');
    let id = toks[0];
    match toks[1] {
        "B" => {
            let seq: u64 = toks[2].parse().unwrap();
            let cut: usize = toks[3].parse().unwrap();
            let ops: Vec<vc::Op> = if toks.len() > 4 {
                split_nonempty(toks[4], ';')
                    .iter()
                    .map(|el| match el.find('=') {
                        Some(i) => (true, parse_bytes(&el[..i]), parse_bytes(&el[i + 1..])),
                        None => (false, parse_bytes(el), vec![]),
                    })
                    .collect()
            } else {
                vec![]
            };
            let bytes = vc::batch_bytes(seq, &ops);
            let dec = match vc::batch_parse(&bytes) {
                Ok((s, o)) => format!("{}|{}", s, show_ops(&o)),
                Err(_) => "err".to_string(),
            };
            let c = cut.min(bytes.len());
            let cutres = match std::panic::catch_unwind(|| vc::batch_parse(&bytes[..c])) {
                Ok(Ok((s, o))) => format!("{}|{}", s, show_ops(&o)),
                Ok(Err(_)) => "err".to_string(),
                Err(_) => "panic".to_string(),
            };
            format!("{} x{} {} {}", id, hex(&bytes), dec, cutres)
        }
        "V" => {
            let cut: usize = toks[2].parse().unwrap();
            let mut ch = vc::Change::default();
            for t in &toks[3..] {
                let opt = |s: &str| if s == "-" { None } else { Some(s.parse::<u64>().unwrap()) };
                if let Some(v) = t.strip_prefix("w=") {
                    ch.wal = opt(v);
                } else if let Some(v) = t.strip_prefix("pw=") {
                    ch.prev_wal = opt(v);
                } else if let Some(v) = t.strip_prefix("cf=") {
                    ch.curr_file = opt(v);
                } else if let Some(v) = t.strip_prefix("ps=") {
                    ch.prev_seq = opt(v);
                } else {
                    let p: Vec<&str> = t[1..].split(':').collect();
                    match t.as_bytes()[0] {
                        b'P' => ch.pointers.push((p[0].parse().unwrap(), parse_key3(&p[1..4]))),
                        b'D' => ch.deleted.push((p[0].parse().unwrap(), p[1].parse().unwrap())),
                        b'N' => ch.new_files.push((
                            p[0].parse().unwrap(),
                            p[1].parse().unwrap(),
                            p[2].parse().unwrap(),
                            parse_key3(&p[3..6]),
                            parse_key3(&p[6..9]),
                        )),
                        _ => panic!("bad token {}", t),
                    }
                }
            }
            let bytes = vc::change_bytes(&ch);
            let dec = match vc::change_parse(&bytes) {
                Ok(c2) => show_change(&c2),
                Err(_) => "err".to_string(),
            };
            let c = cut.min(bytes.len());
            let cutres = match std::panic::catch_unwind(|| vc::change_parse(&bytes[..c])) {
                Ok(Ok(c2)) => show_change(&c2),
                Ok(Err(_)) => "err".to_string(),
                Err(_) => "panic".to_string(),
            };
            // the deleted files are serialised in hash-set order: print the encoding only when
            // it is order independent
            let enc = if ch.deleted.len() <= 1 { format!("x{}", hex(&bytes)) } else { format!("len{}", bytes.len()) };
            format!("{} {} {} {}", id, enc, dec, cutres)
        }
        _ => panic!("bad codec kind"),
    }
}
