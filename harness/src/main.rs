//! rvh: runs the raindb implementation on the same case files as the extracted Coq model
//! (ocaml/driver) and prints one canonical result line per case.
use std::io::{BufRead, BufWriter, Write};

mod simfs;
mod suite_filter;
mod suite_log;
mod suite_table;
mod suite_version;
mod util;

fn main() {
    // Panics inside a case are caught and reported in the result line; keep stderr quiet.
    std::panic::set_hook(Box::new(|_| {}));
    let args: Vec<String> = std::env::args().collect();
    let suite = args[1].as_str();
    let f: fn(&str) -> String = match suite {
        "log" => suite_log::run_log,
        "crcmask" => suite_log::run_crcmask,
        "bloom" => suite_filter::run_bloom,
        "fblock" => suite_filter::run_fblock,
        "key" => suite_table::run_key,
        "block" => suite_table::run_block,
        "table" => suite_table::run_table,
        "vfn" => suite_version::run_vfn,
        _ => panic!("unknown suite {}", suite),
    };
    let stdin = std::io::stdin();
    let stdout = std::io::stdout();
    let mut out = BufWriter::new(stdout.lock());
    for line in stdin.lock().lines() {
        let line = line.unwrap();
        if line.is_empty() {
            continue;
        }
        let l2 = line.clone();
        let res = std::panic::catch_unwind(move || f(&l2));
        match res {
            Ok(s) => writeln!(out, "{}", s).unwrap(),
            Err(e) => {
                let msg = if let Some(s) = e.downcast_ref::<String>() {
                    s.clone()
                } else if let Some(s) = e.downcast_ref::<&str>() {
                    s.to_string()
                } else {
                    "?".to_string()
                };
                let id = line.split(' ').next().unwrap_or("?");
                writeln!(out, "{} HARNESS-PANIC {}", id, msg.replace('\n', " ")).unwrap()
            }
        }
    }
}
