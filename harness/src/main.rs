//! rvh: runs the raindb implementation on the same case files as the extracted Coq model
//! (ocaml/driver) and prints one canonical result line per case.
use std::io::{BufRead, BufWriter, Write};
use std::sync::mpsc;
use std::sync::Mutex;
use std::time::Duration;

mod simfs;
mod suite_cache;
mod suite_codec;
mod suite_corrupt;
mod suite_crash;
mod suite_db;
mod suite_fault;
mod suite_filter;
mod suite_lock;
mod suite_names;
mod suite_proto;
mod suite_wfault;
mod suite_log;
mod suite_sched;
mod suite_table;
mod suite_version;
mod util;

/// panics on threads other than the case worker (e.g. the database's compaction thread)
pub static BACKGROUND_PANICS: Mutex<Vec<String>> = Mutex::new(Vec::new());

fn main() {
    std::panic::set_hook(Box::new(|info| {
        let t = std::thread::current();
        let name = t.name().unwrap_or("?").to_string();
        if name.starts_with("case") && std::env::var("RVH_PANIC_MSG").is_ok() {
            eprintln!("PANIC {}", info.to_string().replace('\n', " "));
        }
        if !name.starts_with("case") {
            let msg = format!("{}@{}", name, info.to_string().replace(['\n', ' '], "_"));
            // a worker whose `DB::open` failed panics on the closed task channel
            // (compaction/worker.rs receiver.recv().unwrap()): not the thread of an open database
            if msg.contains("RecvError") {
                return;
            }
            BACKGROUND_PANICS.lock().unwrap().push(msg);
        }
    }));
    let args: Vec<String> = std::env::args().collect();
    let suite = args[1].as_str();
    let f: fn(&str) -> String = match suite {
        "log" => suite_log::run_log,
        "crcmask" => suite_log::run_crcmask,
        "bloom" => suite_filter::run_bloom,
        "fblock" => suite_filter::run_fblock,
        "key" => suite_table::run_key,
        "block" => suite_table::run_block,
        "table" => suite_table::run_table,
        "tfile" => suite_table::run_tfile,
        "cache" => suite_cache::run_cache,
        "names" => suite_names::run_names,
        "vfn" => suite_version::run_vfn,
        "dbhist" => suite_db::run_dbhist,
        "crash" => suite_crash::run_crash,
        "recover" => suite_crash::run_recover,
        "recoverc" => suite_crash::run_recover_corrupt,
        "proto" => suite_proto::run_proto,
        "wfault" => suite_wfault::run_wfault,
        "fault" => suite_fault::run_fault,
        "corrupt" => suite_corrupt::run_corrupt,
        "sched" => suite_sched::run_sched,
        "lock" => suite_lock::run_lock,
        "codec" => suite_codec::run_codec,
        _ => panic!("unknown suite {}", suite),
    };
    let timeout = Duration::from_secs(
        std::env::var("RVH_CASE_TIMEOUT")
            .ok()
            .and_then(|s| s.parse().ok())
            .unwrap_or(120),
    );
    let stdin = std::io::stdin();
    let stdout = std::io::stdout();
    let mut out = BufWriter::new(stdout.lock());
    for line in stdin.lock().lines() {
        let line = line.unwrap();
        if line.is_empty() {
            continue;
        }
        let id = line.split(' ').next().unwrap_or("?").to_string();
        let (tx, rx) = mpsc::channel();
        let l2 = line.clone();
        let handle = std::thread::Builder::new()
            .name("case".to_string())
            .stack_size(256 << 20)
            .spawn(move || {
                let res = std::panic::catch_unwind(move || f(&l2));
                let _ = tx.send(res);
            })
            .unwrap();
        let text = match rx.recv_timeout(timeout) {
            Ok(Ok(s)) => {
                let _ = handle.join();
                s
            }
            Ok(Err(e)) => {
                let msg = if let Some(s) = e.downcast_ref::<String>() {
                    s.clone()
                } else if let Some(s) = e.downcast_ref::<&str>() {
                    s.to_string()
                } else {
                    "?".to_string()
                };
                format!("{} HARNESS-PANIC {}", id, msg.replace('\n', " "))
            }
            Err(_) => format!("{} HANG", id),
        };
        let bg: Vec<String> = BACKGROUND_PANICS.lock().unwrap().drain(..).collect();
        if bg.is_empty() {
            writeln!(out, "{}", text).unwrap();
        } else {
            writeln!(out, "{} BGPANIC[{}]", text, bg.join("|")).unwrap();
        }
        out.flush().unwrap();
    }
}
