//! Suite `dbhist`: single-client histories against a real database on SimFs.
//!
//! case: <id> <memtable>:<filesize>:<blocksize>:<reuse> op op ...
//!  P<k>=<v>  D<k>  B<k>=<v>;<k>;...   G<k>   S (snapshot)  R<i> (release i-th snapshot)
//!  H<i>:<k> (get at snapshot i)   J<name>:<i|-> (new iterator)   K<name>:<cops,...>   Q<name>
//!  C<lo|->:<hi|->  (compact_range)   O<memtable>:<filesize>:<blocksize>:<reuse> (close + reopen)
//!  W (wait for background work)   A (scan everything)   X (structural dump)   L (list files)
//!  T (descriptors)
use std::collections::HashMap;
use std::path::PathBuf;
use std::sync::{Arc, Mutex};
use std::time::{Duration, Instant};

use raindb::db::DatabaseDescriptor;
use raindb::fs::FileSystem;
use raindb::verif_hooks::tables as vt;
use raindb::{Batch, DbOptions, RainDBError, RainDbIterator, ReadOptions, Snapshot, WriteOptions, DB};

use crate::simfs::SimFs;
use crate::util::*;

pub type DbIter = Box<dyn RainDbIterator<Key = Vec<u8>, Error = RainDBError>>;

/// internal steps reported by the database (version installs with the entries of the new table
/// files, compaction starts, trivial moves), serialised for the step-refinement check
pub static EVENTS: Mutex<Vec<String>> = Mutex::new(Vec::new());

fn key_str(k: &(Vec<u8>, u64, u8)) -> String {
    format!("x{}:{}:{}", hex(&k.0), k.1, k.2)
}

/// install the event observer: every event is serialised at once (the entries of a new table file
/// are read from the file system image while the file certainly exists)
pub fn enable_events(sim: &SimFs, cfg: (usize, u64, usize, bool)) {
    use raindb::verif_hooks::events::{self, Event};
    let sim2 = sim.clone();
    events::install(Arc::new(move |ev: &Event| {
        let line = match ev {
            Event::VersionInstalled { deleted, added, last_sequence } => {
                let opts = make_options(&sim2, cfg);
                let mut del: Vec<String> = deleted.iter().map(|(l, n)| format!("{}:{}", l, n)).collect();
                del.sort();
                let add: Vec<String> = added
                    .iter()
                    .map(|(l, n, size, small, large)| {
                        let path = PathBuf::from(format!("db/data/{}.rdb", n));
                        let entries = match vt::VTable::open(opts.clone(), &path) {
                            Ok(t) => match t.layout() {
                                Ok(lay) => {
                                    let es: Vec<String> = lay
                                        .into_iter()
                                        .flat_map(|(_, _, es)| es)
                                        .map(|e| format!("x{}:{}:{}:x{}", hex(&e.0), e.1, e.2, hex(&e.3)))
                                        .collect();
                                    if es.is_empty() { "-".to_string() } else { es.join(",") }
                                }
                                Err(_) => "unreadable".to_string(),
                            },
                            Err(_) => "unreadable".to_string(),
                        };
                        format!("{}@{}@{}@{}~{}@{}", l, n, size, key_str(small), key_str(large), entries)
                    })
                    .collect();
                format!(
                    "I[{}][{}][{}]",
                    del.join(";"),
                    if add.is_empty() { "-".to_string() } else { add.join("+") },
                    last_sequence
                )
            }
            Event::CompactionStart { level, inputs0, inputs1, smallest_snapshot } => format!(
                "C[{}][{}][{}][{}]",
                level,
                inputs0.iter().map(|n| n.to_string()).collect::<Vec<_>>().join(";"),
                inputs1.iter().map(|n| n.to_string()).collect::<Vec<_>>().join(";"),
                smallest_snapshot
            ),
            Event::TrivialMove { level, file } => format!("M[{}][{}]", level, file),
            Event::Rotated { new_wal } => format!("N[{}]", new_wal),
            Event::ManifestRecord { wal, prev_wal, next_file, pointers, last_sequence } => {
                let o = |x: &Option<u64>| x.map(|v| v.to_string()).unwrap_or("-".to_string());
                format!(
                    "L[{}][{}][{}][{}][{}]",
                    o(wal),
                    o(prev_wal),
                    o(next_file),
                    pointers.iter().map(|(l, k)| format!("{}@{}", l, key_str(k))).collect::<Vec<_>>().join(";"),
                    o(last_sequence)
                )
            }
        };
        EVENTS.lock().unwrap().push(line);
    }));
}

pub fn mark_event(text: &str) {
    if raindb::verif_hooks::events::is_installed() {
        EVENTS.lock().unwrap().push(text.to_string());
    }
}

pub struct Session {
    pub sim: SimFs,
    pub db: Option<DB>,
    pub snaps: Vec<Option<Snapshot>>,
    pub iters: HashMap<String, DbIter>,
    pub cfg: (usize, u64, usize, bool),
    /// number of directory listings the file system had seen when an iterator was last released
    /// (obsolete files are only collected by remove_obsolete_files, which lists the directories)
    pub lists_at_release: Option<usize>,
}

pub fn parse_cfg(tok: &str) -> (usize, u64, usize, bool) {
    let p: Vec<&str> = tok.split(':').collect();
    (
        p[0].parse().unwrap(),
        p[1].parse().unwrap(),
        p[2].parse().unwrap(),
        p[3] == "1",
    )
}

pub fn make_options(sim: &SimFs, cfg: (usize, u64, usize, bool)) -> DbOptions {
    let mut o = DbOptions::with_memory_env();
    o.filesystem_provider = Arc::new(sim.clone());
    o.db_path = "db".to_string();
    o.max_memtable_size = cfg.0;
    o.max_file_size = cfg.1;
    o.max_block_size = cfg.2;
    o.reuse_log_files = cfg.3;
    o.create_if_missing = true;
    o
}

pub fn err_class(e: &RainDBError) -> String {
    match e {
        RainDBError::KeyNotFound => "nf".to_string(),
        other => {
            let s = format!("{:?}", other);
            let head: String = s.chars().take_while(|c| c.is_alphanumeric()).collect();
            format!("err:{}", head)
        }
    }
}

impl Session {
    pub fn open(sim: SimFs, cfg: (usize, u64, usize, bool)) -> Result<Session, String> {
        let opts = make_options(&sim, cfg);
        mark_event(&format!("O[{}][{}]", cfg.1, cfg.3 as u8));
        let res = DB::open(opts);
        mark_event("R[]");
        match res {
            Ok(db) => Ok(Session {
                sim,
                db: Some(db),
                snaps: vec![],
                iters: HashMap::new(),
                cfg,
                lists_at_release: None,
            }),
            Err(e) => Err(err_class(&e)),
        }
    }

    pub fn db(&self) -> &DB {
        self.db.as_ref().unwrap()
    }

    /// Wait until no background compaction is scheduled and there is no immutable memtable.
    pub fn quiesce(&self) -> bool {
        let start = Instant::now();
        loop {
            let d = self.db().verif_dump();
            if !d.background_compaction_scheduled && (d.immutable.is_none() || d.bad_state.is_some()) {
                return true;
            }
            if start.elapsed() > Duration::from_secs(20) {
                return false;
            }
            std::thread::sleep(Duration::from_micros(200));
        }
    }

    pub fn close(&mut self) {
        self.iters.clear();
        self.snaps.clear();
        self.db.take();
    }

    pub fn read_opts(&self, snap: Option<usize>) -> ReadOptions {
        ReadOptions {
            fill_cache: true,
            snapshot: snap.and_then(|i| self.snaps.get(i).cloned().flatten()),
        }
    }

    pub fn get(&self, snap: Option<usize>, key: &[u8]) -> String {
        match self.db().get(self.read_opts(snap), key) {
            Ok(v) => format!("v{}", hex(&v)),
            Err(e) => err_class(&e),
        }
    }

    pub fn scan_all(&self, snap: Option<usize>) -> String {
        let mut out: Vec<String> = vec![];
        match self.db().new_iterator(self.read_opts(snap)) {
            Err(e) => return err_class(&e),
            Ok(mut it) => {
                if let Err(e) = it.seek_to_first() {
                    return err_class(&e);
                }
                while it.is_valid() {
                    let (k, v) = it.current().unwrap();
                    out.push(format!("{}={}", hex(k), hex(v)));
                    it.next();
                }
            }
        }
        if out.is_empty() {
            "-".to_string()
        } else {
            out.join(",")
        }
    }

    /// structural dump: levels with bounds, memtable sizes, sequence, snapshots, counters, and
    /// the entries of every table file of the current version
    pub fn dump(&self) -> String {
        let d = self.db().verif_dump();
        let opts = make_options(&self.sim, self.cfg);
        let key = |k: &(Vec<u8>, u64, u8)| format!("x{}:{}:{}", hex(&k.0), k.1, k.2);
        let ent = |e: &(Vec<u8>, u64, u8, Vec<u8>)| format!("x{}:{}:{}:x{}", hex(&e.0), e.1, e.2, hex(&e.3));
        let ents = |es: &Vec<(Vec<u8>, u64, u8, Vec<u8>)>| {
            if es.is_empty() {
                "-".to_string()
            } else {
                es.iter().map(ent).collect::<Vec<_>>().join(",")
            }
        };
        let mut levels: Vec<String> = vec![];
        for files in d.levels.iter() {
            let mut fs: Vec<String> = vec![];
            for f in files {
                let path = PathBuf::from(format!("db/data/{}.rdb", f.0));
                let entries = match vt::VTable::open(opts.clone(), &path) {
                    Ok(t) => match t.layout() {
                        Ok(l) => ents(&l.into_iter().flat_map(|(_, _, es)| es).collect()),
                        Err(e) => format!("unreadable:{}", e.replace([' ', '/', '@', '+', '[', ']'], "_").replace(',', ";")),
                    },
                    Err(e) => format!("unreadable:{}", e.replace([' ', '/', '@', '+', '[', ']'], "_").replace(',', ";")),
                };
                fs.push(format!("{}@{}@{}~{}@{}", f.0, f.1, key(&f.2), key(&f.3), entries));
            }
            levels.push(if fs.is_empty() { "-".to_string() } else { fs.join("+") });
        }
        format!(
            "V[{}]mem[{}]imm[{}]seq[{}]snaps[{}]next[{}]wal[{}/{}/{}]man[{}]inuse[{}]live[{}]bad[{}]work[{}{}{}{}]",
            levels.join("/"),
            ents(&d.memtable),
            match &d.immutable {
                Some(es) => ents(es),
                None => "none".to_string(),
            },
            d.last_sequence,
            d.snapshots.iter().map(|s| s.to_string()).collect::<Vec<_>>().join(","),
            d.curr_file_number,
            d.curr_wal_number,
            d.version_set_wal_number,
            d.prev_wal_number.map(|n| n.to_string()).unwrap_or("-".to_string()),
            d.manifest_file_number,
            d.tables_in_use.iter().map(|s| s.to_string()).collect::<Vec<_>>().join(","),
            d.live_versions
                .iter()
                .map(|v| v.iter().map(|s| s.to_string()).collect::<Vec<_>>().join(","))
                .collect::<Vec<_>>()
                .join("|"),
            d.bad_state.is_some() as u8,
            d.background_compaction_scheduled as u8,
            d.immutable.is_some() as u8,
            d.has_manual_compaction as u8,
            d.needs_compaction as u8
        )
    }

    pub fn list_files(&self) -> String {
        let mut names: Vec<String> = self
            .sim
            .all_files()
            .into_iter()
            .map(|(p, n)| format!("{}:{}", p.to_string_lossy(), n))
            .collect();
        names.sort();
        names.join(",")
    }

    pub fn iter_script(&mut self, name: &str, ops: &str) -> String {
        let it = match self.iters.get_mut(name) {
            Some(i) => i,
            None => return "noiter".to_string(),
        };
        let mut out: Vec<String> = vec![];
        for op in split_nonempty(ops, ',') {
            let r: Result<(), RainDBError> = match op.as_bytes()[0] {
                b'f' => it.seek_to_first(),
                b'l' => it.seek_to_last(),
                b's' => it.seek(&parse_bytes(&op[1..])),
                b'n' => {
                    if it.is_valid() {
                        it.next();
                        Ok(())
                    } else {
                        out.push("skip".to_string());
                        continue;
                    }
                }
                b'p' => {
                    if it.is_valid() {
                        it.prev();
                        Ok(())
                    } else {
                        out.push("skip".to_string());
                        continue;
                    }
                }
                _ => panic!("bad iterator op {}", op),
            };
            match r {
                Err(e) => out.push(err_class(&e)),
                Ok(()) => {
                    if it.is_valid() {
                        let (k, v) = it.current().unwrap();
                        out.push(format!("{}={}", hex(k), hex(v)));
                    } else {
                        out.push("inv".to_string());
                    }
                }
            }
        }
        if out.is_empty() {
            "-".to_string()
        } else {
            out.join(",")
        }
    }

    /// Execute one history token, returning its result token.
    pub fn exec(&mut self, op: &str) -> String {
        let body = &op[1..];
        match op.as_bytes()[0] {
            b'P' => {
                let i = body.find('=').unwrap();
                match self.db().put(
                    WriteOptions::default(),
                    parse_bytes(&body[..i]),
                    parse_bytes(&body[i + 1..]),
                ) {
                    Ok(()) => "ok".to_string(),
                    Err(e) => err_class(&e),
                }
            }
            b'D' => match self.db().delete(WriteOptions::default(), parse_bytes(body)) {
                Ok(()) => "ok".to_string(),
                Err(e) => err_class(&e),
            },
            b'B' => {
                let mut batch = Batch::new();
                for el in split_nonempty(body, ';') {
                    match el.find('=') {
                        Some(i) => {
                            batch.add_put(parse_bytes(&el[..i]), parse_bytes(&el[i + 1..]));
                        }
                        None => {
                            batch.add_delete(parse_bytes(el));
                        }
                    }
                }
                match self.db().apply(WriteOptions::default(), batch) {
                    Ok(()) => "ok".to_string(),
                    Err(e) => err_class(&e),
                }
            }
            b'G' => self.get(None, &parse_bytes(body)),
            b'S' => {
                let s = self.db().get_snapshot();
                self.snaps.push(Some(s));
                format!("s{}", self.snaps.len() - 1)
            }
            b'R' => {
                let i: usize = body.parse().unwrap();
                if let Some(Some(s)) = self.snaps.get(i).cloned() {
                    self.db().release_snapshot(s);
                    self.snaps[i] = None;
                    "ok".to_string()
                } else {
                    "nosnap".to_string()
                }
            }
            b'H' => {
                let i = body.find(':').unwrap();
                let idx: usize = body[..i].parse().unwrap();
                if self.snaps.get(idx).cloned().flatten().is_none() {
                    return "nosnap".to_string();
                }
                self.get(Some(idx), &parse_bytes(&body[i + 1..]))
            }
            b'J' => {
                let i = body.find(':').unwrap();
                let snap = if &body[i + 1..] == "-" {
                    None
                } else {
                    Some(body[i + 1..].parse::<usize>().unwrap())
                };
                if let Some(s) = snap {
                    if self.snaps.get(s).cloned().flatten().is_none() {
                        return "nosnap".to_string();
                    }
                }
                match self.db().new_iterator(self.read_opts(snap)) {
                    Ok(it) => {
                        self.iters.insert(body[..i].to_string(), Box::new(it));
                        "ok".to_string()
                    }
                    Err(e) => err_class(&e),
                }
            }
            b'K' => {
                let i = body.find(':').unwrap();
                let name = body[..i].to_string();
                self.iter_script(&name, &body[i + 1..])
            }
            b'Q' => {
                if self.iters.remove(body).is_some() {
                    self.lists_at_release = Some(self.sim.list_calls());
                }
                "ok".to_string()
            }
            b'C' => {
                let i = body.find(':').unwrap();
                let lo = if &body[..i] == "-" { None } else { Some(parse_bytes(&body[..i])) };
                let hi = if &body[i + 1..] == "-" { None } else { Some(parse_bytes(&body[i + 1..])) };
                self.db().compact_range(lo.as_deref()..hi.as_deref());
                "ok".to_string()
            }
            b'O' => {
                let cfg = parse_cfg(body);
                self.close();
                let opts = make_options(&self.sim, cfg);
                self.cfg = cfg;
                if raindb::verif_hooks::events::is_installed() {
                    enable_events(&self.sim, cfg);
                }
                mark_event(&format!("O[{}][{}]", cfg.1, cfg.3 as u8));
                let res = DB::open(opts);
                mark_event("R[]");
                match res {
                    Ok(db) => {
                        self.db = Some(db);
                        "ok".to_string()
                    }
                    Err(e) => format!("open-{}", err_class(&e)),
                }
            }
            b'N' => {
                // close the database handle while iterators created from it are still alive
                let r = std::panic::catch_unwind(std::panic::AssertUnwindSafe(|| {
                    self.snaps.clear();
                    self.db.take();
                }));
                self.iters.clear();
                match r {
                    Ok(()) => "ok".to_string(),
                    Err(_) => "close-panicked".to_string(),
                }
            }
            b'W' => {
                if self.quiesce() {
                    "ok".to_string()
                } else {
                    "not-quiescent".to_string()
                }
            }
            b'A' => self.scan_all(None),
            b'X' => {
                // the dump reads the table files of the current version: let background work end
                // first so that the files are not replaced underneath it
                self.quiesce();
                self.dump()
            }
            b'L' => self.list_files(),
            b'Y' => {
                self.quiesce();
                let r = crate::suite_crash::dir_check(self);
                let facts = crate::suite_crash::LAST_DIR_FACTS.lock().unwrap().pop().unwrap_or_default();
                // not exact: let one more collection run (nothing is pinned now) and look again;
                // what that collection removes was merely not reclaimed when its last holder let go
                let after = if r == "exact" {
                    String::new()
                } else {
                    self.db().verif_collect_garbage();
                    self.quiesce();
                    let r2 = crate::suite_crash::dir_check(self);
                    let _ = crate::suite_crash::LAST_DIR_FACTS.lock().unwrap().pop();
                    format!("#AFTERGC:{}", r2)
                };
                format!("{}#{}{}", r, facts, after)
            }
            b'V' => {
                // the events since the previous V token
                self.quiesce();
                let evs: Vec<String> = EVENTS.lock().unwrap().drain(..).collect();
                if evs.is_empty() { "-".to_string() } else { evs.join("|") }
            }
            b'M' => {
                // <n> fresh iterators, each positioned on the first entry and dropped again (every
                // freshly positioned iterator takes one read sample)
                let n: usize = op[1..].parse().unwrap();
                let mut bad = 0;
                for _ in 0..n {
                    match self.db().new_iterator(self.read_opts(None)) {
                        Ok(mut it) => {
                            if it.seek_to_first().is_err() {
                                bad += 1;
                            }
                        }
                        Err(_) => bad += 1,
                    }
                }
                if bad == 0 { "ok".to_string() } else { format!("iter-errors:{}", bad) }
            }
            b'E' => match self.db().get_descriptor(DatabaseDescriptor::Stats) {
                Ok(s) => format!("stats:{}", s.len()),
                Err(e) => err_class(&e),
            },
            b'T' => {
                let n: Vec<String> = (0..7)
                    .map(|l| {
                        self.db()
                            .get_descriptor(DatabaseDescriptor::NumFilesAtLevel(l))
                            .unwrap_or_else(|_| "err".to_string())
                    })
                    .collect();
                let ss = self
                    .db()
                    .get_descriptor(DatabaseDescriptor::SSTables)
                    .unwrap_or_else(|_| "err".to_string());
                format!("{}#{}", n.join(","), hex(ss.as_bytes()))
            }
            _ => panic!("bad op {}", op),
        }
    }
}

pub fn run_dbhist(line: &str) -> String {
    let toks = split_nonempty(line, ' ');
    let id = toks[0];
    let cfg = parse_cfg(toks[1]);
    let sim = SimFs::new();
    EVENTS.lock().unwrap().clear();
    if toks.iter().any(|t| *t == "V") {
        enable_events(&sim, cfg);
    }
    let mut sess = match Session::open(sim, cfg) {
        Ok(s) => s,
        Err(e) => return format!("{} open-{}", id, e),
    };
    let mut out: Vec<String> = vec![];
    for op in &toks[2..] {
        if sess.db.is_none() && op.as_bytes()[0] != b'O' {
            out.push("closed".to_string());
            continue;
        }
        out.push(sess.exec(op));
    }
    sess.close();
    raindb::verif_hooks::events::uninstall();
    format!("{} {}", id, out.join(" "))
}
