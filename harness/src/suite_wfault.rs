//! Suite `wfault`: the write path under a failing write-ahead log append (model `Faults.v`).
//! One log (the memtable never fills): every operation is a put / delete / batch; before operation
//! number <j> a fault is armed on the <f>-th write call to the log from then on, which lets
//! <partial> bytes through and fails.
//!
//! case: <id> <j>:<f>:<partial> op op ...
//! output: <id> <result,len-of-log-after>;... | <scan during the run> | x<log bytes> | <scan after reopen>
use std::path::PathBuf;

use crate::simfs::{FaultPlan, SimFs};
use crate::suite_db::{parse_cfg, Session};
use crate::util::*;

pub fn run_wfault(line: &str) -> String {
    let toks = split_nonempty(line, ' ');
    let id = toks[0];
    let plan: Vec<usize> = toks[1].split(':').map(|x| x.parse().unwrap()).collect();
    let cfg = parse_cfg("67108864:67108864:4096:1");
    let sim = SimFs::new();
    let mut sess = match Session::open(sim.clone(), cfg) {
        Ok(s) => s,
        Err(e) => return format!("{} open-{}", id, e),
    };
    let wal_len = |sim: &SimFs| -> (String, usize) {
        for (p, n) in sim.all_files() {
            let s = p.to_string_lossy().to_string();
            if s.contains("wal-") {
                return (s, n);
            }
        }
        ("".to_string(), 0)
    };
    let mut res: Vec<String> = vec![];
    for (i, op) in toks[2..].iter().enumerate() {
        if i == plan[0] {
            sim.arm_fault(FaultPlan {
                class: "write".to_string(),
                path_part: "wal-".to_string(),
                ordinal: plan[1],
                sticky: false,
                partial: plan[2],
            });
        }
        let r = sess.exec(op);
        res.push(format!("{},{}", if r == "ok" { "ok" } else { "err" }, wal_len(&sim).1));
    }
    let fired = sim.disarm_fault();
    let scan = sess.scan_all(None);
    let (wal_path, _) = wal_len(&sim);
    let wal = sim.read_whole(&PathBuf::from(&wal_path)).unwrap_or_default();
    sess.close();
    let reopened = match Session::open(sim.clone(), cfg) {
        Ok(mut s2) => {
            let r = s2.scan_all(None);
            s2.close();
            r
        }
        Err(e) => format!("open-{}", e),
    };
    format!("{} {} | {} | x{} | {} | fired={}", id, res.join(";"), scan, hex(&wal), reopened, fired)
}
