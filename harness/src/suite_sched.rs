//! Suite `sched`: pause-point schedules (Tier A). Named threads run one database operation
//! each; a thread can be armed to park at a scheduling point (where it does not hold the
//! database mutex) until the script releases it; everything else runs sequentially on the main
//! thread.
//!
//! case: <id> <cfg> step step ...
//!   M<op>            run a dbhist-style operation on the main thread (P D B G S H A C W X ...)
//!   A<name>:<point>  arm: thread <name> parks the next time it reaches <point>
//!   T<name>:<op>     spawn thread <name> running <op> (P D B G H A S C)
//!   V<name>          wait until <name> is parked or has finished
//!   U<name>          release <name> if parked
//!   J<name>          join <name> and report its result
//!   Q                wait for background work to quiesce (the background thread is named `bg`)
//!   K                crash image: a copy of the file system as it is now is opened as a database
//!                    and scanned
use std::collections::HashMap;
use std::sync::{Arc, Condvar, Mutex};
use std::time::{Duration, Instant};

use raindb::verif_hooks::sched as vsched;
use raindb::{Batch, ReadOptions, Snapshot, WriteOptions, DB};

use crate::simfs::SimFs;
use crate::suite_db::{err_class, make_options, parse_cfg};
use crate::util::*;

#[derive(Default)]
struct CtlState {
    armed: HashMap<String, String>,
    parked: HashMap<String, String>,
    released: HashMap<String, bool>,
}

struct Ctl {
    st: Mutex<CtlState>,
    cv: Condvar,
}

fn thread_tag() -> String {
    let t = std::thread::current();
    let n = t.name().unwrap_or("?").to_string();
    if let Some(rest) = n.strip_prefix("case-sched-") {
        rest.to_string()
    } else if n.starts_with("case") {
        "main".to_string()
    } else {
        "bg".to_string()
    }
}

fn exec_shared(db: &DB, snaps: &Mutex<Vec<Option<Snapshot>>>, op: &str) -> String {
    let body = &op[1..];
    match op.as_bytes()[0] {
        b'P' => {
            let i = body.find('=').unwrap();
            match db.put(WriteOptions::default(), parse_bytes(&body[..i]), parse_bytes(&body[i + 1..])) {
                Ok(()) => "ok".to_string(),
                Err(e) => err_class(&e),
            }
        }
        b'D' => match db.delete(WriteOptions::default(), parse_bytes(body)) {
            Ok(()) => "ok".to_string(),
            Err(e) => err_class(&e),
        },
        b'B' => {
            let mut batch = Batch::new();
            for el in split_nonempty(body, ';') {
                match el.find('=') {
                    Some(i) => {
                        batch.add_put(parse_bytes(&el[..i]), parse_bytes(&el[i + 1..]));
                    }
                    None => {
                        batch.add_delete(parse_bytes(el));
                    }
                }
            }
            match db.apply(WriteOptions::default(), batch) {
                Ok(()) => "ok".to_string(),
                Err(e) => err_class(&e),
            }
        }
        b'G' => match db.get(ReadOptions::default(), &parse_bytes(body)) {
            Ok(v) => format!("v{}", hex(&v)),
            Err(e) => err_class(&e),
        },
        b'H' => {
            let i = body.find(':').unwrap();
            let idx: usize = body[..i].parse().unwrap();
            let snap = snaps.lock().unwrap().get(idx).cloned().flatten();
            match snap {
                None => "nosnap".to_string(),
                Some(s) => match db.get(
                    ReadOptions {
                        fill_cache: true,
                        snapshot: Some(s),
                    },
                    &parse_bytes(&body[i + 1..]),
                ) {
                    Ok(v) => format!("v{}", hex(&v)),
                    Err(e) => err_class(&e),
                },
            }
        }
        b'S' => {
            let s = db.get_snapshot();
            let mut g = snaps.lock().unwrap();
            g.push(Some(s));
            format!("s{}", g.len() - 1)
        }
        b'A' | b'Z' => {
            // A: scan at the latest state; Z<i>: scan at snapshot i
            let snap = if op.as_bytes()[0] == b'Z' {
                snaps.lock().unwrap().get(body.parse::<usize>().unwrap()).cloned().flatten()
            } else {
                None
            };
            let mut out: Vec<String> = vec![];
            match db.new_iterator(ReadOptions {
                fill_cache: true,
                snapshot: snap,
            }) {
                Err(e) => return err_class(&e),
                Ok(mut it) => {
                    use raindb::RainDbIterator;
                    if let Err(e) = it.seek_to_first() {
                        return err_class(&e);
                    }
                    while it.is_valid() {
                        let (k, v) = it.current().unwrap();
                        out.push(format!("{}={}", hex(k), hex(v)));
                        it.next();
                    }
                }
            }
            if out.is_empty() {
                "-".to_string()
            } else {
                out.join(",")
            }
        }
        b'C' => {
            let i = body.find(':').unwrap();
            let lo = if &body[..i] == "-" { None } else { Some(parse_bytes(&body[..i])) };
            let hi = if &body[i + 1..] == "-" { None } else { Some(parse_bytes(&body[i + 1..])) };
            db.compact_range(lo.as_deref()..hi.as_deref());
            "ok".to_string()
        }
        _ => panic!("bad shared op {}", op),
    }
}

fn quiesce(db: &DB) -> bool {
    let start = Instant::now();
    loop {
        let d = db.verif_dump();
        if !d.background_compaction_scheduled && (d.immutable.is_none() || d.bad_state.is_some()) {
            return true;
        }
        if start.elapsed() > Duration::from_secs(10) {
            return false;
        }
        std::thread::sleep(Duration::from_micros(200));
    }
}

pub fn run_sched(line: &str) -> String {
    let toks = split_nonempty(line, ' ');
    let id = toks[0];
    let cfg = parse_cfg(toks[1]);
    let sim = SimFs::new();
    let db = match DB::open(make_options(&sim, cfg)) {
        Ok(d) => Arc::new(d),
        Err(e) => return format!("{} open-{}", id, err_class(&e)),
    };
    let snaps: Arc<Mutex<Vec<Option<Snapshot>>>> = Arc::new(Mutex::new(vec![]));
    let ctl = Arc::new(Ctl {
        st: Mutex::new(CtlState::default()),
        cv: Condvar::new(),
    });
    {
        let ctl2 = Arc::clone(&ctl);
        vsched::install(Arc::new(move |point: &'static str| {
            let tag = thread_tag();
            let mut st = ctl2.st.lock().unwrap();
            if st.armed.get(&tag).map(|p| p == point).unwrap_or(false) {
                st.armed.remove(&tag);
                st.parked.insert(tag.clone(), point.to_string());
                st.released.insert(tag.clone(), false);
                ctl2.cv.notify_all();
                let deadline = Instant::now() + Duration::from_secs(60);
                while !st.released.get(&tag).cloned().unwrap_or(true) {
                    let (g, _) = ctl2.cv.wait_timeout(st, Duration::from_millis(200)).unwrap();
                    st = g;
                    if Instant::now() > deadline {
                        break;
                    }
                }
                st.parked.remove(&tag);
                ctl2.cv.notify_all();
            }
        }));
    }
    let mut handles: HashMap<String, std::thread::JoinHandle<String>> = HashMap::new();
    let mut out: Vec<String> = vec![];
    for step in &toks[2..] {
        let body = &step[1..];
        match step.as_bytes()[0] {
            b'M' => out.push(exec_shared(&db, &snaps, body)),
            b'A' => {
                let i = body.find(':').unwrap();
                ctl.st.lock().unwrap().armed.insert(body[..i].to_string(), body[i + 1..].to_string());
                out.push("ok".to_string());
            }
            b'T' => {
                let i = body.find(':').unwrap();
                let name = body[..i].to_string();
                let op = body[i + 1..].to_string();
                let db2 = Arc::clone(&db);
                let sn2 = Arc::clone(&snaps);
                let h = std::thread::Builder::new()
                    .name(format!("case-sched-{}", name))
                    .spawn(move || exec_shared(&db2, &sn2, &op))
                    .unwrap();
                handles.insert(name, h);
                out.push("ok".to_string());
            }
            b'V' => {
                let deadline = Instant::now() + Duration::from_secs(2);
                let mut res = "timeout".to_string();
                loop {
                    let parked = ctl.st.lock().unwrap().parked.get(body).cloned();
                    if let Some(p) = parked {
                        res = format!("parked@{}", p);
                        break;
                    }
                    if handles.get(body).map(|h| h.is_finished()).unwrap_or(body != "bg") {
                        res = "finished".to_string();
                        break;
                    }
                    if Instant::now() > deadline {
                        break;
                    }
                    std::thread::sleep(Duration::from_micros(200));
                }
                out.push(res);
            }
            b'U' => {
                let mut st = ctl.st.lock().unwrap();
                if st.parked.contains_key(body) {
                    st.released.insert(body.to_string(), true);
                    ctl.cv.notify_all();
                    // wait until the thread has actually left the scheduling point (a following V
                    // must not see the old entry)
                    let deadline = Instant::now() + Duration::from_secs(2);
                    while st.parked.contains_key(body) && Instant::now() < deadline {
                        let (g, _) = ctl.cv.wait_timeout(st, Duration::from_millis(50)).unwrap();
                        st = g;
                    }
                    out.push("ok".to_string());
                } else {
                    st.armed.remove(body);
                    out.push("notparked".to_string());
                }
            }
            b'J' => match handles.remove(body) {
                None => out.push("nothread".to_string()),
                Some(h) => {
                    let deadline = Instant::now() + Duration::from_secs(20);
                    while !h.is_finished() && Instant::now() < deadline {
                        std::thread::sleep(Duration::from_micros(200));
                    }
                    if h.is_finished() {
                        match h.join() {
                            Ok(r) => out.push(r),
                            Err(_) => out.push("panic".to_string()),
                        }
                    } else {
                        out.push("stuck".to_string());
                    }
                }
            },
            b'Q' => out.push(if quiesce(&db) { "ok".to_string() } else { "not-quiescent".to_string() }),
            b'K' => {
                // crash image: what is in the file system right now is opened as a database of
                // its own and scanned (the running database is not disturbed)
                let image = sim.snapshot();
                let res = std::panic::catch_unwind(std::panic::AssertUnwindSafe(|| {
                    match DB::open(make_options(&image, cfg)) {
                        Err(e) => format!("open-{}", err_class(&e)),
                        Ok(d2) => {
                            let empty: Mutex<Vec<Option<Snapshot>>> = Mutex::new(vec![]);
                            let r = exec_shared(&d2, &empty, "A");
                            quiesce(&d2);
                            drop(d2);
                            r
                        }
                    }
                }))
                .unwrap_or_else(|_| "panic".to_string());
                out.push(res);
            }
            _ => panic!("bad step {}", step),
        }
    }
    // release everything that is still parked, then close
    {
        let mut st = ctl.st.lock().unwrap();
        st.armed.clear();
        let names: Vec<String> = st.parked.keys().cloned().collect();
        for n in names {
            st.released.insert(n, true);
        }
        ctl.cv.notify_all();
    }
    for (_, h) in handles.drain() {
        let deadline = Instant::now() + Duration::from_secs(10);
        while !h.is_finished() && Instant::now() < deadline {
            std::thread::sleep(Duration::from_millis(1));
        }
    }
    vsched::uninstall();
    snaps.lock().unwrap().clear();
    match Arc::try_unwrap(db) {
        Ok(d) => drop(d),
        Err(_) => out.push("db-still-shared".to_string()),
    }
    format!("{} {}", id, out.join(" "))
}
