//! Suite `names`: file naming and recognition.
//! case: <id> F<kind><number>   (format, then parse what was formatted)
//!       <id> N<hex of a name>  (parse an arbitrary name)
//! output: <id> <hex name> <kind><number|-> / <id> <kind><number> | none
use raindb::verif_hooks::names as vn;

use crate::util::*;

fn show(p: Option<(char, u64)>) -> String {
    match p {
        Some((k, n)) if k == 'C' || k == 'L' => format!("{}", k),
        Some((k, n)) => format!("{}{}", k, n),
        None => "none".to_string(),
    }
}

pub fn run_names(line: &str) -> String {
    let toks = split_nonempty(line, ' ');
    let id = toks[0];
    let t = toks[1];
    match t.as_bytes()[0] {
        b'F' => {
            let kind = t.as_bytes()[1] as char;
            let n: u64 = if t.len() > 2 { t[2..].parse().unwrap() } else { 0 };
            let name = vn::file_name(kind, n);
            format!("{} x{} {}", id, hex(name.as_bytes()), show(vn::parse(&name)))
        }
        _ => {
            let raw = parse_bytes(&t[1..]);
            match String::from_utf8(raw) {
                Ok(s) => format!("{} {}", id, show(vn::parse(&s))),
                Err(_) => format!("{} notutf8", id),
            }
        }
    }
}
