//! Suite `cache`: the LRU cache behind the block cache and the table cache.
//! case: <id> <capacity> op op ...   ops: I<k>=<v>  G<k>  R<k>
//! output: <id> <value|-,len> per op
use raindb::verif_hooks::caches::VLru;

use crate::util::*;

pub fn run_cache(line: &str) -> String {
    let toks = split_nonempty(line, ' ');
    let cap: usize = toks[1].parse().unwrap();
    let c = VLru::new(cap);
    let mut out: Vec<String> = vec![];
    for op in &toks[2..] {
        let body = &op[1..];
        let r = match op.as_bytes()[0] {
            b'I' => {
                let i = body.find('=').unwrap();
                Some(c.insert(body[..i].parse().unwrap(), body[i + 1..].parse().unwrap()))
            }
            b'G' => c.get(body.parse().unwrap()),
            b'R' => {
                c.remove(body.parse().unwrap());
                None
            }
            _ => panic!("bad cache op {}", op),
        };
        out.push(format!("{},{}", r.map(|v| v.to_string()).unwrap_or("-".to_string()), c.len()));
    }
    format!("{} {}", toks[0], out.join(" "))
}
