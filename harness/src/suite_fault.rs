//! Suite `fault`: one injected file-system failure (transient or sticky) per run, addressed by
//! call class, file kind and ordinal; every position of an unfaulted reference run is tried.
//!
//! case: <id> <cfg> <history tokens...> # <limit per (class,kind)> [# <class>.<kind>.<ord>.<sticky> ...]
//! output: <id> then one field per faulted run:
//!   <class>.<kind>.<ord>.<sticky: 0 transient, 1 sticky, 2 transient after the whole buffer was written>|<fired>|<token results, comma separated>|<reopen>|<scan>
use std::collections::BTreeMap;

use crate::simfs::{FaultPlan, SimFs};
use crate::suite_db::{parse_cfg, Session};
use crate::util::*;

const KINDS: [(&str, &str); 5] = [
    ("wal", "wal-"),
    ("table", ".rdb"),
    ("manifest", "MANIFEST"),
    ("temp", ".dbtemp"),
    ("current", "CURRENT"),
];

fn run_history(
    toks: &[&str],
    cfg: (usize, u64, usize, bool),
    plan: Option<FaultPlan>,
) -> (SimFs, Vec<String>, usize, (usize, u64, usize, bool)) {
    let sim = SimFs::new();
    let mut results: Vec<String> = vec![];
    let mut sess = match Session::open(sim.clone(), cfg) {
        Ok(s) => s,
        Err(e) => return (sim, vec![format!("open-{}", e)], 0, cfg),
    };
    sess.quiesce();
    {
        let mut st = sim.st.lock().unwrap();
        st.trace_calls = plan.is_none();
        st.call_trace.clear();
    }
    if let Some(p) = plan {
        sim.arm_fault(p);
    }
    for op in toks {
        if sess.db.is_none() && op.as_bytes()[0] != b'O' {
            results.push("closed".to_string());
            continue;
        }
        results.push(sess.exec(op));
    }
    if sess.db.is_some() {
        sess.quiesce();
    }
    let fired = sim.disarm_fault();
    let last_cfg = sess.cfg;
    sess.close();
    (sim, results, fired, last_cfg)
}

pub fn run_fault(line: &str) -> String {
    let parts: Vec<&str> = line.split(" # ").collect();
    let toks = split_nonempty(parts[0], ' ');
    let id = toks[0];
    let cfg = parse_cfg(toks[1]);
    let hist: Vec<&str> = toks[2..].to_vec();
    let limit: usize = parts[1].trim().parse().unwrap();
    let mut plans: Vec<(String, FaultPlan)> = vec![];
    if parts.len() > 2 {
        for p in split_nonempty(parts[2], ' ') {
            let f: Vec<&str> = p.split('.').collect();
            let part = KINDS.iter().find(|k| k.0 == f[1]).map(|k| k.1).unwrap_or("");
            plans.push((
                p.to_string(),
                FaultPlan {
                    class: f[0].to_string(),
                    path_part: part.to_string(),
                    ordinal: f[2].parse().unwrap(),
                    sticky: f[3] == "1",
                    // mode 2: every byte of the write reaches the file, then the call fails
                    partial: if f[3] == "2" { usize::MAX } else { 0 },
                },
            ));
        }
    } else {
        // reference run: count the calls per (class, kind)
        let (sim, _, _, _) = run_history(&hist, cfg, None);
        let mut counts: BTreeMap<(String, String), usize> = BTreeMap::new();
        for (class, path) in sim.st.lock().unwrap().call_trace.iter() {
            let p = path.to_string_lossy();
            for (kind, part) in KINDS.iter() {
                if p.contains(part) {
                    *counts.entry((class.clone(), kind.to_string())).or_insert(0) += 1;
                }
            }
        }
        for ((class, kind), n) in counts {
            if class == "list" {
                continue;
            }
            let part = KINDS.iter().find(|k| k.0 == kind).unwrap().1;
            let step = (n / limit.max(1)).max(1);
            let mut ord = 0;
            while ord < n {
                for sticky in [false, true] {
                    plans.push((
                        format!("{}.{}.{}.{}", class, kind, ord, sticky as u8),
                        FaultPlan {
                            class: class.clone(),
                            path_part: part.to_string(),
                            ordinal: ord,
                            sticky,
                            partial: 0,
                        },
                    ));
                }
                // a write to the manifest or a log that reaches the file completely and is then
                // reported as failed (mode 2)
                if class == "write" && (kind == "manifest" || kind == "wal") {
                    plans.push((
                        format!("{}.{}.{}.2", class, kind, ord),
                        FaultPlan {
                            class: class.clone(),
                            path_part: part.to_string(),
                            ordinal: ord,
                            sticky: false,
                            partial: usize::MAX,
                        },
                    ));
                }
                ord += step;
            }
        }
    }
    let mut out: Vec<String> = vec![];
    let run_timeout = std::time::Duration::from_secs(
        std::env::var("RVH_FAULT_RUN_TIMEOUT").ok().and_then(|s| s.parse().ok()).unwrap_or(30),
    );
    for (name, plan) in plans {
        let h2: Vec<String> = hist.iter().map(|s| s.to_string()).collect();
        let (tx, rx) = std::sync::mpsc::channel();
        let name2 = name.clone();
        let _ = std::thread::Builder::new()
            .name("case-fault".to_string())
            .stack_size(64 << 20)
            .spawn(move || {
                let res = std::panic::catch_unwind(std::panic::AssertUnwindSafe(|| {
                    let h3: Vec<&str> = h2.iter().map(|s| s.as_str()).collect();
                    let (sim, results, fired, last_cfg) = run_history(&h3, cfg, Some(plan.clone()));
                    // the fault is gone: reopen and scan
                    let (reopen, scan) = match Session::open(sim.clone(), last_cfg) {
                        Ok(mut s2) => {
                            s2.quiesce();
                            let sc = s2.scan_all(None);
                            s2.close();
                            ("ok".to_string(), sc)
                        }
                        Err(e) => (format!("open-{}", e), "-".to_string()),
                    };
                    format!("{}|{}|{}|{}|{}", name2, fired, results.join(","), reopen, scan)
                }));
                let _ = tx.send(res);
            });
        match rx.recv_timeout(run_timeout) {
            Ok(Ok(s)) => out.push(s),
            Ok(Err(_)) => out.push(format!("{}|panic|-|-|-", name)),
            Err(_) => {
                out.push(format!("{}|hang|-|-|-", name));
                // the stuck run keeps its threads; stop here so that they cannot pile up
                break;
            }
        }
    }
    format!("{} {}", id, out.join(" "))
}
