//! Suite `corrupt`: single-byte corruption of persistent files of a closed database.
//!
//! case: <id> <cfg> <history tokens...> # <keys to read, comma separated> # <max mutations per file>
//! output: <id> F=<file:len,...> then one field per mutation:
//!   <file>@<offset>:<kind>|<open result>|<get results comma separated>|<scan>
use std::path::PathBuf;

use crate::simfs::SimFs;
use crate::suite_db::{parse_cfg, Session};
use crate::util::*;

fn lib_trunc(s: &str) -> String {
    if s.len() > 12 { s[..12].to_string() } else { s.to_string() }
}

fn short(p: &str) -> String {
    p.replace("db/", "")
}

pub fn run_corrupt(line: &str) -> String {
    let parts: Vec<&str> = line.split(" # ").collect();
    let toks = split_nonempty(parts[0], ' ');
    let id = toks[0];
    let cfg = parse_cfg(toks[1]);
    let keys: Vec<Vec<u8>> = split_nonempty(parts[1], ',').iter().map(|k| parse_bytes(k)).collect();
    let max_per_file: usize = parts[2].trim().parse().unwrap();

    let sim = SimFs::new();
    let mut sess = match Session::open(sim.clone(), cfg) {
        Ok(s) => s,
        Err(e) => return format!("{} open-{}", id, e),
    };
    for op in &toks[2..] {
        if sess.db.is_none() && op.as_bytes()[0] != b'O' {
            continue;
        }
        sess.exec(op);
    }
    if sess.db.is_some() {
        sess.quiesce();
    }
    let last_cfg = sess.cfg;
    sess.close();

    let files = sim.all_files();
    let listing: Vec<String> = files
        .iter()
        .map(|(p, n)| format!("{}:{}", short(&p.to_string_lossy()), n))
        .collect();
    // fragment headers of the log files (offset/payload length), for classifying mutations
    let mut headers: Vec<String> = vec![];
    for (path, _) in files.iter() {
        let name = path.to_string_lossy().to_string();
        if name.contains("wal-") || name.contains("MANIFEST") {
            let data = sim.read_whole(path).unwrap();
            let mut pos = 0usize;
            let mut hs: Vec<String> = vec![];
            while pos + 7 <= data.len() {
                let in_block = pos % 32768;
                if 32768 - in_block < 7 {
                    pos += 32768 - in_block;
                    continue;
                }
                let len = u16::from_le_bytes([data[pos + 4], data[pos + 5]]) as usize;
                hs.push(format!("{}/{}", pos, len));
                pos += 7 + len;
            }
            headers.push(format!("{}:{}", short(&name), hs.join(";")));
        }
    }
    let mut out: Vec<String> = vec![];
    let mut lcg: u64 = 12345;
    for (path, len) in files.iter() {
        let name = path.to_string_lossy().to_string();
        if name.ends_with("LOCK") || *len == 0 {
            continue;
        }
        // offsets: all if the file is small, else evenly spread plus the tail (footer / last record)
        let mut offsets: Vec<usize> = vec![];
        if *len <= max_per_file {
            offsets.extend(0..*len);
        } else {
            let step = *len / (max_per_file - 16).max(1);
            let mut o = 0;
            while o < *len {
                offsets.push(o);
                o += step.max(1);
            }
            for t in 0..16.min(*len) {
                offsets.push(*len - 1 - t);
            }
        }
        let original = sim.read_whole(&PathBuf::from(&name)).unwrap();
        // end of the first data block of a table file (payload + 5-byte trailer)
        let first_block_end: usize = if name.ends_with(".rdb") {
            use raindb::verif_hooks::tables as vt;
            match vt::VTable::open(crate::suite_db::make_options(&sim, last_cfg), &PathBuf::from(&name)) {
                Ok(t) => t.handles().2.first().map(|(o, sz)| (*o + *sz + 5) as usize).unwrap_or(0),
                Err(_) => 0,
            }
        } else {
            0
        };
        // (offset, kind, new byte)
        let mut muts: Vec<(usize, usize, u8)> = vec![];
        for (i, off) in offsets.iter().enumerate() {
            lcg = (lcg * 1103515245 + 12345) & 0x7fff_ffff;
            let kind = i % 4;
            let old = original[*off];
            let newb = match kind {
                0 => old ^ (1 << ((lcg >> 8) & 7)),
                1 => 0,
                2 => 0xff,
                _ => ((lcg >> 16) & 255) as u8,
            };
            muts.push((*off, kind, newb));
        }
        // directed: the type byte of every fragment of a log file set to every other valid type
        // (the checksum does not cover it); at most 64 fragments per file, the last ones first
        if name.contains("wal-") || name.contains("MANIFEST") {
            let mut hs: Vec<usize> = vec![];
            let mut pos = 0usize;
            while pos + 7 <= original.len() {
                let in_block = pos % 32768;
                if 32768 - in_block < 7 {
                    pos += 32768 - in_block;
                    continue;
                }
                let len = u16::from_le_bytes([original[pos + 4], original[pos + 5]]) as usize;
                hs.push(pos);
                pos += 7 + len;
            }
            for h in hs.iter().rev().take(64) {
                for t in 0..4u8 {
                    muts.push((*h + 6, 4, t));
                }
            }
        }
        for (off, kind, newb) in muts.iter() {
            let (kind, newb) = (*kind, *newb);
            let mut data = original.clone();
            let old = data[*off];
            if newb == old {
                continue;
            }
            data[*off] = newb;
            let image: SimFs = sim.snapshot();
            image.overwrite(&PathBuf::from(&name), &data);
            let keys2 = keys.clone();
            let openable = !name.ends_with(".rdb") || {
                use raindb::verif_hooks::tables as vt;
                vt::VTable::open(crate::suite_db::make_options(&image, last_cfg), &PathBuf::from(&name)).is_ok()
            };
            let res = std::panic::catch_unwind(std::panic::AssertUnwindSafe(|| {
                match Session::open(image.clone(), last_cfg) {
                    Err(e) => format!("open-{}|-|-", e),
                    Ok(mut s2) => {
                        let gets: Vec<String> = keys2.iter().map(|k| s2.get(None, k)).collect();
                        let scan = s2.scan_all(None);
                        // was the mutated table compacted away since the open? (its entries then
                        // passed through a merging iterator, which swallows block errors)
                        let d = s2.db().verif_dump();
                        let still = d.levels.iter().flatten().any(|f| name.ends_with(&format!("/{}.rdb", f.0)));
                        let gone = name.ends_with(".rdb") && !still;
                        // second phase for table files: force a compaction of everything and read
                        // again (a compaction must not turn an unreadable table into missing data)
                        let mut phase2 = String::new();
                        if name.ends_with(".rdb") {
                            let level = d
                                .levels
                                .iter()
                                .position(|fs| fs.iter().any(|f| name.ends_with(&format!("/{}.rdb", f.0))))
                                .map(|l| l.to_string())
                                .unwrap_or("-".to_string());
                            // is the mutated table the only input a manual compaction of its
                            // level can have (alone at level 0, nothing overlapping it one
                            // level down, nothing in the memtables that a flush would add)?
                            let alone = {
                                let mine = d.levels.iter().flatten().find(|f| name.ends_with(&format!("/{}.rdb", f.0)));
                                match (mine, level.parse::<usize>()) {
                                    (Some(m), Ok(l)) => {
                                        let same = d.levels[l].len();
                                        let below = d.levels.get(l + 1).map(|fs| fs.iter().filter(|f| !(f.3 .0 < m.2 .0 || f.2 .0 > m.3 .0)).count()).unwrap_or(0);
                                        same == 1 && below == 0 && d.memtable.is_empty() && d.immutable.is_none()
                                    }
                                    _ => false,
                                }
                            };
                            s2.db().compact_range(None..None);
                            s2.quiesce();
                            let gets2: Vec<String> = keys2.iter().map(|k| s2.get(None, k)).collect();
                            let scan2 = s2.scan_all(None);
                            phase2 = format!("|{}|{}|{}|{}|{}|{}", openable as u8, level, gets2.join(","), scan2, (*off < first_block_end) as u8, alone as u8);
                        }
                        // writes acknowledged by the damaged database (a deletion of a key that
                        // is there, a new key) must hold after a clean close and reopen: nothing
                        // may be resurrected or lost without an error
                        let victim = keys2.iter().zip(gets.iter()).find(|(_, g)| g.starts_with('v')).map(|(k, _)| k.clone());
                        let mut post = String::new();
                        if !name.ends_with(".rdb") {
                            let r1 = victim.as_ref().map(|k| s2.exec(&format!("Dx{}", hex(k)))).unwrap_or("-".to_string());
                            let r2 = s2.exec("Pxfe01=x77");
                            s2.quiesce();
                            s2.close();
                            post = match Session::open(image.clone(), last_cfg) {
                                Err(e) => format!("|W:{}:{}:open-{}", r1, r2, e),
                                Ok(mut s3) => {
                                    let g1 = victim.as_ref().map(|k| s3.get(None, k)).unwrap_or("-".to_string());
                                    let g2 = s3.get(None, &[0xfe, 0x01]);
                                    s3.quiesce();
                                    s3.close();
                                    format!("|W:{}:{}:{}:{}", r1, r2, lib_trunc(&g1), g2)
                                }
                            };
                        } else {
                            s2.quiesce();
                            s2.close();
                        }
                        format!("ok{}|{}|{}{}{}", if gone { "-compacted" } else { "" }, gets.join(","), scan, phase2, post)
                    }
                }
            }));
            let kinds = ["flip", "zero", "ff", "rand", "type"];
            match res {
                Ok(s) => out.push(format!("{}@{}:{}:{}|{}", short(&name), off, kinds[kind], newb, s)),
                Err(_) => out.push(format!("{}@{}:{}:{}|panic|-|-", short(&name), off, kinds[kind], newb)),
            }
        }
    }
    format!("{} F={}#{} {}", id, listing.join(","), headers.join(","), out.join(" "))
}
