#!/usr/bin/env python3
"""tools/seeded_table.py: markdown table of the seeded changes under /verif/seeded and which checks
caught / missed them (from the meta.json files written by tools/eval_seeded.py)."""
import glob, json, os
rows = []
for f in sorted(glob.glob(os.path.join(os.path.dirname(os.path.abspath(__file__)), "..", "seeded", "*", "meta.json"))):
    m = json.load(open(f))
    caught = sorted({x["check"].split("/")[0] for x in m.get("caught_by", [])})
    missed = sorted({x["check"].split("/")[0] for x in m.get("missed_by", [])} - set(caught))
    own = m["breaks"] in caught
    rows.append("| `%s` | %s | %s | %s | %s |" % (
        m["id"], m["summary"].replace("|", "/"), m["needs_to_manifest"].replace("|", "/"),
        ", ".join(caught) if caught else "—", ", ".join(missed) if missed else "—"))
print("| seeded change | what it does | what it needs to manifest | caught by (quick tier) | not caught by |")
print("|---|---|---|---|---|")
print("\n".join(rows))
