#!/bin/sh
# tools/confirm_mutant.sh <worktree> <m1|m2>: confirms a seeded change in its scratch worktree:
# demo passes on the clean tree, fails with the change, the existing suite passes with the change.
wt="$1"; m="$2"
cd "$wt" || exit 2
git checkout -q -- . ; git clean -fdq -e mutants -e target -e testing_files
mkdir -p testing_files tests
if [ -f mutants/${m}_demo.rs ]; then cp mutants/${m}_demo.rs tests/${m}_demo.rs; demo="--test ${m}_demo"; 
elif [ -f mutants/${m}_demo.diff ]; then git apply mutants/${m}_demo.diff || { echo "demo diff does not apply"; exit 2; }; demo="${m}_demo"; fi
clean=$(timeout 900 cargo test --offline $demo 2>&1 | grep -E "^test result|error(\[|:)" | head -3 | tr '\n' ' ')
git apply mutants/${m}.diff || { echo "patch does not apply"; exit 2; }
mut=$(timeout 900 cargo test --offline $demo 2>&1 | grep -E "^test result|error(\[|:)" | head -3 | tr '\n' ' ')
suite=$(timeout 1500 cargo nextest run --workspace --no-fail-fast --test-threads 8 --offline 2>&1 | grep -E "Summary|^\s+FAIL" | grep -v "${m}_demo" | sort -u | tr '\n' ' ')
echo "CLEAN: $clean"
echo "MUTANT: $mut"
echo "SUITE(with change): $suite"
git checkout -q -- . ; git clean -fdq -e mutants -e target -e testing_files
