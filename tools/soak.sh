#!/bin/sh
# Runs every claimed check's quick command for several seeds; prints one line per (check, seed).
# Usage: tools/soak.sh <seed> <seed> ...     (builds the framework first if needed)
cd "$(dirname "$0")/.."
[ -x harness/target/debug/rvh ] || ./setup.sh >/dev/null 2>&1
ids=$(python3 -c "import json; print(' '.join(c['property_id'] for c in json.load(open('MANIFEST.json'))['checks']))")
extra=""
for seed in "$@"; do
  for id in $ids $extra; do
    out=$(VERIF_SEED=$seed ./check $id 2>&1 | grep -v KNOWN-FINDING | tail -2 | tr '\n' ' ')
    echo "seed=$seed $out"
  done
done
