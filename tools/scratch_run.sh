#!/bin/sh
# tools/scratch_run.sh <name> <command...>: runs a command of this machinery in a scratch copy of
# /verif whose harness points at a scratch worktree of /repo's HEAD (so /repo and /verif stay free
# for other work). Results stay in /tmp/sr_<name>/verif (evidence/, replays/).
name="$1"; shift
root=/tmp/sr_$name
mkdir -p "$root"
[ -d "$root/repo" ] || git -C /repo worktree add --detach "$root/repo" HEAD >/dev/null 2>&1
git -C "$root/repo" reset -q --hard; git -C "$root/repo" checkout -q --detach "$(git -C /repo rev-parse HEAD)"
mkdir -p "$root/repo/testing_files" "$root/verif"
rsync -a --delete --exclude .git --exclude work --exclude replays --exclude evidence /verif/ "$root/verif/"
mkdir -p "$root/verif/evidence" "$root/verif/replays"
sed -i "s#path = \"/repo\"#path = \"$root/repo\"#" "$root/verif/harness/Cargo.toml"
cd "$root/verif" && RAINDB_REPO="$root/repo" "$@"
