#!/bin/sh
# tools/mk_mutant_job.sh <id>: creates the scratch worktree /tmp/mut_<id> of /repo and the prompt
# /tmp/mut_prompt_<id>.txt (template /verif/tools/mut_prompt.txt) for a seeding sub-agent.
id="$1"
wt=/tmp/mut_$id
[ -d "$wt" ] || git -C /repo worktree add --detach "$wt" HEAD >/dev/null 2>&1
mkdir -p "$wt/testing_files"
python3 - "$id" "$wt" <<'PY'
import json, sys
id, wt = sys.argv[1], sys.argv[2]
p = [json.loads(l) for l in open('/verif/properties.jsonl') if json.loads(l)['id'] == id][0]
text = "%s — %s\n\nStatement: %s\n\nQuantifier: %s\n\nWhy tests cannot settle it: %s\n" % (
    p['id'], p['title'], p['statement'], p['quantifier'], p['why_tests_cant'])
t = open('/verif/tools/mut_prompt.txt').read().replace('WORKTREE', wt).replace('PROPERTY_TEXT', text)
open('/tmp/mut_prompt_%s.txt' % id, 'w').write(t)
PY
echo "$wt /tmp/mut_prompt_$id.txt"
