#!/bin/sh
# tools/eval_mutant.sh <patch> <property ids...>: applies a seeded change to /repo, runs the quick
# checks of the given properties, restores /repo. Prints one line per check.
patch="$1"; shift
cd /repo || exit 2
if ! git diff --quiet; then echo "repo not clean"; exit 2; fi
git apply "$patch" || { echo "patch does not apply"; exit 2; }
cd /verif
for id in "$@"; do
  out=$(timeout 1500 ./check "$id" 2>&1 | grep -v KNOWN-FINDING | tail -2 | tr '\n' ' ' | cut -c1-400)
  echo "$id: $out"
done
git -C /repo checkout -- . 
git -C /repo status --short | head -3
