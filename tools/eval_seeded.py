#!/usr/bin/env python3
"""tools/eval_seeded.py <seeded-id> <property ids...> [--tier thorough]: applies
/verif/seeded/<seeded-id>/patch.diff to /repo, runs the checks of the given properties, restores
/repo, and records which checks reported a violation in the change's meta.json."""
import json, os, subprocess, sys
args = sys.argv[1:]
tier = 'quick'
if '--tier' in args:
    i = args.index('--tier'); tier = args[i + 1]; del args[i:i + 2]
sid, ids = args[0], args[1:]
d = '/verif/seeded/' + sid
if subprocess.run(['git', '-C', '/repo', 'diff', '--quiet']).returncode != 0:
    sys.exit('repo not clean')
if subprocess.run(['git', '-C', '/repo', 'apply', d + '/patch.diff']).returncode != 0:
    sys.exit('patch does not apply')
meta = json.load(open(d + '/meta.json'))
try:
    for pid in ids:
        try:
            r = subprocess.run(['./check', pid, '--tier', tier], cwd='/verif', capture_output=True, text=True, timeout=3000)
            out = r.stdout + r.stderr
            rc = r.returncode
        except subprocess.TimeoutExpired:
            out, rc = 'timeout', 124
        lines = [l for l in out.splitlines() if 'KNOWN-FINDING' not in l]
        viol = [l for l in lines if l.startswith('VIOLATION')]
        summary = (lines[-1] if lines else '')[:200]
        tag = '%s/%s' % (pid, tier)
        for key in ('caught_by', 'missed_by'):
            meta[key] = [x for x in meta[key] if x.get('check') != tag]
        if viol:
            meta['caught_by'].append({'check': tag, 'violation': viol[0][:200], 'summary': summary})
        else:
            meta['missed_by'].append({'check': tag, 'exit': rc, 'summary': summary})
        print('%s %s: %s | %s' % (sid, tag, 'CAUGHT' if viol else 'missed(rc=%d)' % rc, summary))
        sys.stdout.flush()
finally:
    subprocess.run(['git', '-C', '/repo', 'checkout', '--', '.'])
    json.dump(meta, open(d + '/meta.json', 'w'), indent=1)
