#!/usr/bin/env python3
"""Regression evaluation: every repaired defect, re-introduced, must be caught by the quick check
of its property.

For each `fixed:` line of KNOWN_FINDINGS.txt the fix commit is reverted (git revert --no-commit)
in a scratch worktree of /repo's HEAD, a scratch copy of /verif whose harness points at that
worktree runs `./check <property>` (quick tier), and the verdict is recorded in
seeded/reverts.json. Nothing touches /repo or /verif's own build directories, so this can run
next to other work. Usage: tools/eval_reverts.py [commit ...]   (default: all fixed lines)
"""
import json
import os
import re
import subprocess
import sys
import time

VERIF = os.path.dirname(os.path.dirname(os.path.abspath(__file__)))
REPO = os.environ.get("RAINDB_REPO", "/repo")
ROOT = "/tmp/rv"
WT = os.path.join(ROOT, "repo")
VC = os.path.join(ROOT, "verif")


def sh(cmd, cwd=None, env=None, timeout=None):
    e = dict(os.environ)
    e.update(env or {})
    p = subprocess.run(cmd, shell=True, cwd=cwd, env=e, stdout=subprocess.PIPE, stderr=subprocess.STDOUT,
                       timeout=timeout, text=True, errors="replace")
    return p.returncode, p.stdout


def fixed_lines():
    out = []
    for line in open(os.path.join(VERIF, "KNOWN_FINDINGS.txt")):
        m = re.match(r"fixed: property=(C\d\d) ([0-9a-f]{7,}) (.*)", line)
        if m:
            also = re.findall(r"also affects ((?:C\d\d(?:, )?)+)", m.group(3))
            props = [m.group(1)] + (re.findall(r"C\d\d", also[0]) if also else [])
            out.append((m.group(2), props, m.group(3)[:160]))
    return out


def main():
    want = sys.argv[1:]
    os.makedirs(ROOT, exist_ok=True)
    if not os.path.isdir(WT):
        rc, o = sh("git -C %s worktree add --detach %s HEAD" % (REPO, WT))
        assert rc == 0, o
    rc, head = sh("git -C %s rev-parse HEAD" % REPO)
    sh("git -C %s reset -q --hard && git -C %s checkout -q --detach %s" % (WT, WT, head.strip()))
    sh("mkdir -p %s/testing_files" % WT)
    # scratch copy of the machinery (committed or not: the working tree)
    sh("mkdir -p %s && rsync -a --delete --exclude .git --exclude work --exclude replays --exclude evidence "
       "--exclude seeded %s/ %s/" % (VC, VERIF, VC))
    sh("mkdir -p %s/evidence %s/replays" % (VC, VC))
    sh("sed -i 's#path = \"/repo\"#path = \"%s\"#' %s/harness/Cargo.toml" % (WT, VC))
    results_path = os.path.join(VERIF, "seeded", "reverts.json")
    results = json.load(open(results_path)) if os.path.exists(results_path) else {}
    jobs = [(c, pr, w, None) for (c, pr, w) in fixed_lines()]
    # partial reverts kept as patches: seeded/regressions/<name>-<property>-<slug>.diff
    rd = os.path.join(VERIF, "seeded", "regressions")
    for f in sorted(os.listdir(rd)) if os.path.isdir(rd) else []:
        m = re.match(r"(\w+)-(C\d\d)-(.*)\.diff$", f)
        if m:
            jobs.append((m.group(1), [m.group(2)], "partial revert: " + m.group(3), os.path.join(rd, f)))
    for commit, props, what, patch in jobs:
        if want and commit not in want:
            continue
        sh("git -C %s reset -q --hard" % WT)
        if patch:
            rc, o = sh("git -C %s apply %s" % (WT, patch))
        else:
            rc, o = sh("git -C %s revert --no-commit %s" % (WT, commit))
        entry = {"commit": commit, "properties": props, "what": what, "base": head.strip()[:7]}
        if rc != 0:
            sh("git -C %s revert --abort; git -C %s reset -q --hard" % (WT, WT))
            entry["status"] = "revert-conflicts-with-later-changes"
            entry["detail"] = o[-400:]
            results[commit] = entry
            print(commit, props[0], entry["status"], flush=True)
            json.dump(results, open(results_path, "w"), indent=1, sort_keys=True)
            continue
        rc, o = sh("timeout 1200 cargo build --offline 2>&1 | tail -3", cwd=WT, env={"CARGO_NET_OFFLINE": "true"})
        caught, missed = [], []
        for pid in props[:1]:
            t0 = time.time()
            rc, o = sh("timeout 3000 ./check %s" % pid, cwd=VC,
                       env={"RAINDB_REPO": WT, "VERIF_SEED": "1", "VERIF_TIER": "quick", "VERIF_SHRINK_SECS": "20"},
                       timeout=3100)
            vio = [l for l in o.split("\n") if l.startswith("VIOLATION")]
            (caught if (rc != 0 and vio) else missed).append(pid)
            entry.setdefault("runs", {})[pid] = {"rc": rc, "violation": vio[:1], "seconds": int(time.time() - t0),
                                                  "summary": [l for l in o.split("\n") if l.startswith(pid + " quick")][:1]}
        concrete = all(v["violation"] and "no-failing-input-found" not in v["violation"][0] for v in entry["runs"].values())
        entry["status"] = ("caught" if concrete else "caught (obligation only, no failing input)") if caught and not missed else "MISSED"
        results[commit] = entry
        print(commit, props[0], entry["status"], entry["runs"], flush=True)
        json.dump(results, open(results_path, "w"), indent=1, sort_keys=True)
    sh("git -C %s reset -q --hard" % WT)


if __name__ == "__main__":
    main()
