#!/bin/sh
# tools/coqchk_all.sh: re-checks the compiled property modules (and everything they depend on) with
# coqchk, the independent checker, in a scratch copy of coq/, and writes coqchk_report.txt
# (the axiom / type-in-type / guard summary per module). Takes 10-20 minutes.
set -e
rm -rf /tmp/coqchk_run && mkdir -p /tmp/coqchk_run && cp -r /verif/coq /tmp/coqchk_run/coq && mkdir -p /tmp/coqchk_run/ocaml
cd /tmp/coqchk_run/coq
coq_makefile -f _CoqProject -o Makefile >/dev/null
timeout 3000 make -j16 >/dev/null 2>&1
for p in C01 C02 C03 C04 C05 C06 C07 C08 C09 C10 C11 C12 C13 C14 C15 C16 C17; do
  ( timeout 3000 coqchk -o -silent -Q . RainVerif RainVerif.props.$p > /tmp/coqchk_run/$p.out 2>&1; echo "exit=$?" >> /tmp/coqchk_run/$p.out ) &
  if [ $(jobs | wc -l) -ge 6 ]; then wait; fi
done
wait
: > /verif/coqchk_report.txt
for p in C01 C02 C03 C04 C05 C06 C07 C08 C09 C10 C11 C12 C13 C14 C15 C16 C17; do
  echo "== $p" >> /verif/coqchk_report.txt
  grep -v "^$" /tmp/coqchk_run/$p.out | tail -14 >> /verif/coqchk_report.txt
done
rm -rf /tmp/coqchk_run/coq
