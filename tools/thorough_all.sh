#!/bin/sh
# Runs every check's thorough command once; prints one line per check with its wall time.
cd "$(dirname "$0")/.."
[ -x harness/target/debug/rvh ] || ./setup.sh >/dev/null 2>&1
for id in "$@"; do
  t0=$(date +%s)
  out=$(./check $id --tier thorough 2>&1 | grep -v KNOWN-FINDING | tail -2 | tr '\n' ' ')
  t1=$(date +%s)
  echo "$id $((t1-t0))s $out"
done
