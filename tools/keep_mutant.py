#!/usr/bin/env python3
"""tools/keep_mutant.py <PROP> <m1|m2> <slug> <summary> <needs>: copies a confirmed seeded change
from /tmp/mut_<PROP>/mutants into /verif/seeded/<PROP>-<slug>/ with a meta.json."""
import json, os, shutil, sys
prop, m, slug, summary, needs = sys.argv[1:6]
src = '/tmp/mut_%s/mutants' % prop
dst = '/verif/seeded/%s-%s' % (prop, slug)
os.makedirs(dst, exist_ok=True)
shutil.copy(os.path.join(src, m + '.diff'), os.path.join(dst, 'patch.diff'))
demo = None
for ext in ('_demo.rs', '_demo.diff'):
    p = os.path.join(src, m + ext)
    if os.path.exists(p):
        demo = 'demo' + ext[5:]
        shutil.copy(p, os.path.join(dst, demo))
if os.path.exists(os.path.join(src, m + '.md')):
    shutil.copy(os.path.join(src, m + '.md'), os.path.join(dst, 'notes.md'))
conf = open('/tmp/confirm_%s_%s.log' % (prop, m)).read() if os.path.exists('/tmp/confirm_%s_%s.log' % (prop, m)) else ''
meta = {
    'id': '%s-%s' % (prop, slug),
    'breaks': prop,
    'summary': summary,
    'needs_to_manifest': needs,
    'demonstration': demo,
    'confirmed': {
        'how': 'tools/confirm_mutant.sh in a scratch worktree of /repo: demonstration on the clean tree, '
               'demonstration with the change, pinned suite (cargo nextest) with the change',
        'output': conf.strip().splitlines(),
    },
    'caught_by': [],
    'missed_by': [],
}
json.dump(meta, open(os.path.join(dst, 'meta.json'), 'w'), indent=1)
print(dst)
