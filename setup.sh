#!/bin/sh
# Builds the framework from files on disk only (offline): Coq development, extracted OCaml
# driver, Rust harness against /repo with the verification hooks enabled.
set -e
cd "$(dirname "$0")"
export CARGO_NET_OFFLINE=true
python3 - <<'PY'
import sys
sys.path.insert(0, '.')
from gen import lib
lib.coq_build(None)
lib.build_harness()
print("setup ok")
PY
