(** Extraction of the executable model to OCaml for the correspondence driver.
    [ExtrOcamlBasic] only; [N]/[positive]/[nat] stay Coq datatypes; no [Extract Constant]. *)
From Coq Require Extraction.
From Coq Require Import ExtrOcamlBasic.
From RainVerif Require Import Params.
From RainVerif.model Require Import Bytes Crc Log LogScript Bloom FilterBlock Key Block Table TableSpec.

Extraction Language OCaml.

Extraction "../ocaml/model.ml"
  crc32c mask_checksum unmask_checksum
  log_read_all log_script_run log_script_spec
  bloom_create bloom_match fb_build fb_parse fb_match
  ikey_cmp ikey_eqb ikey_encode ikey_decode ikey_separator ikey_successor bytes_separator bytes_successor
  block_encode bb_approx_size block_decode bi_seek bi_seek_first bi_seek_last bi_next bi_prev bi_current
  table_build_bs table_get tl_run tl_new lc_run lc_first get_spec sorted_entries.
