(** Extraction of the executable model to OCaml for the correspondence driver.
    [ExtrOcamlBasic] only; [N]/[positive]/[nat] stay Coq datatypes; no [Extract Constant]. *)
From Coq Require Extraction.
From Coq Require Import ExtrOcamlBasic.
From RainVerif Require Import Params.
From RainVerif.model Require Import Bytes Crc Log LogScript Bloom FilterBlock.

Extraction Language OCaml.

Extraction "../ocaml/model.ml"
  crc32c mask_checksum unmask_checksum
  log_read_all log_script_run log_script_spec
  bloom_create bloom_match fb_build fb_parse fb_match.
