(** Extraction of the executable model to OCaml for the correspondence driver.
    [ExtrOcamlBasic] only; [N]/[positive]/[nat] stay Coq datatypes; no [Extract Constant]. *)
From Coq Require Extraction.
From Coq Require Import ExtrOcamlBasic.
From RainVerif Require Import Params.
From RainVerif.model Require Import Bytes Crc Log LogScript Bloom FilterBlock Key Block Table TableSpec Version Lsm LsmSpec DbSpec LockOwner LockPhases LockFd Work TableFile Cache Pick Names Cursor Conc Codec Gc WalModel Recover Proto Faults.

Extraction Language OCaml.

Extraction "../ocaml/model.ml"
  crc32c mask_checksum unmask_checksum
  log_read_all log_script_run log_script_spec
  bloom_create bloom_match fb_build fb_parse fb_match
  ikey_cmp ikey_eqb ikey_encode ikey_decode ikey_separator ikey_successor bytes_separator bytes_successor
  block_encode bb_approx_size block_decode bi_seek bi_seek_first bi_seek_last bi_next bi_prev bi_current
  table_build_bs table_get tl_run tl_new lc_run lc_first get_spec sorted_entries
  key_range_for_files key_range_for_two find_file_upper_bound has_overlap_in_level get_overlapping_files
  overlapping_inputs pick_level_for_memtable_output finalize_inputs is_trivial_move is_base_level_for_key
  apply_edit files_of lsm_step lsm_init db_get_at visible shape_ok all_entries compact_entries inputs_closed version_wf
  spec_run spec_init contents user_keys lsm_wf_b
  LockOwner.step world_init pstep pworld_init fstep fworld_init
  d_run d_new iter_children m_run m_new cursor_run
  cstep spawn c_init pc_of spec_get
  batch_encode batch_decode vchange_encode vchange_decode vc_empty
  keep gc file_bounds_ok
  recover_image rec_contents rec_readable rec_needs parse_current current_contents
  log_read_all_x decode_changes p_step p_run prun_init crash_image batch_last_seq
  f_run f_init f_contents f_reopen
  work_inv_dump
  read_block_at file_footer footer_encode update_at
  lru_run lru_new
  size_compaction_level requires_size_compaction read_samples ss_init
  file_name parse_name.
