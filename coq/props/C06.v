(** C06 — property theorems (statements + [exact] + [Print Assumptions] only). Batch atomicity on the concurrent model, for all well-formed schedules. *)
From RainVerif Require Import Params.
From RainVerif.model Require Import Bytes Key Block Table TableSpec Lsm LsmSpec DbSpec Conc.
From RainVerif.proofs Require Import GetProofs ConcProofs.
Import ListNotations.
Open Scope N_scope.
From RainVerif.props Require Import C05.
Open Scope N_scope.
(** ** T1 (C06): batch atomicity *)
Theorem C06_published_boundary : forall evs q,
  wf_sched true evs = true -> published evs q ->
  exists l1 l2, commit_log evs = l1 ++ l2 /\ q = len (ops l1).
Proof. exact published_boundary. Qed.
Print Assumptions C06_published_boundary.

Theorem C06_batch_all_or_nothing : forall evs t b,
  wf_sched true evs = true -> In (ESpawn t (PWrite b)) evs ->
  let s := sched_run true evs in
  pc_of s t = Some (WQueued b) \/
  exists a,
    (forall q, published evs q -> q <= a \/ a + len b <= q) /\
    (forall e, In e (all_centries s) -> a < ik_seq (fst e) -> ik_seq (fst e) <= a + len b -> In e (ents a b)) /\
    (a + len b <= c_seq s -> forall e, In e (ents a b) -> In e (all_centries s)).
Proof. exact batch_all_or_nothing. Qed.
Print Assumptions C06_batch_all_or_nothing.

Theorem C06_batch_visible_all_or_none : forall evs t b q,
  wf_sched true evs = true -> In (ESpawn t (PWrite b)) evs -> published evs q ->
  let s := sched_run true evs in
  pc_of s t = Some (WQueued b) \/
  exists a,
    (forall e, In e (all_centries s) -> a < ik_seq (fst e) -> ik_seq (fst e) <= a + len b -> In e (ents a b)) /\
    ((forall e, In e (ents a b) -> In e (all_centries s) /\ ik_seq (fst e) <= q)
     \/ (forall e, In e (all_centries s) -> ik_seq (fst e) <= q ->
                   ~ (a < ik_seq (fst e) /\ ik_seq (fst e) <= a + len b))).
Proof. exact batch_visible_all_or_none. Qed.
Print Assumptions C06_batch_visible_all_or_none.

(** ** T4: writers exactly once *)
Theorem C06_writers_exactly_once : forall evs t b r,
  wf_sched true evs = true -> In (ESpawn t (PWrite b)) evs ->
  pc_of (sched_run true evs) t = Some (Done r) ->
  let s := sched_run true evs in
  exists l1 l2,
    commit_log evs = l1 ++ (t, b) :: l2 /\ ~ In t (map fst l1) /\ ~ In t (map fst l2) /\
    let a := len (ops l1) in
    (forall e, In e (ents a b) ->
       filter (fun x : entry => ik_seq (fst x) =? ik_seq (fst e)) (mall (c_mems s)) = [e]) /\
    a + len b <= c_seq s /\
    exists evs1 e evs2, evs = evs1 ++ e :: evs2 /\
      c_seq (sched_run true evs1) <= a /\ a + len b <= c_seq (sched_run true (evs1 ++ [e])).
Proof. exact writers_exactly_once. Qed.
Print Assumptions C06_writers_exactly_once.

Theorem C06_publish_step_unique : forall evs a n evs1 e evs2 evs1' e' evs2',
  wf_sched true evs = true -> 0 < n ->
  evs = evs1 ++ e :: evs2 -> evs = evs1' ++ e' :: evs2' ->
  c_seq (sched_run true evs1) <= a -> a + n <= c_seq (sched_run true (evs1 ++ [e])) ->
  c_seq (sched_run true evs1') <= a -> a + n <= c_seq (sched_run true (evs1' ++ [e'])) ->
  evs1 = evs1'.
Proof. exact publish_step_unique. Qed.
Print Assumptions C06_publish_step_unique.

Theorem C06_acknowledged_in_log : forall evs t b r,
  wf_sched true evs = true -> In (ESpawn t (PWrite b)) evs ->
  pc_of (sched_run true evs) t = Some (Done r) -> In (t, b) (commit_log evs).
Proof. exact acknowledged_in_log. Qed.
Print Assumptions C06_acknowledged_in_log.

Theorem C06_log_only_submitted : forall evs t b,
  wf_sched true evs = true -> In (t, b) (commit_log evs) -> In (ESpawn t (PWrite b)) evs.
Proof. exact log_only_submitted. Qed.
Print Assumptions C06_log_only_submitted.

Theorem C06_log_nodup : forall evs, wf_sched true evs = true -> NoDup (map fst (commit_log evs)).
Proof. exact log_nodup. Qed.
Print Assumptions C06_log_nodup.


(** non-vacuity: the example schedule of [C05.v] (a group of two writers with a rotation and a
    flush in the middle) publishes exactly the batch boundaries *)
Example C06_example_published_are_boundaries : wf_sched true ex_evs = true /\ commit_log ex_evs <> [].
Proof. split; [exact C05a_example_wf | vm_compute; discriminate]. Qed.
