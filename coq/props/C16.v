(** C16 — property theorems (statements + [exact] + [Print Assumptions] only). A torn final write followed by a new log. *)
From Coq Require Import List NArith.
From RainVerif Require Import Params.
From RainVerif.model Require Import Bytes Key Block Crc Log LogScript Version Lsm DbSpec Codec WalModel.
From RainVerif.proofs Require Import KeyProofs LogProofs CodecProofs WalProofs.
Import ListNotations.
Open Scope N_scope.

Theorem C16a_wal_torn_then_new_log :
  forall (s1 : list (list batch)) (n : N) (bs2 : list batch) (m : list kv),
    Forall batches_ok s1 -> batches_ok bs2 ->
    let file1 := takeN n (wal_bytes_sessions s1) in
    let file2 := wal_bytes bs2 in
    let st := log_script_run (wal_script s1) in
    exists k,
      wal_recover file1 = Some (firstn k (concat s1)) /\
      wal_recover file2 = Some bs2 /\
      (forall j r e, nth_error (snd st) j = Some (r, e) -> (e <= n <-> (j < k)%nat)) /\
      (forall r1 r2, wal_recover file1 = Some r1 -> wal_recover file2 = Some r2 ->
         replay (replay m r1) r2 = replay m (firstn k (concat s1) ++ bs2)).
Proof. exact wal_torn_then_new_log. Qed.
Print Assumptions C16a_wal_torn_then_new_log.

Theorem C16_append_after_torn_tail_refuted :
  exists (recs new : list bytes) (n : N),
    let file := write_sessions 32 7 crc32c [] [recs] in
    let torn := takeN n file in
    let file' := torn ++ fst (append_all 32 7 crc32c (blen torn mod 32) new) in
    n < blen file /\ new <> [] /\
    read_all 32 7 crc32c true (write_sessions 32 7 crc32c [] [new]) = (new, false) /\
    forall r, In r new -> ~ In r (fst (read_all 32 7 crc32c true file')).
Proof. exact append_after_torn_tail_refuted. Qed.
Print Assumptions C16_append_after_torn_tail_refuted.

(** * C15: a single changed byte *)


(** * Torn tails at the level of the reader that recovery uses ([Recover.read_all_x]: records,
    [rx_skipped], [rx_intact]) and of the whole protocol *)
From Coq Require Import List NArith Bool Arith.
From RainVerif.model Require Import Table TableSpec Gc Recover Proto.
From RainVerif.proofs Require Import ContentsProofs ProtoDurable ProtoSteps ProtoOpen ProtoInstall ProtoProofs.
From RainVerif.proofs Require LogXProofs.
(** * M1: the log reader with [rx_skipped] / [rx_intact] *)

Theorem C16_reader_x_records : forall B H crc f,
  rx_records (read_all_x B H crc f) = fst (read_all B H crc true f).
Proof. exact reader_x_records. Qed.
Print Assumptions C16_reader_x_records.

Theorem C16_reader_x_panic : forall B H crc f,
  rx_panic (read_all_x B H crc f) = snd (read_all B H crc true f).
Proof. exact reader_x_panic. Qed.
Print Assumptions C16_reader_x_panic.

Theorem C16_reader_x_sessions : forall sessions,
  log_read_all_x (log_write_sessions [] sessions) = mkRX (concat sessions) false 0 true.
Proof. exact reader_x_sessions. Qed.
Print Assumptions C16_reader_x_sessions.

Theorem C16_reader_x_prefix : forall sessions n,
  exists k i, log_read_all_x (firstn n (log_write_sessions [] sessions))
              = mkRX (firstn k (concat sessions)) false 0 i.
Proof. exact reader_x_prefix. Qed.
Print Assumptions C16_reader_x_prefix.

Theorem C16_reader_x_torn_append : forall f recs boff r t,
  LogXProofs.logfile f recs boff -> (t < length (fst (log_append boff r)))%nat ->
  exists i, log_read_all_x (f ++ firstn t (fst (log_append boff r))) = mkRX recs false 0 i.
Proof. exact reader_x_torn_append. Qed.
Print Assumptions C16_reader_x_torn_append.

Theorem C16_reader_x_torn_intact : forall f recs boff r t,
  LogXProofs.logfile f recs boff -> (t < length (fst (log_append boff r)))%nat ->
  rx_intact (log_read_all_x (f ++ firstn t (fst (log_append boff r)))) = true ->
  LogXProofs.logfile (f ++ firstn t (fst (log_append boff r))) recs
                     (blen (f ++ firstn t (fst (log_append boff r))) mod BLOCK_SIZE_BYTES).
Proof. exact reader_x_torn_intact. Qed.
Print Assumptions C16_reader_x_torn_intact.

Theorem C16_reader_x_prefix_intact : forall f recs boff n,
  LogXProofs.logfile f recs boff -> rx_intact (log_read_all_x (firstn n f)) = true ->
  exists k, LogXProofs.logfile (firstn n f) (firstn k recs) (blen (firstn n f) mod BLOCK_SIZE_BYTES).
Proof. exact reader_x_prefix_intact. Qed.
Print Assumptions C16_reader_x_prefix_intact.

Theorem C16_reader_x_torn_single_fragment : forall f recs boff r t,
  LogXProofs.logfile f recs boff -> (0 < t < length (fst (log_append boff r)))%nat ->
  boff + HEADER_LENGTH_BYTES + blen r <= BLOCK_SIZE_BYTES ->
  log_read_all_x (f ++ firstn t (fst (log_append boff r))) = mkRX recs false 0 false.
Proof. exact reader_x_torn_single_fragment. Qed.
Print Assumptions C16_reader_x_torn_single_fragment.

(** the well formed logs are closed under appending with the writer and reopening *)
Theorem C16_logfile_append : forall f recs boff r, LogXProofs.logfile f recs boff ->
  LogXProofs.logfile (f ++ fst (log_append boff r)) (recs ++ [r]) (snd (log_append boff r)).
Proof. exact LogXProofs.logfile_append. Qed.
Print Assumptions C16_logfile_append.

Theorem C16_logfile_reopen : forall f recs boff, LogXProofs.logfile f recs boff ->
  LogXProofs.logfile f recs (blen f mod BLOCK_SIZE_BYTES).
Proof. exact LogXProofs.logfile_reopen. Qed.
Print Assumptions C16_logfile_reopen.

(** * M2: CURRENT *)

(** every crash point of every run, the last file operation torn at any byte: the database opens
    and holds exactly the acknowledged batches ([torn = Some k] is the torn tail) *)
Theorem C16_crash_recovery_succeeds : forall ops,
  run_okP prun_init ops -> pr_failed (fst (p_run prun_init ops)) = false ->
  forall n torn, (n <= length (snd (p_run prun_init ops)))%nat ->
  let img := crash_image empty_image (snd (p_run prun_init ops)) n torn in
  i_current img = None \/
  exists rc, recover_image img = inl rc /\
     rec_contents img rc = replay [] (firstn (crash_k prun_init ops n torn) (acked_batches 0 ops)) /\
     rc_seq rc = nops (firstn (crash_k prun_init ops n torn) (acked_batches 0 ops)).
Proof. exact crash_recovery_succeeds_P. Qed.
Print Assumptions C16_crash_recovery_succeeds.


(** * Recovery FROM a crash image re-establishes the invariant: histories of sessions that end in a
    crash (torn tails included) or cleanly, each opening what the previous one left *)
From RainVerif.proofs Require Import ProtoCrash ProtoHistory.
Theorem C16_crashed_recovers : forall img bs, Crashed img bs -> crash_ok img bs.
Proof. exact Crashed_crash_ok. Qed.
Print Assumptions C16_crashed_recovers.

Theorem C16_open_step_crashed : forall o img bs d' ops,
  Crashed img bs -> open_okb o img = true ->
  p_open o img = Some (d', ops) ->
  pd_img d' = apply_fsops img ops /\
  InvE d' bs /\
  all_crash (fun i => Crashed i bs) img ops.
Proof. exact open_step_c. Qed.
Print Assumptions C16_open_step_crashed.

(** one session (open ... then a crash anywhere or a clean end) from a [Crashed] directory *)
Theorem C16_session_safe : forall img bs s,
  Crashed img bs -> session_okP img s ->
  Crashed (session_end img s) (bs ++ session_keeps img (nops bs) s).
Proof. exact session_safe. Qed.
Print Assumptions C16_session_safe.

Theorem C16_history_safe_from_empty : forall h,
  hist_ok empty_image h = true ->
  crash_ok (fst (hist_end empty_image [] h)) (snd (hist_end empty_image [] h)).
Proof. exact history_safe_b. Qed.
Print Assumptions C16_history_safe_from_empty.

(** C16: after a crash (e.g. a torn log tail), a session that reopens (any oracle, either reuse setting), writes,
    and ends cleanly or in a later crash keeps what the crash preserved and its own acknowledged prefix *)
Theorem C16_writes_after_recovery_survive : forall img bs s,
  Crashed img bs -> session_okP img s ->
  (i_current (session_end img s) = None /\ bs ++ session_keeps img (nops bs) s = []) \/
  exists rc, recover_image (session_end img s) = inl rc /\
     rec_contents (session_end img s) rc = replay [] (bs ++ session_keeps img (nops bs) s) /\
     rc_seq rc = nops (bs ++ session_keeps img (nops bs) s).
Proof. exact writes_after_recovery_survive. Qed.
Print Assumptions C16_writes_after_recovery_survive.


(** ** a file cut exactly between two fragments of a record (found while re-proving the theorems
    above after the repair of D19): it must not count as entirely read, otherwise it is reopened
    for appending and the appended records cut the partial record short — the reader then counts a
    dropped fragment and manifest recovery rejects the file. B = 64 for speed. *)
From RainVerif.proofs Require Import LogXProofs.
Theorem C16_cut_at_fragment_boundary_not_intact :
  let r1 := repeat 65 80%nat in
  let f := fst (append 64 7 crc32c 0 r1) in
  read_all_x 64 7 crc32c f = mkRX [r1] false 0 true /\
  read_all_x 64 7 crc32c (firstn 64 f) = mkRX [] false 0 false /\
  read_all_x 64 7 crc32c
    (firstn 64 f ++ fst (append 64 7 crc32c (blen (firstn 64 f) mod 64) [1; 2; 3]))
  = mkRX [[1; 2; 3]] false 1 true.
Proof. exact cut_at_fragment_boundary_not_intact. Qed.
Print Assumptions C16_cut_at_fragment_boundary_not_intact.
