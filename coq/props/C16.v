(** C16 — property theorems (statements + [exact] + [Print Assumptions] only). A torn final write followed by a new log. *)
From Coq Require Import List NArith.
From RainVerif Require Import Params.
From RainVerif.model Require Import Bytes Key Block Crc Log LogScript Version Lsm DbSpec Codec WalModel.
From RainVerif.proofs Require Import KeyProofs LogProofs CodecProofs WalProofs.
Import ListNotations.
Open Scope N_scope.

Theorem C16a_wal_torn_then_new_log :
  forall (s1 : list (list batch)) (n : N) (bs2 : list batch) (m : list kv),
    Forall batches_ok s1 -> batches_ok bs2 ->
    let file1 := takeN n (wal_bytes_sessions s1) in
    let file2 := wal_bytes bs2 in
    let st := log_script_run (wal_script s1) in
    exists k,
      wal_recover file1 = Some (firstn k (concat s1)) /\
      wal_recover file2 = Some bs2 /\
      (forall j r e, nth_error (snd st) j = Some (r, e) -> (e <= n <-> (j < k)%nat)) /\
      (forall r1 r2, wal_recover file1 = Some r1 -> wal_recover file2 = Some r2 ->
         replay (replay m r1) r2 = replay m (firstn k (concat s1) ++ bs2)).
Proof. exact wal_torn_then_new_log. Qed.
Print Assumptions C16a_wal_torn_then_new_log.

Theorem C16_append_after_torn_tail_refuted :
  exists (recs new : list bytes) (n : N),
    let file := write_sessions 32 7 crc32c [] [recs] in
    let torn := takeN n file in
    let file' := torn ++ fst (append_all 32 7 crc32c (blen torn mod 32) new) in
    n < blen file /\ new <> [] /\
    read_all 32 7 crc32c true (write_sessions 32 7 crc32c [] [new]) = (new, false) /\
    forall r, In r new -> ~ In r (fst (read_all 32 7 crc32c true file')).
Proof. exact append_after_torn_tail_refuted. Qed.
Print Assumptions C16_append_after_torn_tail_refuted.

(** * C15: a single changed byte *)
