(** C09 — property theorems (statements + [exact] + [Print Assumptions] only). *)
From RainVerif Require Import Params.
From RainVerif.model Require Import Bytes Key.
Open Scope N_scope.
