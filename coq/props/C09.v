(** C09 — property theorems (statements + [exact] + [Print Assumptions] only).

    What is proved about termination and the background worker, on the models:
    - the background worker never panics: no step of the LSM state machine (flush, compaction,
      trivial move, ...) from a well-formed state trips one of the code's assertions
      ([finalize_compaction_inputs] on an empty list, the overlap assertion of
      [VersionBuilder::maybe_add_file]), and well-formedness is preserved, so this holds along
      every admissible run;
    - every loop of the modelled code terminates within its stated fuel: the level-0 restart loop
      of [get_overlapping_compaction_inputs], [add_boundary_inputs], the skip loops of the
      two-level iterator, the writer and reader loops of the log;
    - the log reader and the table iterator never hit an arithmetic-underflow panic on files
      produced by the writer / builder.
    Liveness in the sense of wall-clock bounds, OS scheduling fairness and the condition-variable
    protocol between writers and the worker are NOT proved (see DESIGN.md); they are exercised by
    the watchdog and pause-point schedules of the check. *)
From Coq Require Import Lia ZArith.
From RainVerif Require Import Params.
From RainVerif.model Require Import Bytes Key Block Table TableSpec Version Lsm LsmSpec DbSpec Log LogScript.
From RainVerif.proofs Require Import LogProofs.
From RainVerif.proofs Require TableProofs.
From RainVerif.proofs Require Import SelectProofs LsmProofs.
Open Scope N_scope.

(** the worker never panics: one step *)
Theorem C09_step_no_panic :
  forall mfs s st, lsm_wf_b s = true -> step_admissible s st ->
                   l_panic (lsm_step true true mfs s st) = false.
Proof. exact step_no_panic. Qed.
Print Assumptions C09_step_no_panic.

(** ... and along every admissible run from the initial state (well-formedness includes
    [l_panic = false]) *)
Theorem C09_run_never_panics :
  forall mfs steps, run_adm mfs lsm_init steps ->
    lsm_wf_b (fold_left (lsm_step true true mfs) steps lsm_init) = true.
Proof. exact reachable_wf. Qed.
Print Assumptions C09_run_never_panics.

(** input selection is total: [finalize_compaction_inputs] never hits its empty-list assertion *)
Theorem C09_finalize_inputs_no_panic : forall d14 mfs v level seed,
  seed <> [] -> finalize_inputs true d14 mfs v level seed <> None.
Proof. exact finalize_inputs_no_panic. Qed.
Print Assumptions C09_finalize_inputs_no_panic.

(** the level-0 restart loop terminates within [oci_fuel] with the closed answer *)
Theorem C09_overlapping_inputs_l0_terminates : forall v lo hi,
  let fs := level_files v O in
  let res := overlapping_inputs v O lo hi in
  (exists lo' hi',
     ole lo' (option_map ik_user lo) /\ oge hi' (option_map ik_user hi)
     /\ res = filter (in_range lo' hi') fs
     /\ (forall f, In f res -> inside lo' hi' f))
  /\ hull_closed fs res.
Proof. exact overlapping_inputs_l0_closed. Qed.
Print Assumptions C09_overlapping_inputs_l0_terminates.

(** the two-level iterator never panics or runs out of fuel on a well-formed table, whatever the
    cursor operations *)
Theorem C09_table_iterator_total :
  forall (t : table) (es : list entry),
    table_wf t es ->
    length (t_index t) = length (t_blocks t) ->
    Forall (fun b => b <> []) (t_blocks t) ->
    forall ops, (In CLast ops -> t_blocks t <> []) ->
    snd (tl_run t tl_new ops) = true.
Proof.
  exact (fun t es H1 H2 H3 ops H4 =>
           f_equal snd (TableProofs.two_level_refines t es H1 H2 H3 ops H4)).
Qed.
Print Assumptions C09_table_iterator_total.

(** the log reader terminates without a panic on every file produced by (possibly interrupted)
    writer sessions and an optional truncation (second component [false] = no panic) *)
Theorem C09_log_reader_total :
  forall ops l, log_script_spec ops = Some l ->
    snd (log_read_all true (fst (log_script_run ops))) = false.
Proof.
  exact (fun ops l H => f_equal snd (log_script_correct_inst ops l H)).
Qed.
Print Assumptions C09_log_reader_total.

(** * Pending background work is always somebody's job ([model/Work.v]: the scheduled flag, the
    task queue of the compaction thread and every place that consults should_schedule_compaction) *)
From RainVerif.model Require Import Work.
From RainVerif.proofs Require Import WorkProofs.

Theorem C09_work_inv_reachable : forall needs0 acts, work_inv_b (wrun needs0 acts) = true.
Proof. exact work_inv_reachable. Qed.
Print Assumptions C09_work_inv_reachable.

Theorem C09_pending_work_has_a_task : forall needs0 acts,
  let s := wrun needs0 acts in
  w_bad s = false -> w_shut s = false ->
  (w_imm s || w_manual s || w_needs s) = true ->
  w_sched s = true /\ (1 <= w_tasks s)%nat.
Proof. exact pending_work_has_a_task. Qed.
Print Assumptions C09_pending_work_has_a_task.

Theorem C09_a_successful_round_flushes : forall s needs,
  work_inv_b s = true -> w_bad s = false -> w_shut s = false -> w_imm s = true -> w_running s = false ->
  w_imm (wstep (wstep s WBgStart) (WBgDone true needs)) = false.
Proof. exact a_successful_round_flushes. Qed.
Print Assumptions C09_a_successful_round_flushes.

Theorem C09_clients_never_unschedule : forall s a,
  (forall ok n, a <> WBgDone ok n) -> w_sched s = true -> w_sched (wstep s a) = true.
Proof. exact clients_never_unschedule. Qed.
Print Assumptions C09_clients_never_unschedule.

Theorem C09_work_inv_dump_of : forall s,
  work_inv_b s = true -> w_shut s = false ->
  work_inv_dump (w_sched s) (w_imm s) (w_manual s) (w_needs s) (w_bad s) = true.
Proof. exact work_inv_dump_of. Qed.
Print Assumptions C09_work_inv_dump_of.
