(** C05 — property theorems (statements + [exact] + [Print Assumptions] only). Every theorem quantifies over all schedules of [Conc.cstep] (well formed: fresh thread ids at spawn, one background flush at a time). *)
From RainVerif Require Import Params.
From RainVerif.model Require Import Bytes Key Block Table TableSpec Lsm LsmSpec DbSpec Conc.
From RainVerif.proofs Require Import GetProofs ConcProofs.
Import ListNotations.
Open Scope N_scope.

(** ** the reachability invariant *)
Theorem C05a_invariant : forall evs, wf_sched true evs = true -> CInv (sched_run true evs).
Proof. exact cinv_reachable. Qed.
Print Assumptions C05a_invariant.

Theorem C05a_invariant_ghost : forall evs,
  wf_sched true evs = true -> GInv (writers evs) (commit_log evs) (sched_run true evs).
Proof. exact ginv_reachable. Qed.
Print Assumptions C05a_invariant_ghost.

Theorem C05a_invariant_bool : forall evs, wf_sched true evs = true -> cinv_b (sched_run true evs) = true.
Proof. exact cinv_b_reachable. Qed.
Print Assumptions C05a_invariant_bool.

Theorem C05a_entries_exact : forall evs,
  wf_sched true evs = true ->
  let s := sched_run true evs in
  c_seq s = len (ops (commit_log evs)) /\
  (forall e, In e (all_centries s) <-> In e (ents 0 (ops (commit_log evs) ++ inflight s))) /\
  NoDup (map (fun e : entry => ik_seq (fst e)) (mall (c_mems s))).
Proof. exact entries_exact. Qed.
Print Assumptions C05a_entries_exact.

Theorem C05a_unpublished_entries_inflight : forall evs e,
  wf_sched true evs = true ->
  let s := sched_run true evs in
  In e (all_centries s) ->
  1 <= ik_seq (fst e) /\ (c_seq s < ik_seq (fst e) -> In e (ents (c_seq s) (inflight s))).
Proof. exact unpublished_entries_inflight. Qed.
Print Assumptions C05a_unpublished_entries_inflight.

Theorem C05a_one_leader : forall evs t1 t2 p1 p2,
  wf_sched true evs = true ->
  let s := sched_run true evs in
  pc_of s t1 = Some p1 -> pc_of s t2 = Some p2 -> leading p1 = true -> leading p2 = true ->
  t1 = t2 /\ exists rest, c_queue s = t1 :: rest.
Proof. exact one_leader. Qed.
Print Assumptions C05a_one_leader.

Theorem C05a_parked_reader : forall evs t k q mo imm tabs,
  wf_sched true evs = true ->
  let s := sched_run true evs in
  pc_of s t = Some (RCaptured k q mo imm tabs) ->
  exists m, mo = Some m /\ reader_ok s q m imm tabs /\
            lookup_sources (rsrcs s m imm tabs) k q = spec_get s k q.
Proof. exact parked_reader_ok. Qed.
Print Assumptions C05a_parked_reader.

(** ** T2 (C05): no lost or stale read *)
Theorem C05_get_linearizable : forall evs1 t c evs2 k r,
  wf_sched true (evs1 ++ EStep t c :: evs2) = true ->
  pc_of (sched_run true evs1) t = Some (RStart k) ->
  pc_of (sched_run true (evs1 ++ EStep t c :: evs2)) t = Some (Done (Some r)) ->
  r = spec_get (sched_run true evs1) k (c_seq (sched_run true evs1)).
Proof. exact get_linearizable. Qed.
Print Assumptions C05_get_linearizable.

Theorem C05_get_linearizable_map : forall evs1 t c evs2 k r,
  wf_sched true (evs1 ++ EStep t c :: evs2) = true ->
  pc_of (sched_run true evs1) t = Some (RStart k) ->
  pc_of (sched_run true (evs1 ++ EStep t c :: evs2)) t = Some (Done (Some r)) ->
  r = map_get k (map_apply [] (ops (commit_log evs1))).
Proof. exact get_linearizable_log. Qed.
Print Assumptions C05_get_linearizable_map.

Theorem C05_read_sees_acknowledged : forall evs1 t c evs2 k r t' b r',
  wf_sched true (evs1 ++ EStep t c :: evs2) = true ->
  pc_of (sched_run true evs1) t = Some (RStart k) ->
  pc_of (sched_run true (evs1 ++ EStep t c :: evs2)) t = Some (Done (Some r)) ->
  In (ESpawn t' (PWrite b)) evs1 -> pc_of (sched_run true evs1) t' = Some (Done r') ->
  exists l1 l2, commit_log evs1 = l1 ++ (t', b) :: l2 /\
                r = map_get k (map_apply [] (ops l1 ++ b ++ ops l2)).
Proof. exact read_sees_acknowledged. Qed.
Print Assumptions C05_read_sees_acknowledged.

Theorem C05_read_ignores_later_writes : forall evs1 t' b,
  wf_sched true evs1 = true -> ~ In (ESpawn t' (PWrite b)) evs1 -> ~ In (t', b) (commit_log evs1).
Proof. exact read_ignores_later_writes. Qed.
Print Assumptions C05_read_ignores_later_writes.

Theorem C05_c_seq_monotone : forall evs1 evs2,
  wf_sched true (evs1 ++ evs2) = true ->
  c_seq (sched_run true evs1) <= c_seq (sched_run true (evs1 ++ evs2)).
Proof. exact c_seq_monotone. Qed.
Print Assumptions C05_c_seq_monotone.

Theorem C05_commit_log_grows : forall evs1 evs2,
  exists l, commit_log (evs1 ++ evs2) = commit_log evs1 ++ l.
Proof. exact commit_log_app. Qed.
Print Assumptions C05_commit_log_grows.

(** ** T3: the unrepaired code loses a committed write *)
Theorem C05_d6_refuted :
  exists evs1 t c evs2 k r,
    wf_sched false (evs1 ++ EStep t c :: evs2) = true /\
    pc_of (sched_run false evs1) t = Some (RStart k) /\
    pc_of (sched_run false (evs1 ++ EStep t c :: evs2)) t = Some (Done (Some r)) /\
    spec_get (sched_run false evs1) k (c_seq (sched_run false evs1)) = Some [118] /\
    r = None.
Proof. exact C05_d6_refuted_proof. Qed.
Print Assumptions C05_d6_refuted.

Theorem C05_d6_fixed :
  pc_of (sched_run true (d6_evs1 ++ EStep 2 ch0 :: d6_evs2)) 2 = Some (Done (Some (Some [118]))).
Proof. exact C05_d6_fixed_proof. Qed.
Print Assumptions C05_d6_fixed.

(** ** T5: non-vacuity — two writers merged into one group, a rotation and a flush in the
    middle, readers parked across all of it *)
Definition ka : bytes := [97].
Definition kb : bytes := [98].

Definition ex_evs : list sched_ev :=
  [ESpawn 1 (PWrite [WPut ka [1]]);
   EStep 1 ch0; EStep 1 ch0; EStep 1 ch0; EStep 1 ch0; EStep 1 ch0;
   ESpawn 2 (PGet ka); EStep 2 ch0;
   ESpawn 3 (PWrite [WPut ka [2]; WPut kb [7]]); ESpawn 4 (PWrite [WDel ka]);
   EStep 3 (mkChoice 2 true);
   EStep 3 ch0; EStep 3 ch0; EStep 3 ch0;
   ESpawn 5 (PGet ka); EStep 5 ch0;
   ESpawn 6 PFlush; EStep 6 ch0; EStep 6 ch0;
   EStep 3 ch0; EStep 3 ch0; EStep 3 ch0;
   ESpawn 7 (PGet ka); EStep 7 ch0; ESpawn 8 (PGet kb); EStep 8 ch0;
   EStep 2 ch0; EStep 5 ch0; EStep 7 ch0; EStep 8 ch0].

Example C05a_example_wf : wf_sched true ex_evs = true.
Proof. vm_compute. reflexivity. Qed.

(** readers 2 and 5 captured sequence 1 (5 while the merged group was in flight and after the
    rotation) and are parked across rotation, flush and publication: both return the value at
    sequence 1; readers 7 and 8 start after the publication of the merged group *)
Example C05a_example_results :
  map (pc_of (sched_run true ex_evs)) [1; 2; 3; 4; 5; 6; 7; 8] =
  [Some (Done None); Some (Done (Some (Some [1]))); Some (Done None); Some (Done None);
   Some (Done (Some (Some [1]))); Some (Done None); Some (Done (Some None));
   Some (Done (Some (Some [7])))].
Proof. vm_compute. reflexivity. Qed.

(** the two writers 3 and 4 were merged into one group (4 is a follower of 3), after a rotation *)
Example C05a_example_merged :
  let s := sched_run true (firstn 11 ex_evs) in
  pc_of s 4 = Some WFollower /\ c_mem s = 1 /\ c_imm s = Some 0 /\
  pc_of s 3 = Some (WBeforeWal [(3, [WPut ka [2]; WPut kb [7]]); (4, [WDel ka])] 1 1).
Proof. vm_compute. repeat split; reflexivity. Qed.

(** reader 5 is parked with the in-flight entries 2 and 3 in its memtable and the flushed
    memtable object 0 *)
Example C05a_example_parked :
  pc_of (sched_run true (firstn 22 ex_evs)) 5 = Some (RCaptured ka 1 (Some 1) (Some 0) []) /\
  c_imm (sched_run true (firstn 22 ex_evs)) = None /\
  length (c_tables (sched_run true (firstn 22 ex_evs))) = 1%nat.
Proof. vm_compute. repeat split; reflexivity. Qed.

Example C05a_example_commit_log :
  commit_log ex_evs = [(1, [WPut ka [1]]); (3, [WPut ka [2]; WPut kb [7]]); (4, [WDel ka])].
Proof. vm_compute. reflexivity. Qed.

(** the published sequence numbers of the run: 0, 1 and 4 — never 2 or 3 *)
Example C05a_example_published :
  nodup N.eq_dec (map (fun n => c_seq (sched_run true (firstn n ex_evs))) (seq 0 (S (length ex_evs))))
  = [0; 1; 4].
Proof. vm_compute. reflexivity. Qed.

(** the boolean shadow of the invariant, evaluated in every prefix of the run; and the
    invariant itself by the theorem *)
Example C05a_example_cinv_b :
  forallb (fun n => cinv_b (sched_run true (firstn n ex_evs))) (seq 0 (S (length ex_evs))) = true.
Proof. vm_compute. reflexivity. Qed.

Example C05a_example_cinv : CInv (sched_run true ex_evs).
Proof. exact (cinv_reachable ex_evs C05a_example_wf). Qed.

(** a second flush thread running concurrently is what [wf_sched] excludes: with two flushers
    an immutable memtable is dropped without being written (model artefact: raindb has a single
    background thread) *)
Example C05a_two_flushers_rejected :
  wf_sched true [ESpawn 1 PFlush; ESpawn 2 PFlush] = false.
Proof. vm_compute. reflexivity. Qed.

(** the clause is needed (in the model): with two flush threads in flight the second one
    installs a stale table and clears an immutable memtable it never wrote — a committed
    write becomes invisible *)
Definition two_flushers_evs : list sched_ev :=
  [ESpawn 1 (PWrite [WPut ka [1]]);
   EStep 1 chR; EStep 1 ch0; EStep 1 ch0; EStep 1 ch0; EStep 1 ch0;
   ESpawn 10 PFlush; ESpawn 11 PFlush; EStep 10 ch0; EStep 11 ch0; EStep 10 ch0;
   ESpawn 2 (PWrite [WPut kb [2]]);
   EStep 2 chR; EStep 2 ch0; EStep 2 ch0; EStep 2 ch0; EStep 2 ch0;
   EStep 11 ch0;
   ESpawn 3 (PGet ka); EStep 3 ch0; EStep 3 ch0].

Example C05a_two_flushers_lose_data :
  wf_sched true two_flushers_evs = false /\
  pc_of (sched_run true two_flushers_evs) 3 = Some (Done (Some None)) /\
  spec_get (sched_run true two_flushers_evs) ka (c_seq (sched_run true two_flushers_evs)) = Some [1].
Proof. vm_compute. repeat split; reflexivity. Qed.

(** ** the side condition: thread ids spawned at most once (static) and one flush at a time *)
Theorem C05a_wf_sched_static : forall d evs,
  NoDup (spawn_ids evs) -> flush_disc d evs = true -> wf_sched d evs = true.
Proof. exact wf_sched_static. Qed.
Print Assumptions C05a_wf_sched_static.
