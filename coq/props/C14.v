(** C14 — property theorems (statements + [exact] + [Print Assumptions] only). *)
From RainVerif Require Import Params.
From RainVerif.model Require Import Bytes Bloom FilterBlock.
Open Scope N_scope.
