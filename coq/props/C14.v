(** C14 — property theorems (statements + [exact] + [Print Assumptions] only). *)
From RainVerif Require Import Params.
From RainVerif.model Require Import Bytes Bloom FilterBlock.
From RainVerif.proofs Require Import BloomProofs FilterBlockProofs.
Open Scope N_scope.

(** ** 1. Bloom filter policy: no false negatives, for ANY hash function *)

Theorem C14_bloom_no_false_negative :
  forall (hash : bytes -> N) (k bpk : N) (keys : list bytes) (key filter : bytes),
    k < 256 ->
    filter_bits bpk (N.of_nat (length keys)) < 4294967296 ->   (* [as u32] is the identity *)
    create_filter hash k bpk keys = Some filter ->
    In key keys ->
    key_may_match hash key filter = MOk true.
Proof. exact bloom_no_false_negative. Qed.
Print Assumptions C14_bloom_no_false_negative.

(** Stronger: neither [k < 256] nor the no-truncation hypothesis is needed, only that creation
    did not panic (creation and lookup agree on the truncated modulus, which never exceeds the
    real bit count; the stored probe count [k mod 256] never exceeds [k]). *)
Theorem C14_bloom_no_false_negative_strong :
  forall (hash : bytes -> N) (k bpk : N) (keys : list bytes) (key filter : bytes),
    create_filter hash k bpk keys = Some filter ->
    In key keys ->
    key_may_match hash key filter = MOk true.
Proof. exact bloom_no_false_negative_strong. Qed.
Print Assumptions C14_bloom_no_false_negative_strong.

(** the hypotheses are satisfiable: no panic when the bit count fits in a u32 ... *)
Theorem C14_create_filter_some :
  forall (hash : bytes -> N) (k bpk : N) (keys : list bytes),
    filter_bits bpk (N.of_nat (length keys)) < 4294967296 ->
    exists filter, create_filter hash k bpk keys = Some filter.
Proof. exact create_filter_some. Qed.
Print Assumptions C14_create_filter_some.

(** ... and the bit count (the modulus) is at least 64, in particular non-zero *)
Theorem C14_filter_bits_ge_64 : forall bpk n, 64 <= filter_bits bpk n.
Proof. exact filter_bits_ge_64. Qed.
Print Assumptions C14_filter_bits_ge_64.

Theorem C14_num_probes_le_30 : forall bpk, num_probes bpk <= 30.
Proof. exact num_probes_le_30. Qed.
Print Assumptions C14_num_probes_le_30.

(** the instance used by raindb *)
Theorem C14_bloom_policy :
  forall (bpk : N) (keys : list bytes) (key filter : bytes),
    filter_bits bpk (N.of_nat (length keys)) < 4294967296 ->
    bloom_create bpk keys = Some filter ->
    In key keys ->
    bloom_match key filter = MOk true.
Proof. exact bloom_policy. Qed.
Print Assumptions C14_bloom_policy.

Theorem C14_bloom_policy_strong :
  forall (bpk : N) (keys : list bytes) (key filter : bytes),
    bloom_create bpk keys = Some filter ->
    In key keys ->
    bloom_match key filter = MOk true.
Proof. exact bloom_policy_sound. Qed.
Print Assumptions C14_bloom_policy_strong.

Theorem C14_bloom_create_some :
  forall (bpk : N) (keys : list bytes),
    filter_bits bpk (N.of_nat (length keys)) < 4294967296 ->
    exists filter, bloom_create bpk keys = Some filter.
Proof. exact bloom_create_some. Qed.
Print Assumptions C14_bloom_create_some.

(** ** 2. Filter block: every key of every data block matches at the block's start offset.
    [events_of blocks]: for each block [(keys, end_offset)] an [EvKey] per key, then
    [EvNotify end_offset]; [block_start blocks i] is 0 for [i = 0], else the end offset of
    block [i-1]. *)

Theorem C14_filter_block_no_false_negative :
  forall (pcreate : list bytes -> option bytes) (E : N)
         (pmatch : bytes -> bytes -> match_result),
    (forall keys f k, pcreate keys = Some f -> In k keys -> pmatch k f = MOk true) ->
    (forall keys f, pcreate keys = Some f -> keys <> [] -> f <> []) ->
    forall (blocks : list (list bytes * N)) (data : bytes) (r : freader),
      E < 64 ->
      (forall i ks e, nth_error blocks i = Some (ks, e) -> block_start blocks i <= e) ->
      blen data < 4294967296 ->
      build_filter_block pcreate E (events_of blocks) = Some data ->
      fr_new data = FOk r ->
      forall i keys endoff key,
        nth_error blocks i = Some (keys, endoff) -> In key keys ->
        fr_key_may_match pmatch r (block_start blocks i) key = Some true.
Proof. exact filter_block_no_false_negative. Qed.
Print Assumptions C14_filter_block_no_false_negative.

(** the same when the last block is not followed by a notification *)
Theorem C14_filter_block_no_false_negative_open :
  forall (pcreate : list bytes -> option bytes) (E : N)
         (pmatch : bytes -> bytes -> match_result),
    (forall keys f k, pcreate keys = Some f -> In k keys -> pmatch k f = MOk true) ->
    (forall keys f, pcreate keys = Some f -> keys <> [] -> f <> []) ->
    forall (blocks : list (list bytes * N)) (data : bytes) (r : freader),
      E < 64 ->
      (forall i ks e, nth_error blocks i = Some (ks, e) -> block_start blocks i <= e) ->
      blen data < 4294967296 ->
      build_filter_block pcreate E (events_of_open blocks) = Some data ->
      fr_new data = FOk r ->
      forall i keys endoff key,
        nth_error blocks i = Some (keys, endoff) -> In key keys ->
        fr_key_may_match pmatch r (block_start blocks i) key = Some true.
Proof. exact filter_block_no_false_negative_open. Qed.
Print Assumptions C14_filter_block_no_false_negative_open.

(** general form over arbitrary event lists with non-decreasing notification offsets: a key is
    found when queried at the offset of the last notification preceding it *)
Theorem C14_filter_block_events :
  forall (pcreate : list bytes -> option bytes) (E : N)
         (pmatch : bytes -> bytes -> match_result),
    (forall keys f k, pcreate keys = Some f -> In k keys -> pmatch k f = MOk true) ->
    (forall keys f, pcreate keys = Some f -> keys <> [] -> f <> []) ->
    forall (evs : list fb_event) (data : bytes) (r : freader),
      E < 64 ->
      offs_mono 0 evs ->
      blen data < 4294967296 ->
      build_filter_block pcreate E evs = Some data ->
      fr_new data = FOk r ->
      forall pre key post, evs = pre ++ EvKey key :: post ->
        fr_key_may_match pmatch r (last_off 0 pre) key = Some true.
Proof. exact filter_block_events_sound_split. Qed.
Print Assumptions C14_filter_block_events.

(** sharper size condition (only the concatenated filters must stay below 4 GiB) *)
Theorem C14_filter_block_events_sharp :
  forall (pcreate : list bytes -> option bytes) (E : N)
         (pmatch : bytes -> bytes -> match_result),
    (forall keys f k, pcreate keys = Some f -> In k keys -> pmatch k f = MOk true) ->
    (forall keys f, pcreate keys = Some f -> keys <> [] -> f <> []) ->
    forall (evs : list fb_event) (fs : list bytes),
      E < 64 ->
      offs_mono 0 evs ->
      builder_filters pcreate E evs = Some fs ->
      blen (concat fs) < 4294967296 ->
      build_filter_block pcreate E evs = Some (serialize_filters E fs) /\
      fr_new (serialize_filters E fs) = FOk (mkFR fs E) /\
      forall s key, In (s, key) (seen_of 0 evs) ->
        fr_key_may_match pmatch (mkFR fs E) s key = Some true.
Proof. exact filter_block_events_sound_sharp. Qed.
Print Assumptions C14_filter_block_events_sharp.

(** parsing a builder-produced block cannot fail and returns exactly the builder's filters *)
Theorem C14_filter_block_roundtrip :
  forall (pcreate : list bytes -> option bytes) (E : N) (evs : list fb_event) (data : bytes),
    blen data < 4294967296 ->
    build_filter_block pcreate E evs = Some data ->
    exists fs, builder_filters pcreate E evs = Some fs /\
               data = serialize_filters E fs /\
               fr_new data = FOk (mkFR fs E).
Proof. exact filter_block_roundtrip. Qed.
Print Assumptions C14_filter_block_roundtrip.

Theorem C14_serialize_parse :
  forall (E : N) (fs : list bytes),
    blen (concat fs) < 4294967296 ->
    fr_new (serialize_filters E fs) = FOk (mkFR fs E).
Proof. exact fr_new_serialize. Qed.
Print Assumptions C14_serialize_parse.

(** with non-decreasing offsets the number of generated filters always equals the filter index
    of the last notified offset (so pending keys of a block starting at [s] go to filter
    [s / 2^E]) *)
Theorem C14_builder_filter_count :
  forall (pcreate : list bytes -> option bytes) (E : N) (evs : list fb_event) (b : fbuilder),
    offs_mono 0 evs -> run_events pcreate E fb_new evs = Some b ->
    N.of_nat (length (fb_filters b)) = last_off 0 evs / 2 ^ E.
Proof. exact builder_filter_count. Qed.
Print Assumptions C14_builder_filter_count.

(** the builder panics only if the policy does *)
Theorem C14_filter_block_builds :
  forall (pcreate : list bytes -> option bytes) (E : N) (maxkeys : nat),
    (forall ks, (length ks <= maxkeys)%nat -> exists f, pcreate ks = Some f) ->
    forall evs, (count_keys evs <= maxkeys)%nat ->
      exists data, build_filter_block pcreate E evs = Some data.
Proof. exact build_filter_block_total. Qed.
Print Assumptions C14_filter_block_builds.

(** the instance used by raindb *)
Theorem C14_filter_block_bloom :
  forall (bpk : N) (blocks : list (list bytes * N)) (data : bytes) (r : freader),
    (forall i ks e, nth_error blocks i = Some (ks, e) -> block_start blocks i <= e) ->
    blen data < 4294967296 ->
    fb_build bpk (events_of blocks) = Some data ->
    fb_parse data = FOk r ->
    forall i keys endoff key,
      nth_error blocks i = Some (keys, endoff) -> In key keys ->
      fb_match r (block_start blocks i) key = Some true.
Proof. exact filter_block_bloom. Qed.
Print Assumptions C14_filter_block_bloom.

Theorem C14_filter_block_bloom_open :
  forall (bpk : N) (blocks : list (list bytes * N)) (data : bytes) (r : freader),
    (forall i ks e, nth_error blocks i = Some (ks, e) -> block_start blocks i <= e) ->
    blen data < 4294967296 ->
    fb_build bpk (events_of_open blocks) = Some data ->
    fb_parse data = FOk r ->
    forall i keys endoff key,
      nth_error blocks i = Some (keys, endoff) -> In key keys ->
      fb_match r (block_start blocks i) key = Some true.
Proof. exact filter_block_bloom_open. Qed.
Print Assumptions C14_filter_block_bloom_open.

(** global sufficient condition for the bloom builder not to panic *)
Theorem C14_filter_block_bloom_builds :
  forall (bpk : N) (evs : list fb_event),
    N.of_nat (count_keys evs) * bpk + 71 < 4294967296 ->
    exists data, fb_build bpk evs = Some data.
Proof. exact filter_block_bloom_builds. Qed.
Print Assumptions C14_filter_block_bloom_builds.

(** everything together *)
Theorem C14_filter_block_bloom_total :
  forall (bpk : N) (blocks : list (list bytes * N)),
    (forall i ks e, nth_error blocks i = Some (ks, e) -> block_start blocks i <= e) ->
    N.of_nat (count_keys (events_of blocks)) * bpk + 71 < 4294967296 ->
    exists data,
      fb_build bpk (events_of blocks) = Some data /\
      (blen data < 4294967296 ->
       exists r, fb_parse data = FOk r /\
         forall i keys endoff key,
           nth_error blocks i = Some (keys, endoff) -> In key keys ->
           fb_match r (block_start blocks i) key = Some true).
Proof. exact filter_block_bloom_total. Qed.
Print Assumptions C14_filter_block_bloom_total.

(** ** 4. Sensitivity witnesses *)

(** a key queried at the start offset of a block in a different filter range is missed *)
Theorem C14_wrong_offset_refuted :
  exists (blocks : list (list bytes * N)) data r i j keys e key,
    (forall i ks e, nth_error blocks i = Some (ks, e) -> block_start blocks i <= e) /\
    fb_build 10 (events_of blocks) = Some data /\
    blen data < 4294967296 /\
    fb_parse data = FOk r /\
    nth_error blocks i = Some (keys, e) /\ In key keys /\
    (j < length blocks)%nat /\ j <> i /\
    fb_match r (block_start blocks i) key = Some true /\
    fb_match r (block_start blocks j) key = Some false.
Proof. exact wrong_offset_refuted. Qed.
Print Assumptions C14_wrong_offset_refuted.

(** without non-decreasing offsets there are false negatives at the key's own block start *)
Theorem C14_unordered_offsets_refuted :
  exists evs data r pre key post,
    evs = pre ++ EvKey key :: post /\
    ~ offs_mono 0 evs /\
    fb_build 10 evs = Some data /\
    blen data < 4294967296 /\
    fb_parse data = FOk r /\
    fb_match r (last_off 0 pre) key = Some false.
Proof. exact unordered_offsets_refuted. Qed.
Print Assumptions C14_unordered_offsets_refuted.

(** ** 3. Non-vacuity examples *)

(** three data blocks ending at 100, 5000, 5100: blocks 0 and 1 start in the same 2 KiB range
    (filter 0), block 1 spans ranges 0..2 (filter 1 is empty), block 2 starts in range 2 *)
Example C14_example_table :
  let blocks : list (list bytes * N) :=
    [([[97]; [97; 98]], 100); ([[98]; [98; 99; 100; 101; 102]], 5000); ([[122]; []], 5100)] in
  (forall i ks e, nth_error blocks i = Some (ks, e) -> block_start blocks i <= e) /\
  N.of_nat (count_keys (events_of blocks)) * 10 + 71 < 4294967296 /\
  block_start blocks 0 = 0 /\ block_start blocks 1 = 100 /\ block_start blocks 2 = 5000 /\
  exists data r,
    fb_build 10 (events_of blocks) = Some data /\
    blen data < 4294967296 /\
    fb_parse data = FOk r /\
    length (fr_filters r) = 3%nat /\ nth 1 (fr_filters r) [0] = [] /\
    fb_match r 0 [97] = Some true /\
    fb_match r 0 [97; 98] = Some true /\
    fb_match r 100 [98] = Some true /\
    fb_match r 100 [98; 99; 100; 101; 102] = Some true /\
    fb_match r 5000 [122] = Some true /\
    fb_match r 5000 [] = Some true /\
    (* and the filters do discriminate *)
    fb_match r 0 [122] = Some false /\
    fb_match r 2048 [97] = Some false.
Proof.
  cbv zeta. split.
  { intros i ks e H. destruct i as [|[|[|i]]]; cbn [nth_error] in H.
    - injection H as <- <-. vm_compute. discriminate.
    - injection H as <- <-. vm_compute. discriminate.
    - injection H as <- <-. vm_compute. discriminate.
    - destruct i; discriminate. }
  split; [vm_compute; reflexivity|].
  split; [reflexivity|]. split; [reflexivity|]. split; [reflexivity|].
  eexists. eexists.
  split; [vm_compute; reflexivity|].
  split; [vm_compute; reflexivity|].
  split; [vm_compute; reflexivity|].
  repeat split; vm_compute; reflexivity.
Qed.

(** the same table without the notification after the last block *)
Example C14_example_table_open :
  let blocks : list (list bytes * N) :=
    [([[97]; [97; 98]], 100); ([[98]; [98; 99; 100; 101; 102]], 5000); ([[122]; []], 5100)] in
  exists data r,
    fb_build 10 (events_of_open blocks) = Some data /\
    fb_parse data = FOk r /\
    fb_match r 0 [97] = Some true /\
    fb_match r 100 [98] = Some true /\
    fb_match r 5000 [122] = Some true /\
    fb_match r 5000 [] = Some true.
Proof.
  cbv zeta. eexists. eexists.
  split; [vm_compute; reflexivity|].
  split; [vm_compute; reflexivity|].
  repeat split; vm_compute; reflexivity.
Qed.

(** bloom filter with duplicate keys and the empty key *)
Example C14_example_bloom :
  let keys : list bytes := [[]; [1; 2; 3]; [1; 2; 3]; [255]; [1; 2; 3; 4; 5; 6; 7]] in
  filter_bits 10 (N.of_nat (length keys)) < 4294967296 /\
  num_probes 10 = 6 /\
  exists f,
    bloom_create 10 keys = Some f /\
    length f = 9%nat /\
    bloom_match [] f = MOk true /\
    bloom_match [1; 2; 3] f = MOk true /\
    bloom_match [255] f = MOk true /\
    bloom_match [1; 2; 3; 4; 5; 6; 7] f = MOk true /\
    (* and the filter does discriminate *)
    bloom_match [42] f = MOk false.
Proof.
  cbv zeta. split; [vm_compute; reflexivity|]. split; [vm_compute; reflexivity|].
  eexists. split; [vm_compute; reflexivity|].
  repeat split; vm_compute; reflexivity.
Qed.
