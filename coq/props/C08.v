(** C08 — property theorems (statements + [exact] + [Print Assumptions] only). The write path under a failing write-ahead log append ([model/Faults.v]): errors are reported and sticky, acknowledged writes are visible and recovered, the failed write is recovered wholly or not at all, sequence numbers stay fresh. *)
From Coq Require Import Arith List NArith Bool.
From RainVerif Require Import Params.
From RainVerif.model Require Import Bytes Key Block Crc Log LogScript Version Lsm DbSpec Codec WalModel Faults.
From RainVerif.proofs Require Import KeyProofs GetProofs LogProofs CodecProofs WalProofs FaultsProofs.
Import ListNotations.
Open Scope N_scope.

(** * T1: errors are reported and sticky (no side condition) *)

Theorem C08_T1_results : forall ws : list (list wop * fault),
  snd (f_run f_init ws) =
  repeat WOk (first_fault ws) ++ repeat WErr (length ws - first_fault ws).
Proof. exact faults_results. Qed.
Print Assumptions C08_T1_results.

Theorem C08_T1_result_nth : forall (ws : list (list wop * fault)) (j : nat),
  (j < length ws)%nat ->
  nth_error (snd (f_run f_init ws)) j = Some (if (j <? first_fault ws)%nat then WOk else WErr).
Proof. exact faults_result_nth. Qed.
Print Assumptions C08_T1_result_nth.

Theorem C08_T1_sticky : forall (ws : list (list wop * fault)) (j : nat),
  (first_fault ws < j)%nat ->
  fst (f_run f_init (firstn j ws)) = fst (f_run f_init (firstn (S (first_fault ws)) ws)).
Proof. exact faults_sticky. Qed.
Print Assumptions C08_T1_sticky.

Theorem C08_T1_sticky_wal_mem : forall (ws : list (list wop * fault)) (j : nat),
  (first_fault ws < j)%nat ->
  f_wal (fst (f_run f_init (firstn j ws))) = f_wal (fst (f_run f_init (firstn (S (first_fault ws)) ws))) /\
  f_mem (fst (f_run f_init (firstn j ws))) = f_mem (fst (f_run f_init (firstn (S (first_fault ws)) ws))).
Proof. exact faults_sticky_wal_mem. Qed.
Print Assumptions C08_T1_sticky_wal_mem.

(** * T2: acknowledged writes are visible (no side condition) *)

Theorem C08_T2_mem_acked : forall ws : list (list wop * fault),
  f_mem (fst (f_run f_init ws)) = acked 0 ws false.
Proof. exact faults_mem_acked. Qed.
Print Assumptions C08_T2_mem_acked.

Theorem C08_T2_contents_acked : forall ws : list (list wop * fault),
  f_contents (fst (f_run f_init ws)) = replay [] (acked 0 ws false).
Proof. exact faults_contents_acked. Qed.
Print Assumptions C08_T2_contents_acked.

Theorem C08_T2_prefix_acked : forall (ws : list (list wop * fault)) (j : nat),
  f_mem (fst (f_run f_init (firstn j ws))) = acked 0 (firstn j ws) false /\
  f_contents (fst (f_run f_init (firstn j ws))) = replay [] (acked 0 (firstn j ws) false) /\
  acked 0 (firstn j ws) false = firstn j (acked 0 ws false).
Proof. exact faults_prefix_acked. Qed.
Print Assumptions C08_T2_prefix_acked.

Theorem C08_T2_ok_write_applied :
  forall (ws : list (list wop * fault)) (j : nat) (ops : list wop) (f : fault),
  nth_error ws j = Some (ops, f) ->
  nth_error (snd (f_run f_init ws)) j = Some WOk ->
  f_contents (fst (f_run f_init (firstn (S j) ws))) =
  map_apply (f_contents (fst (f_run f_init (firstn j ws)))) ops.
Proof. exact faults_ok_write_applied. Qed.
Print Assumptions C08_T2_ok_write_applied.

Theorem C08_T2_read_after_ok_write :
  forall (ws : list (list wop * fault)) (j : nat) (pre : list wop) (k v : bytes) (f : fault),
  nth_error ws j = Some (pre ++ [WPut k v], f) ->
  nth_error (snd (f_run f_init ws)) j = Some WOk ->
  map_get k (f_contents (fst (f_run f_init (firstn (S j) ws)))) = Some v.
Proof. exact faults_read_after_ok_write. Qed.
Print Assumptions C08_T2_read_after_ok_write.

Theorem C08_T2_read_after_ok_delete :
  forall (ws : list (list wop * fault)) (j : nat) (pre : list wop) (k : bytes) (f : fault),
  nth_error ws j = Some (pre ++ [WDel k], f) ->
  nth_error (snd (f_run f_init ws)) j = Some WOk ->
  map_get k (f_contents (fst (f_run f_init (firstn (S j) ws)))) = None.
Proof. exact faults_read_after_ok_delete. Qed.
Print Assumptions C08_T2_read_after_ok_delete.

(** * T3: after the fault is gone and the database is reopened *)

Theorem C08_T3_reopen : forall ws : list (list wop * fault),
  ws_ok ws = true ->
  f_reopen (fst (f_run f_init ws)) = Some (replay [] (acked 0 ws false ++ f_extra f_init ws)).
Proof. exact faults_reopen. Qed.
Print Assumptions C08_T3_reopen.

(** the non-emptiness of the batches is not needed *)
Theorem C08_T3_reopen_enc : forall ws : list (list wop * fault),
  ws_enc_from 0 ws = true ->
  f_reopen (fst (f_run f_init ws)) = Some (replay [] (acked 0 ws false ++ f_extra f_init ws)).
Proof. exact faults_reopen_enc. Qed.
Print Assumptions C08_T3_reopen_enc.

Theorem C08_T3_reopen_contents : forall ws : list (list wop * fault),
  ws_ok ws = true ->
  f_reopen (fst (f_run f_init ws)) =
  Some (replay (f_contents (fst (f_run f_init ws))) (f_extra f_init ws)).
Proof. exact faults_reopen_contents. Qed.
Print Assumptions C08_T3_reopen_contents.

(** [f_extra] is the failed batch iff [n] covers its whole emission, and empty otherwise *)
Theorem C08_T3_extra_exact :
  forall (pre : list (list wop * fault)) (ops : list wop) (n : nat) (post : list (list wop * fault)),
  first_fault pre = length pre ->
  let s0 := fst (f_run f_init pre) in
  let b : batch := (f_seq s0 + 1, ops) in
  let em := log_append (f_boff s0) (batch_bytes b) in
  f_extra f_init (pre ++ (ops, FailAfter n) :: post) =
    (if (length (fst em) <=? n)%nat then [b] else []) /\
  (f_extra f_init (pre ++ (ops, FailAfter n) :: post) = [b] <-> (length (fst em) <= n)%nat) /\
  (f_extra f_init (pre ++ (ops, FailAfter n) :: post) = [] <-> (n < length (fst em))%nat).
Proof. exact faults_extra_exact. Qed.
Print Assumptions C08_T3_extra_exact.

Theorem C08_T3_reopen_cases : forall ws : list (list wop * fault),
  ws_ok ws = true ->
  (first_fault ws = length ws /\
   f_reopen (fst (f_run f_init ws)) = Some (replay [] (acked 0 ws false)))
  \/
  (exists pre ops n post,
     ws = pre ++ (ops, FailAfter n) :: post /\ first_fault pre = length pre /\
     let s0 := fst (f_run f_init pre) in
     let b : batch := (f_seq s0 + 1, ops) in
     let em := log_append (f_boff s0) (batch_bytes b) in
     ((length (fst em) <= n)%nat ->
        f_reopen (fst (f_run f_init ws)) = Some (replay [] (acked 0 ws false ++ [b]))) /\
     ((n < length (fst em))%nat ->
        f_reopen (fst (f_run f_init ws)) = Some (replay [] (acked 0 ws false)))).
Proof. exact faults_reopen_cases. Qed.
Print Assumptions C08_T3_reopen_cases.

Theorem C08_T3_acked_recovered : forall ws : list (list wop * fault),
  ws_ok ws = true ->
  exists bs, wal_recover (f_wal (fst (f_run f_init ws))) = Some bs /\
             firstn (length (acked 0 ws false)) bs = acked 0 ws false /\
             (forall b, In b (acked 0 ws false) -> In b bs).
Proof. exact faults_acked_recovered. Qed.
Print Assumptions C08_T3_acked_recovered.

(** * T4: sequence numbers *)

Theorem C08_T4_seq : forall (ws : list (list wop * fault)) (bs : list batch),
  ws_ok ws = true ->
  wal_recover (f_wal (fst (f_run f_init ws))) = Some bs ->
  let s := fst (f_run f_init ws) in
  f_seq s = total_ops (attempted 0 ws) /\
  batches_chained 0 bs = true /\
  recovered_last_seq bs = total_ops bs /\
  recovered_last_seq bs <= f_seq s /\
  (forall b, In b bs -> fst b + N.of_nat (length (snd b)) - 1 <= f_seq s) /\
  (forall ops, batches_chained 0 (bs ++ [(recovered_last_seq bs + 1, ops)]) = true).
Proof. exact faults_seq. Qed.
Print Assumptions C08_T4_seq.

(** * T5: examples. [ex_ws n] = three writes, the second (24 bytes of emission) faulted after
    [n] bytes. *)

Example C08_ex_ws_ok : forall n, ws_ok (ex_ws n) = true.
Proof. exact ex_ws_ok. Qed.

Example C08_ex_run_results : forall n,
  let s := fst (f_run f_init (ex_ws n)) in
  snd (f_run f_init (ex_ws n)) = [WOk; WErr; WErr] /\
  f_mem s = [(1, ex_ops1)] /\ f_contents s = [([1], [10])] /\ f_seq s = 3 /\ f_bad s = true.
Proof. exact ex_run_results. Qed.

Example C08_ex_fault_0 :
  let s := fst (f_run f_init (ex_ws 0)) in
  length (f_wal s) = 21%nat /\ f_reopen s = Some [([1], [10])] /\ f_extra f_init (ex_ws 0) = [].
Proof. exact ex_fault_0. Qed.

Example C08_ex_fault_5 :
  let s := fst (f_run f_init (ex_ws 5)) in
  length (f_wal s) = 26%nat /\ f_reopen s = Some [([1], [10])] /\ f_extra f_init (ex_ws 5) = [].
Proof. exact ex_fault_5. Qed.

Example C08_ex_fault_23 :
  let s := fst (f_run f_init (ex_ws 23)) in
  length (f_wal s) = 44%nat /\ f_reopen s = Some [([1], [10])] /\ f_extra f_init (ex_ws 23) = [].
Proof. exact ex_fault_23. Qed.

Example C08_ex_fault_24 :
  let s := fst (f_run f_init (ex_ws 24)) in
  length (f_wal s) = 45%nat /\ f_reopen s = Some [([2], [20])] /\
  f_extra f_init (ex_ws 24) = [(2, ex_ops2)].
Proof. exact ex_fault_24. Qed.

Example C08_ex_fault_1000 :
  let s := fst (f_run f_init (ex_ws 1000)) in
  length (f_wal s) = 45%nat /\ f_reopen s = Some [([2], [20])] /\
  f_extra f_init (ex_ws 1000) = [(2, ex_ops2)].
Proof. exact ex_fault_1000. Qed.

Example C08_ex_no_fault :
  let ws := [(ex_ops1, NoFault); (ex_ops2, NoFault); (ex_ops3, NoFault)] in
  let s := fst (f_run f_init ws) in
  snd (f_run f_init ws) = [WOk; WOk; WOk] /\
  f_contents s = [([2], [20]); ([3], [30])] /\ f_reopen s = Some [([2], [20]); ([3], [30])] /\
  f_seq s = 4.
Proof. exact ex_no_fault. Qed.

(** an emission of two fragments: the complete first fragment alone is not recovered *)
Example C08_ex_big_first_fragment :
  let s := fst (f_run f_init (ex_big_ws 32747)) in
  blen (f_wal s) = 32768 /\ f_reopen s = Some [([1], [10])].
Proof. exact ex_big_first_fragment. Qed.

Example C08_ex_big_all_but_one :
  let s := fst (f_run f_init (ex_big_ws 33028)) in
  blen (f_wal s) = 33049 /\ f_reopen s = Some [([1], [10])].
Proof. exact ex_big_all_but_one. Qed.

Example C08_ex_big_all :
  let s := fst (f_run f_init (ex_big_ws 33029)) in
  blen (f_wal s) = 33050 /\
  option_map (map (fun e : kv => (fst e, blen (snd e)))) (f_reopen s) = Some [([1], 1); ([2], 33000)].
Proof. exact ex_big_all. Qed.

(** the published sequence number may exceed what a reopen computes *)
Example C08_ex_seq_gap :
  let s := fst (f_run f_init (ex_ws 0)) in
  f_seq s = 3 /\ option_map recovered_last_seq (wal_recover (f_wal s)) = Some 1.
Proof. exact ex_seq_gap. Qed.


(** * A failing file-system call during any other step (table write, manifest append, CURRENT
    switch, file removal) leaves a prefix of that step's file operations applied, the last append
    possibly partial: that is a crash image of the step. Every such image recovers exactly the
    acknowledged batches, and recovery from it re-establishes the invariant ([Proto.v], see C02):
    after the fault is gone and the database is reopened it contains every write that returned Ok. *)
From Coq Require Import Arith.
From RainVerif.model Require Import Table TableSpec Gc Recover Proto.
From RainVerif.proofs Require Import ContentsProofs ProtoDurable ProtoSteps ProtoOpen ProtoInstall ProtoProofs ProtoCrash ProtoHistory.

Theorem C08_fault_crashed_recovers : forall img bs, Crashed img bs -> crash_ok img bs.
Proof. exact Crashed_crash_ok. Qed.
Print Assumptions C08_fault_crashed_recovers.

Theorem C08_fault_open_step_crashed : forall o img bs d' ops,
  Crashed img bs -> open_okb o img = true ->
  p_open o img = Some (d', ops) ->
  pd_img d' = apply_fsops img ops /\
  InvE d' bs /\
  all_crash (fun i => Crashed i bs) img ops.
Proof. exact open_step_c. Qed.
Print Assumptions C08_fault_open_step_crashed.

Theorem C08_fault_write_step_crashed : forall d acked b,
  InvE d acked -> write_okb d b = true ->
  let batch := (pd_seq d + 1, b) in
  Crashed (pd_img d) acked /\
  forall t, Crashed (apply_fsop (pd_img d) (FsAppend (FWal (pd_wal d)) (firstn t (fst (log_append (pd_wal_boff d) (batch_bytes batch))))))
                    (if (length (fst (log_append (pd_wal_boff d) (batch_bytes batch))) <=? t)%nat then acked ++ [batch] else acked).
Proof. exact write_step_crashed. Qed.
Print Assumptions C08_fault_write_step_crashed.

Theorem C08_fault_rotate_step_crashed : forall d acked,
  InvE d acked -> (pd_imm d <> None \/ rotate_okb d = true) ->
  all_crash (fun i => Crashed i acked) (pd_img d) (snd (p_rotate d)).
Proof. exact rotate_step_crashed. Qed.
Print Assumptions C08_fault_rotate_step_crashed.

Theorem C08_fault_flush_step_crashed : forall d acked level size seq d' ops,
  InvE d acked -> (pd_imm d = None \/ flush_okb d level size seq = true) ->
  p_flush d level size seq = Some (d', ops) ->
  all_crash (fun i => Crashed i acked) (pd_img d) ops.
Proof. exact flush_step_crashed. Qed.
Print Assumptions C08_fault_flush_step_crashed.

Theorem C08_fault_install_step_crashed : forall d acked deleted added pointers seq d' ops,
  InvE d acked ->
  install_okb d deleted added pointers seq = true ->
  install_preserves d deleted added pointers seq ->
  p_install d deleted added pointers seq = Some (d', ops) ->
  all_crash (fun i => Crashed i acked) (pd_img d) ops.
Proof. exact install_step_crashed. Qed.
Print Assumptions C08_fault_install_step_crashed.
