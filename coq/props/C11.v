(** C11 — property theorems (statements + [exact] + [Print Assumptions] only). *)
From RainVerif.model Require Import Gc.
From RainVerif.proofs Require Import GcProofs.
Open Scope N_scope.

(** [remove_obsolete_files] never selects a file that the current version, another live version
    (iterator, read in flight, compaction input), an output being written, or recovery (current
    manifest, WALs at or above the version set's WAL number, the WAL being flushed) still needs *)
Theorem C11_never_deletes_needed : forall g current_tables f,
  (forall n, In n current_tables -> In n (g_live g)) ->
  needed g current_tables f -> keep g f = true.
Proof. exact never_deletes_needed. Qed.
Print Assumptions C11_never_deletes_needed.

(** at a quiescent moment (only the current version is linked, nothing is being written, no
    flush pending) every surviving file is needed — except manifests numbered above the current
    one, which is the recorded known finding [orphan-newer-manifest] *)
Theorem C11_quiescent_exact : forall g current_tables listing f,
  g_live g = current_tables -> g_inuse g = [] -> g_prev_wal g = None ->
  (forall n, In (FTemp n) listing -> ~ In n current_tables) ->
  In f (gc g listing) ->
  needed g current_tables f \/ (exists n, f = FManifest n /\ g_manifest g < n).
Proof. exact quiescent_exact. Qed.
Print Assumptions C11_quiescent_exact.

(** the known finding is real on the model: an orphan manifest with a greater number survives *)
Example C11_orphan_newer_manifest_refuted :
  exists g listing f, In f (gc g listing) /\ ~ needed g [] f.
Proof.
  exists (mkGC [] [] 3 None 1), [FCurrent; FManifest 1; FManifest 2; FWal 3], (FManifest 2).
  split; [vm_compute; tauto | cbn; discriminate].
Qed.

(** ** version list: reference counts balance on every well-formed run

    [wf_events evs]: checked along the run from [vs_init], every [VInstall] uses an id greater
    than every id used so far, every [VHold] names a currently linked version, every [VDrop]
    matches an outstanding hold ([holds_of]: the multiset of holds not yet dropped). *)

(** the boolean check is the pointwise condition on every prefix *)
Theorem C11_wf_events_iff : forall evs,
  wf_events evs = true <->
  (forall pre e post, evs = pre ++ e :: post -> ev_ok (vs_run pre) (gh_run pre) e = true).
Proof. exact wf_events_iff. Qed.
Print Assumptions C11_wf_events_iff.

(** T1: reference counts are exact: one for the current pointer plus one per outstanding hold;
    every linked version has a holder; linked ids are unique; the current version is linked *)
Theorem C11_refs_exact : forall evs, wf_events evs = true ->
  let s := vs_run evs in
  (forall v, In v (vs_nodes s) ->
     vn_refs v = ((if vn_id v =? vs_current s then 1 else 0) + countN (vn_id v) (holds_of evs))%nat
     /\ (vn_refs v >= 1)%nat)
  /\ NoDup (map vn_id (vs_nodes s))
  /\ In (vs_current s) (map vn_id (vs_nodes s)).
Proof. exact refs_exact. Qed.
Print Assumptions C11_refs_exact.

(** T2: a version stays linked exactly while the current pointer or an outstanding hold owns it *)
Theorem C11_linked_iff_held : forall evs i, wf_events evs = true ->
  (In i (map vn_id (vs_nodes (vs_run evs))) <->
   i = vs_current (vs_run evs) \/ In i (holds_of evs)).
Proof. exact linked_iff_held. Qed.
Print Assumptions C11_linked_iff_held.

(** the files a held version was installed with are live ... *)
Theorem C11_held_files_live : forall evs i f, wf_events evs = true ->
  i = vs_current (vs_run evs) \/ In i (holds_of evs) ->
  In f (installed_files evs i) -> In f (vs_live_files (vs_run evs)).
Proof. exact held_files_live. Qed.
Print Assumptions C11_held_files_live.

(** ... so with [g_live] taken from the version list, [remove_obsolete_files] keeps everything
    needed (the side condition of [C11_never_deletes_needed] holds by construction) and never
    selects a table of a version that a reader, iterator or compaction still holds *)
Theorem C11_run_never_deletes_needed : forall evs g f, wf_events evs = true ->
  g_live g = vs_live_files (vs_run evs) ->
  needed g (installed_files evs (vs_current (vs_run evs))) f -> keep g f = true.
Proof. exact run_never_deletes_needed. Qed.
Print Assumptions C11_run_never_deletes_needed.

Theorem C11_held_files_kept : forall evs g i n listing, wf_events evs = true ->
  g_live g = vs_live_files (vs_run evs) ->
  i = vs_current (vs_run evs) \/ In i (holds_of evs) ->
  In n (installed_files evs i) ->
  keep g (FTable n) = true /\ (In (FTable n) listing -> In (FTable n) (gc g listing)).
Proof. exact held_files_kept. Qed.
Print Assumptions C11_held_files_kept.

(** T3: with no outstanding holds nothing dead is kept: the list is exactly the current version,
    carrying the files of the last install ([[]] before the first) *)
Theorem C11_no_holds_exact : forall evs, wf_events evs = true -> holds_of evs = [] ->
  let s := vs_run evs in
  vs_nodes s = [mkVN (vs_current s) 1 (last_files evs)] /\ vs_live_files s = last_files evs.
Proof. exact no_holds_exact. Qed.
Print Assumptions C11_no_holds_exact.

Theorem C11_no_holds_balanced : forall evs, wf_events evs = true -> holds_of evs = [] ->
  balanced_b (vs_run evs) = true.
Proof. exact no_holds_balanced. Qed.
Print Assumptions C11_no_holds_balanced.

(** T4 (defect D8, the trivial-move path held its input version and never released it): a hold
    that is never dropped keeps the version linked and its files live for the rest of the run *)
Theorem C11_unmatched_hold_stays_linked : forall evs1 evs2 i,
  wf_events (evs1 ++ evs2) = true ->
  In i (holds_of evs1) -> ~ In (VDrop i) evs2 ->
  In i (map vn_id (vs_nodes (vs_run (evs1 ++ evs2)))) /\
  (forall f, In f (installed_files evs1 i) -> In f (vs_live_files (vs_run (evs1 ++ evs2)))).
Proof. exact unmatched_hold_stays_linked. Qed.
Print Assumptions C11_unmatched_hold_stays_linked.

(** the D8 scenario, one id up because the initial version is id 0 with no files: version 1
    (file 5) is held and never released; after two more installs file 5 is still live *)
Example C11_leak_D8 :
  let evs := [VInstall 1 [5]; VHold 1; VInstall 2 [6]; VInstall 3 [7]] in
  wf_events evs = true /\ In 5 (vs_live_files (vs_run evs)) /\ vs_live_files (vs_run evs) = [5; 7].
Proof. vm_compute. auto. Qed.

(** with the hold released (the repair) only the current version's file stays *)
Example C11_leak_D8_repaired :
  let evs := [VInstall 1 [5]; VHold 1; VInstall 2 [6]; VDrop 1; VInstall 3 [7]] in
  wf_events evs = true /\ vs_live_files (vs_run evs) = [7].
Proof. vm_compute. auto. Qed.

(** the hypotheses are satisfiable on an interleaved run *)
Example C11_wf_satisfiable :
  wf_events sample_run = true /\ holds_of sample_run = []
  /\ vs_run sample_run = mkVS [mkVN 9 1 [7; 10]] 9
  /\ holds_of (firstn 10 sample_run) = [4; 2; 1]
  /\ vs_nodes (vs_run (firstn 10 sample_run)) = [mkVN 1 1 [5]; mkVN 2 1 [6]; mkVN 4 2 [7; 8]].
Proof. vm_compute. repeat split. Qed.


(** * Garbage collection inside the persistence protocol ([Proto.do_gc]): nothing recovery needs is
    removed, at any prefix of the removals *)
From Coq Require Import List NArith Bool Arith.
From RainVerif Require Import Params.
From RainVerif.model Require Import Bytes Key Block Crc Log Table TableSpec Version Lsm DbSpec Codec WalModel Recover Proto.
From RainVerif.proofs Require Import ContentsProofs ProtoDurable ProtoSteps ProtoOpen ProtoInstall ProtoProofs.
Import ListNotations.
(** * M6 (C11): garbage collection *)

Theorem C11_gc_removed_not_needed : forall d acked f,
  InvE d acked -> In (FsRemove f) (gc_ops d) ->
  exists rc, recover_image (pd_img d) = inl rc /\
    match f with
    | FManifest n => n <> ms_number (rc_manifest rc)
    | FTable n => ~ In n (version_numbers (ms_version (rc_manifest rc)))
    | FWal n => forall w, In w (rc_wals rc) -> wr_number w <> n
    | FTemp _ => True
    | FCurrent => False
    | FLock => True
    end.
Proof. exact gc_removed_not_needed. Qed.
Print Assumptions C11_gc_removed_not_needed.

Theorem C11_gc_preserves_recovery : forall d acked,
  InvE d acked ->
  InvE (fst (do_gc d)) acked /\ all_crash (fun i => Good i acked) (pd_img d) (snd (do_gc d)).
Proof. exact gc_preserves_recovery. Qed.
Print Assumptions C11_gc_preserves_recovery.

(** * File names ([model/Names.v]): naming and recognition of directory entries *)
From Coq Require Import String.
From RainVerif.model Require Import Bytes Names.
From RainVerif.proofs Require Import NamesProofs.
Open Scope N_scope.

(** ** T1: decimal printing *)

(** the digits of a [u64]: non-empty, ASCII digits only, no leading zero unless the number is 0,
    read back by [parse_digits] and by [parse_u64] (and worth the number) *)
Theorem C11_names_digits : forall n, n < 2 ^ 64 ->
  digits n <> [] /\ Forall is_digit (digits n) /\
  (forall r, digits n = 48 :: r -> n = 0) /\
  parse_digits (digits n) 0 = Some n /\ parse_u64 (digits n) = Some n /\ dec_val (digits n) 0 = n.
Proof. exact digits_props. Qed.
Print Assumptions C11_names_digits.

Theorem C11_names_digits_zero : digits 0 = [48].
Proof. exact digits_zero. Qed.
Print Assumptions C11_names_digits_zero.

(** what [parse_u64] accepts, exactly: an optional '+', then at least one digit, value < 2^64 *)
Theorem C11_names_parse_u64_iff : forall ds n,
  parse_u64 ds = Some n <->
  exists body, (ds = body \/ ds = 43 :: body) /\ body <> [] /\ Forall is_digit body /\
               dec_val body 0 = n /\ n < 2 ^ 64.
Proof. exact parse_u64_some_iff. Qed.
Print Assumptions C11_names_parse_u64_iff.

(** ** T2: round trip *)

Theorem C11_names_round_trip : forall k, kind_ok k -> parse_name (file_name k) = Some k.
Proof. exact parse_file_name. Qed.
Print Assumptions C11_names_round_trip.

(** ** T3: injectivity — two different files never get the same name *)

Theorem C11_names_injective : forall k1 k2, kind_ok k1 -> kind_ok k2 ->
  file_name k1 = file_name k2 -> k1 = k2.
Proof. exact file_name_injective. Qed.
Print Assumptions C11_names_injective.

(** in particular files of different kinds differ even when their numbers agree *)
Theorem C11_names_kinds_differ : forall n m, n < 2 ^ 64 -> m < 2 ^ 64 ->
  file_name (KTable n) <> file_name (KTemp m) /\
  file_name (KManifest n) <> file_name (KWal m) /\
  file_name (KTable n) <> file_name (KWal m) /\
  file_name (KTable n) <> file_name (KManifest m) /\
  file_name (KTemp n) <> file_name (KWal m) /\
  file_name (KTemp n) <> file_name (KManifest m).
Proof. exact file_name_kinds_differ. Qed.
Print Assumptions C11_names_kinds_differ.

(** every name is 7-bit ASCII *)
Theorem C11_names_names_ascii : forall k, kind_ok k -> Forall (fun b => b < 128) (file_name k).
Proof. exact file_name_ascii. Qed.
Print Assumptions C11_names_names_ascii.

(** ** T4: what is recognised — exactly [file_name k] up to the spelling of the number *)

Theorem C11_names_recognised_iff : forall s k,
  parse_name s = Some k <->
  match k with
  | KCurrent => s = ascii_CURRENT
  | KLock => s = ascii_LOCK
  | KManifest n =>
      exists ds, parse_u64 ds = Some n /\ s = ascii_MANIFEST_dash ++ ds ++ [DOT] ++ ext_manifest
  | KWal n => exists ds, parse_u64 ds = Some n /\ s = ascii_wal_dash ++ ds ++ [DOT] ++ ext_log
  | KTable n => exists ds, parse_u64 ds = Some n /\ s = ds ++ [DOT] ++ ext_rdb
  | KTemp n => exists ds, parse_u64 ds = Some n /\ s = ds ++ [DOT] ++ ext_dbtemp
  end.
Proof. exact parse_name_iff. Qed.
Print Assumptions C11_names_recognised_iff.

(** for the four numbered shapes the verdict is that of [parse_u64] on the number part, whatever
    that part is (empty, signed, too large, not a number) *)
Theorem C11_names_numbered_shapes : forall ds,
  parse_name (ascii_MANIFEST_dash ++ ds ++ [DOT] ++ ext_manifest) = option_map KManifest (parse_u64 ds) /\
  parse_name (ascii_wal_dash ++ ds ++ [DOT] ++ ext_log) = option_map KWal (parse_u64 ds) /\
  parse_name (ds ++ [DOT] ++ ext_rdb) = option_map KTable (parse_u64 ds) /\
  parse_name (ds ++ [DOT] ++ ext_dbtemp) = option_map KTemp (parse_u64 ds).
Proof. exact parse_name_numbered. Qed.
Print Assumptions C11_names_numbered_shapes.

(** a recognised entry carries a [u64], and the canonical name of its kind is recognised alike *)
Theorem C11_names_recognised_kind_ok : forall s k, parse_name s = Some k -> kind_ok k.
Proof. exact parse_name_kind_ok. Qed.
Print Assumptions C11_names_recognised_kind_ok.

Theorem C11_names_recognised_canonical : forall s k,
  parse_name s = Some k -> parse_name (file_name k) = Some k.
Proof. exact parse_name_canonical. Qed.
Print Assumptions C11_names_recognised_canonical.

(** ** T5: what is rejected *)

Theorem C11_names_rejects_empty : parse_name [] = None.
Proof. exact parse_name_empty. Qed.
Print Assumptions C11_names_rejects_empty.

Theorem C11_names_rejects_dotless : forall s,
  ~ In DOT s -> s <> ascii_CURRENT -> s <> ascii_LOCK -> parse_name s = None.
Proof. exact parse_name_nodot. Qed.
Print Assumptions C11_names_rejects_dotless.

(** digit strings worth 2^64 or more, with or without a '+', in all four shapes *)
Theorem C11_names_rejects_overflow : forall ds, Forall is_digit ds -> 2 ^ 64 <= dec_val ds 0 ->
  forall ds', ds' = ds \/ ds' = 43 :: ds ->
  parse_name (ascii_MANIFEST_dash ++ ds' ++ [DOT] ++ ext_manifest) = None /\
  parse_name (ascii_wal_dash ++ ds' ++ [DOT] ++ ext_log) = None /\
  parse_name (ds' ++ [DOT] ++ ext_rdb) = None /\
  parse_name (ds' ++ [DOT] ++ ext_dbtemp) = None.
Proof. exact parse_name_overflow. Qed.
Print Assumptions C11_names_rejects_overflow.

Theorem C11_names_rejects_empty_number :
  parse_name (ascii_MANIFEST_dash ++ [DOT] ++ ext_manifest) = None /\
  parse_name (ascii_wal_dash ++ [DOT] ++ ext_log) = None /\
  parse_name ([DOT] ++ ext_rdb) = None /\
  parse_name ([DOT] ++ ext_dbtemp) = None.
Proof. exact parse_name_empty_number. Qed.
Print Assumptions C11_names_rejects_empty_number.

(** ** examples *)

(** the model's byte constants spell what the code writes *)
Example C11_names_ex_spelling :
  file_name KCurrent = str "CURRENT" /\ file_name KLock = str "LOCK" /\
  file_name (KManifest 5) = str "MANIFEST-5.manifest" /\ file_name (KWal 12) = str "wal-12.log" /\
  file_name (KTable 7) = str "7.rdb" /\ file_name (KTemp 7) = str "7.dbtemp" /\
  file_name (KTable 0) = str "0.rdb" /\
  file_name (KTable 18446744073709551615) = str "18446744073709551615.rdb".
Proof. vm_compute. repeat split. Qed.

(** a leading '+' and leading zeros are accepted: such entries alias the canonical names *)
Example C11_names_ex_plus : parse_name (str "wal-+7.log") = Some (KWal 7).
Proof. reflexivity. Qed.
Example C11_names_ex_leading_zeros : parse_name (str "007.rdb") = Some (KTable 7).
Proof. reflexivity. Qed.
Example C11_names_ex_plus_zeros_manifest : parse_name (str "MANIFEST-+0005.manifest") = Some (KManifest 5).
Proof. reflexivity. Qed.
Example C11_names_ex_max : parse_name (str "18446744073709551615.rdb") = Some (KTable 18446744073709551615).
Proof. reflexivity. Qed.

(** rejected *)
Example C11_names_ex_overflow : parse_name (str "18446744073709551616.rdb") = None.
Proof. reflexivity. Qed.
Example C11_names_ex_wal_no_number : parse_name (str "wal-.log") = None.
Proof. reflexivity. Qed.
Example C11_names_ex_only_extension : parse_name (str ".rdb") = None.
Proof. reflexivity. Qed.
Example C11_names_ex_more_rejects :
  parse_name (str "") = None /\ parse_name (str "wal") = None /\ parse_name (str "7") = None /\
  parse_name (str "CURRENT.rdb") = None /\ parse_name (str "current") = None /\
  parse_name (str "7.rdb.dbtemp") = None /\ parse_name (str "-7.rdb") = None /\
  parse_name (str "++7.rdb") = None /\ parse_name (str "+.rdb") = None /\
  parse_name (str "7 .rdb") = None /\ parse_name (str "7.") = None /\ parse_name (str "7.RDB") = None /\
  parse_name (str "5.manifest") = None /\ parse_name (str "MANIFEST-5.log") = None /\
  parse_name (str "wal-5.rdb") = None /\ parse_name (str "MANIFEST-5") = None /\
  parse_name (str "..") = None /\ parse_name (str "7..rdb") = None.
Proof. vm_compute. repeat split. Qed.

(** ** false of the model *)

(** [parse_name] is not a strict inverse of [file_name]: non-canonical spellings are recognised *)
Example C11_names_strict_inverse_refuted :
  exists s k, parse_name s = Some k /\ s <> file_name k.
Proof. exists (str "007.rdb"), (KTable 7). split; [reflexivity|discriminate]. Qed.

(** so two distinct directory entries can be taken for the same file *)
Example C11_names_recognition_injective_refuted :
  exists s1 s2 k, s1 <> s2 /\ parse_name s1 = Some k /\ parse_name s2 = Some k.
Proof.
  exists (str "wal-7.log"), (str "wal-+7.log"), (KWal 7).
  split; [discriminate|split; reflexivity].
Qed.

(** the [u64] bound of T2 is needed: the printed name of 2^64 is not recognised *)
Example C11_names_round_trip_unbounded_refuted :
  exists k, parse_name (file_name k) <> Some k.
Proof. exists (KTable (2 ^ 64)). vm_compute. discriminate. Qed.

(** the bound of T3 is needed on the model (an artefact of [digits]' fuel of 25 digits, far above
    [u64]): numbers of 26 digits and more lose their leading digits *)
Example C11_names_injective_unbounded_refuted :
  exists k1 k2, k1 <> k2 /\ file_name k1 = file_name k2.
Proof.
  exists (KTable (10 ^ 25 + 5)), (KTable (2 * 10 ^ 25 + 5)).
  split; [vm_compute; discriminate|reflexivity].
Qed.
