(** C11 — property theorems (statements + [exact] + [Print Assumptions] only). *)
From RainVerif.model Require Import Gc.
From RainVerif.proofs Require Import GcProofs.
Open Scope N_scope.

(** [remove_obsolete_files] never selects a file that the current version, another live version
    (iterator, read in flight, compaction input), an output being written, or recovery (current
    manifest, WALs at or above the version set's WAL number, the WAL being flushed) still needs *)
Theorem C11_never_deletes_needed : forall g current_tables f,
  (forall n, In n current_tables -> In n (g_live g)) ->
  needed g current_tables f -> keep g f = true.
Proof. exact never_deletes_needed. Qed.
Print Assumptions C11_never_deletes_needed.

(** at a quiescent moment (only the current version is linked, nothing is being written, no
    flush pending) every surviving file is needed — except manifests numbered above the current
    one, which is the recorded known finding [orphan-newer-manifest] *)
Theorem C11_quiescent_exact : forall g current_tables listing f,
  g_live g = current_tables -> g_inuse g = [] -> g_prev_wal g = None ->
  (forall n, In (FTemp n) listing -> ~ In n current_tables) ->
  In f (gc g listing) ->
  needed g current_tables f \/ (exists n, f = FManifest n /\ g_manifest g < n).
Proof. exact quiescent_exact. Qed.
Print Assumptions C11_quiescent_exact.

(** the known finding is real on the model: an orphan manifest with a greater number survives *)
Example C11_orphan_newer_manifest_refuted :
  exists g listing f, In f (gc g listing) /\ ~ needed g [] f.
Proof.
  exists (mkGC [] [] 3 None 1), [FCurrent; FManifest 1; FManifest 2; FWal 3], (FManifest 2).
  split; [vm_compute; tauto | cbn; discriminate].
Qed.

(** ** version list: reference counts balance on every well-formed run

    [wf_events evs]: checked along the run from [vs_init], every [VInstall] uses an id greater
    than every id used so far, every [VHold] names a currently linked version, every [VDrop]
    matches an outstanding hold ([holds_of]: the multiset of holds not yet dropped). *)

(** the boolean check is the pointwise condition on every prefix *)
Theorem C11_wf_events_iff : forall evs,
  wf_events evs = true <->
  (forall pre e post, evs = pre ++ e :: post -> ev_ok (vs_run pre) (gh_run pre) e = true).
Proof. exact wf_events_iff. Qed.
Print Assumptions C11_wf_events_iff.

(** T1: reference counts are exact: one for the current pointer plus one per outstanding hold;
    every linked version has a holder; linked ids are unique; the current version is linked *)
Theorem C11_refs_exact : forall evs, wf_events evs = true ->
  let s := vs_run evs in
  (forall v, In v (vs_nodes s) ->
     vn_refs v = ((if vn_id v =? vs_current s then 1 else 0) + countN (vn_id v) (holds_of evs))%nat
     /\ (vn_refs v >= 1)%nat)
  /\ NoDup (map vn_id (vs_nodes s))
  /\ In (vs_current s) (map vn_id (vs_nodes s)).
Proof. exact refs_exact. Qed.
Print Assumptions C11_refs_exact.

(** T2: a version stays linked exactly while the current pointer or an outstanding hold owns it *)
Theorem C11_linked_iff_held : forall evs i, wf_events evs = true ->
  (In i (map vn_id (vs_nodes (vs_run evs))) <->
   i = vs_current (vs_run evs) \/ In i (holds_of evs)).
Proof. exact linked_iff_held. Qed.
Print Assumptions C11_linked_iff_held.

(** the files a held version was installed with are live ... *)
Theorem C11_held_files_live : forall evs i f, wf_events evs = true ->
  i = vs_current (vs_run evs) \/ In i (holds_of evs) ->
  In f (installed_files evs i) -> In f (vs_live_files (vs_run evs)).
Proof. exact held_files_live. Qed.
Print Assumptions C11_held_files_live.

(** ... so with [g_live] taken from the version list, [remove_obsolete_files] keeps everything
    needed (the side condition of [C11_never_deletes_needed] holds by construction) and never
    selects a table of a version that a reader, iterator or compaction still holds *)
Theorem C11_run_never_deletes_needed : forall evs g f, wf_events evs = true ->
  g_live g = vs_live_files (vs_run evs) ->
  needed g (installed_files evs (vs_current (vs_run evs))) f -> keep g f = true.
Proof. exact run_never_deletes_needed. Qed.
Print Assumptions C11_run_never_deletes_needed.

Theorem C11_held_files_kept : forall evs g i n listing, wf_events evs = true ->
  g_live g = vs_live_files (vs_run evs) ->
  i = vs_current (vs_run evs) \/ In i (holds_of evs) ->
  In n (installed_files evs i) ->
  keep g (FTable n) = true /\ (In (FTable n) listing -> In (FTable n) (gc g listing)).
Proof. exact held_files_kept. Qed.
Print Assumptions C11_held_files_kept.

(** T3: with no outstanding holds nothing dead is kept: the list is exactly the current version,
    carrying the files of the last install ([[]] before the first) *)
Theorem C11_no_holds_exact : forall evs, wf_events evs = true -> holds_of evs = [] ->
  let s := vs_run evs in
  vs_nodes s = [mkVN (vs_current s) 1 (last_files evs)] /\ vs_live_files s = last_files evs.
Proof. exact no_holds_exact. Qed.
Print Assumptions C11_no_holds_exact.

Theorem C11_no_holds_balanced : forall evs, wf_events evs = true -> holds_of evs = [] ->
  balanced_b (vs_run evs) = true.
Proof. exact no_holds_balanced. Qed.
Print Assumptions C11_no_holds_balanced.

(** T4 (defect D8, the trivial-move path held its input version and never released it): a hold
    that is never dropped keeps the version linked and its files live for the rest of the run *)
Theorem C11_unmatched_hold_stays_linked : forall evs1 evs2 i,
  wf_events (evs1 ++ evs2) = true ->
  In i (holds_of evs1) -> ~ In (VDrop i) evs2 ->
  In i (map vn_id (vs_nodes (vs_run (evs1 ++ evs2)))) /\
  (forall f, In f (installed_files evs1 i) -> In f (vs_live_files (vs_run (evs1 ++ evs2)))).
Proof. exact unmatched_hold_stays_linked. Qed.
Print Assumptions C11_unmatched_hold_stays_linked.

(** the D8 scenario, one id up because the initial version is id 0 with no files: version 1
    (file 5) is held and never released; after two more installs file 5 is still live *)
Example C11_leak_D8 :
  let evs := [VInstall 1 [5]; VHold 1; VInstall 2 [6]; VInstall 3 [7]] in
  wf_events evs = true /\ In 5 (vs_live_files (vs_run evs)) /\ vs_live_files (vs_run evs) = [5; 7].
Proof. vm_compute. auto. Qed.

(** with the hold released (the repair) only the current version's file stays *)
Example C11_leak_D8_repaired :
  let evs := [VInstall 1 [5]; VHold 1; VInstall 2 [6]; VDrop 1; VInstall 3 [7]] in
  wf_events evs = true /\ vs_live_files (vs_run evs) = [7].
Proof. vm_compute. auto. Qed.

(** the hypotheses are satisfiable on an interleaved run *)
Example C11_wf_satisfiable :
  wf_events sample_run = true /\ holds_of sample_run = []
  /\ vs_run sample_run = mkVS [mkVN 9 1 [7; 10]] 9
  /\ holds_of (firstn 10 sample_run) = [4; 2; 1]
  /\ vs_nodes (vs_run (firstn 10 sample_run)) = [mkVN 1 1 [5]; mkVN 2 1 [6]; mkVN 4 2 [7; 8]].
Proof. vm_compute. repeat split. Qed.


(** * Garbage collection inside the persistence protocol ([Proto.do_gc]): nothing recovery needs is
    removed, at any prefix of the removals *)
From Coq Require Import List NArith Bool Arith.
From RainVerif Require Import Params.
From RainVerif.model Require Import Bytes Key Block Crc Log Table TableSpec Version Lsm DbSpec Codec WalModel Recover Proto.
From RainVerif.proofs Require Import ContentsProofs ProtoDurable ProtoSteps ProtoOpen ProtoInstall ProtoProofs.
Import ListNotations.
(** * M6 (C11): garbage collection *)

Theorem C11_gc_removed_not_needed : forall d acked f,
  InvE d acked -> In (FsRemove f) (gc_ops d) ->
  exists rc, recover_image (pd_img d) = inl rc /\
    match f with
    | FManifest n => n <> ms_number (rc_manifest rc)
    | FTable n => ~ In n (version_numbers (ms_version (rc_manifest rc)))
    | FWal n => forall w, In w (rc_wals rc) -> wr_number w <> n
    | FTemp _ => True
    | FCurrent => False
    | FLock => True
    end.
Proof. exact gc_removed_not_needed. Qed.
Print Assumptions C11_gc_removed_not_needed.

Theorem C11_gc_preserves_recovery : forall d acked,
  InvE d acked ->
  InvE (fst (do_gc d)) acked /\ all_crash (fun i => Good i acked) (pd_img d) (snd (do_gc d)).
Proof. exact gc_preserves_recovery. Qed.
Print Assumptions C11_gc_preserves_recovery.
