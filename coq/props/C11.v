(** C11 — property theorems (statements + [exact] + [Print Assumptions] only). *)
From RainVerif.model Require Import Gc.
From RainVerif.proofs Require Import GcProofs.
Open Scope N_scope.

(** [remove_obsolete_files] never selects a file that the current version, another live version
    (iterator, read in flight, compaction input), an output being written, or recovery (current
    manifest, WALs at or above the version set's WAL number, the WAL being flushed) still needs *)
Theorem C11_never_deletes_needed : forall g current_tables f,
  (forall n, In n current_tables -> In n (g_live g)) ->
  needed g current_tables f -> keep g f = true.
Proof. exact never_deletes_needed. Qed.
Print Assumptions C11_never_deletes_needed.

(** at a quiescent moment (only the current version is linked, nothing is being written, no
    flush pending) every surviving file is needed — except manifests numbered above the current
    one, which is the recorded known finding [orphan-newer-manifest] *)
Theorem C11_quiescent_exact : forall g current_tables listing f,
  g_live g = current_tables -> g_inuse g = [] -> g_prev_wal g = None ->
  (forall n, In (FTemp n) listing -> ~ In n current_tables) ->
  In f (gc g listing) ->
  needed g current_tables f \/ (exists n, f = FManifest n /\ g_manifest g < n).
Proof. exact quiescent_exact. Qed.
Print Assumptions C11_quiescent_exact.

(** the known finding is real on the model: an orphan manifest with a greater number survives *)
Example C11_orphan_newer_manifest_refuted :
  exists g listing f, In f (gc g listing) /\ ~ needed g [] f.
Proof.
  exists (mkGC [] [] 3 None 1), [FCurrent; FManifest 1; FManifest 2; FWal 3], (FManifest 2).
  split; [vm_compute; tauto | cbn; discriminate].
Qed.
