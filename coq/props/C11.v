(** C11 — property theorems (statements + [exact] + [Print Assumptions] only). *)
From RainVerif Require Import Params.
From RainVerif.model Require Import Bytes Key Version Lsm LsmSpec.
Open Scope N_scope.
