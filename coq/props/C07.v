(** C07 (part a: the merge of a compaction is invisible to readers) — property theorems
    (statements + [exact] + [Print Assumptions] only), sensitivity witnesses and a non-vacuity
    example. [key_of e = (ik_user (fst e), ik_seq (fst e))] is the identity of an entry. *)
From RainVerif Require Import Params.
From RainVerif.model Require Import Bytes Key Block Table TableSpec Version Lsm LsmSpec.
From RainVerif.proofs Require Import KeyProofs CompactProofs.
Open Scope N_scope.
(** * Part a: the merge with the drop rule preserves every view at or above the oldest snapshot *)


Example C07a_key_of_def : forall e : entry, key_of e = (ik_user (fst e), ik_seq (fst e)).
Proof. reflexivity. Qed.

(** * The sort of the merge *)

Theorem C07a_sort_entries_perm : forall l, Permutation.Permutation (sort_entries l) l.
Proof. exact sort_entries_perm. Qed.
Print Assumptions C07a_sort_entries_perm.

Theorem C07a_sort_entries_sorted : forall l,
  NoDup (map key_of l) -> sorted_entries (sort_entries l) = true.
Proof. exact sort_entries_sorted. Qed.
Print Assumptions C07a_sort_entries_sorted.

(** * The output of the merge: strictly sorted, a subset of the inputs, and exactly the entries
    that are neither shadowed below the smallest snapshot nor obsolete deletion markers *)

Theorem C07a_compact_entries_sorted : forall ss base inputs,
  NoDup (map key_of (concat inputs)) ->
  sorted_entries (compact_entries ss base inputs) = true.
Proof. exact compact_entries_sorted. Qed.
Print Assumptions C07a_compact_entries_sorted.

Theorem C07a_compact_entries_incl : forall ss base inputs e,
  In e (compact_entries ss base inputs) -> In e (concat inputs).
Proof. exact compact_entries_incl. Qed.
Print Assumptions C07a_compact_entries_incl.

Theorem C07a_compact_entries_NoDup : forall ss base inputs,
  NoDup (map key_of (concat inputs)) ->
  NoDup (map key_of (compact_entries ss base inputs)).
Proof. exact compact_entries_NoDup. Qed.
Print Assumptions C07a_compact_entries_NoDup.

Theorem C07a_compact_entries_In : forall ss base inputs e,
  ss < MAX_SEQ ->
  NoDup (map key_of (concat inputs)) ->
  (In e (compact_entries ss base inputs) <->
   In e (concat inputs) /\
   ~ (exists p, In p (concat inputs) /\ ik_user (fst p) = ik_user (fst e) /\
                ik_seq (fst e) < ik_seq (fst p) /\ ik_seq (fst p) <= ss) /\
   (ik_op (fst e) =? OP_DELETE) && (ik_seq (fst e) <=? ss) && base (ik_user (fst e)) = false).
Proof. exact compact_entries_In. Qed.
Print Assumptions C07a_compact_entries_In.

(** * What a reader sees depends only on the set of entries *)

Theorem C07a_newest_le_iff : forall es k q e,
  NoDup (map key_of es) ->
  (newest_le es k q = Some e <->
   In e es /\ ik_user (fst e) = k /\ ik_seq (fst e) <= q /\
   forall e', In e' es -> ik_user (fst e') = k -> ik_seq (fst e') <= q ->
              ik_seq (fst e') <= ik_seq (fst e)).
Proof. exact newest_le_iff_nodup. Qed.
Print Assumptions C07a_newest_le_iff.

Theorem C07a_newest_le_none_iff : forall es k q,
  newest_le es k q = None <->
  (forall e', In e' es -> ik_user (fst e') = k -> ik_seq (fst e') <= q -> False).
Proof. exact newest_le_none_iff. Qed.
Print Assumptions C07a_newest_le_none_iff.

Theorem C07a_visible_perm : forall es es' q k,
  NoDup (map key_of es) -> Permutation.Permutation es es' -> visible es q k = visible es' q k.
Proof. exact visible_perm. Qed.
Print Assumptions C07a_visible_perm.

(** * Compaction is invisible to every reader at or above the smallest snapshot: deleted keys
    never reappear, overwritten values never resurface, no live key disappears *)

(** the hypotheses that are needed *)
Theorem C07a_compact_preserves_visible :
  forall (ss : N) (base : bytes -> bool) (inputs : list (list entry))
         (above below : list entry) (q : N) (k : bytes),
    NoDup (map key_of (above ++ concat inputs ++ below)) ->
    newer_than above (concat inputs) = true ->
    (forall u, base u = true -> forall e, In e below -> ik_user (fst e) <> u) ->
    ss < MAX_SEQ ->
    ss <= q ->
    visible (above ++ compact_entries ss base inputs ++ below) q k
    = visible (above ++ concat inputs ++ below) q k.
Proof. exact compact_preserves_visible. Qed.
Print Assumptions C07a_compact_preserves_visible.

(** the weakest form proved: no duplicate identities inside the inputs, identities determine
    entries over all sources, and the base-level guarantee only for the key that is read *)
Theorem C07a_compact_preserves_visible_weak :
  forall (ss : N) (base : bytes -> bool) (inputs : list (list entry))
         (above below : list entry) (q : N) (k : bytes),
    NoDup (map key_of (concat inputs)) ->
    (forall e e', In e (above ++ concat inputs ++ below) ->
                  In e' (above ++ concat inputs ++ below) -> key_of e = key_of e' -> e = e') ->
    newer_than above (concat inputs) = true ->
    (base k = true -> forall e, In e below -> ik_user (fst e) <> k) ->
    ss < MAX_SEQ ->
    ss <= q ->
    visible (above ++ compact_entries ss base inputs ++ below) q k
    = visible (above ++ concat inputs ++ below) q k.
Proof. exact compact_preserves_visible_gen. Qed.
Print Assumptions C07a_compact_preserves_visible_weak.

(** the statement with the full recency chain and the sequence bound of the LSM invariant *)
Theorem C07a_compact_preserves_visible_full :
  forall (ss : N) (base : bytes -> bool) (inputs : list (list entry))
         (above below : list entry) (q : N) (k : bytes),
    NoDup (map key_of (above ++ concat inputs ++ below)) ->
    newer_than above (concat inputs) = true ->
    newer_than (concat inputs) below = true ->
    newer_than above below = true ->
    (forall u, base u = true -> forall e, In e below -> ik_user (fst e) <> u) ->
    Forall (fun e => ik_seq (fst e) < MAX_SEQ) (concat inputs) ->
    ss < MAX_SEQ ->
    ss <= q ->
    visible (above ++ compact_entries ss base inputs ++ below) q k
    = visible (above ++ concat inputs ++ below) q k.
Proof. exact compact_preserves_visible_full. Qed.
Print Assumptions C07a_compact_preserves_visible_full.

(** all hypotheses as decidable checks (what the harness evaluates) *)
Theorem C07a_compact_preserves_visible_b :
  forall (ss : N) (base : bytes -> bool) (inputs : list (list entry))
         (above below : list entry) (q : N) (k : bytes),
    keys_nodupb (map key_of (above ++ concat inputs ++ below)) = true ->
    newer_than above (concat inputs) = true ->
    forallb (fun e => negb (base (ik_user (fst e)))) below = true ->
    (ss <? MAX_SEQ) = true ->
    (ss <=? q) = true ->
    visible (above ++ compact_entries ss base inputs ++ below) q k
    = visible (above ++ concat inputs ++ below) q k.
Proof. exact compact_preserves_visible_b. Qed.
Print Assumptions C07a_compact_preserves_visible_b.

(** * Sensitivity *)

(** [base] claims "nothing older below" although an older put of the key lies below: the dropped
    deletion marker uncovers it (a deleted key reappears); every other hypothesis holds *)
Theorem C07_drop_without_base_refuted :
  exists (ss : N) (inputs : list (list entry)) (above below : list entry) (q : N) (k : bytes),
    let base := fun _ : bytes => true in
    NoDup (map key_of (above ++ concat inputs ++ below)) /\
    newer_than above (concat inputs) = true /\
    newer_than (concat inputs) below = true /\
    newer_than above below = true /\
    Forall (fun e => ik_seq (fst e) < MAX_SEQ) (concat inputs) /\
    ss < MAX_SEQ /\ ss <= q /\
    visible (above ++ concat inputs ++ below) q k = None /\
    visible (above ++ compact_entries ss base inputs ++ below) q k = Some [118].
Proof. exact drop_without_base_refuted. Qed.
Print Assumptions C07_drop_without_base_refuted.

(** a reader below the smallest snapshot loses its version; every other hypothesis holds *)
Theorem C07_snapshot_bound_refuted :
  exists (ss : N) (base : bytes -> bool) (inputs : list (list entry)) (above below : list entry)
         (q : N) (k : bytes),
    NoDup (map key_of (above ++ concat inputs ++ below)) /\
    newer_than above (concat inputs) = true /\
    newer_than (concat inputs) below = true /\
    newer_than above below = true /\
    (forall u, base u = true -> forall e, In e below -> ik_user (fst e) <> u) /\
    Forall (fun e => ik_seq (fst e) < MAX_SEQ) (concat inputs) /\
    ss < MAX_SEQ /\ q < ss /\
    visible (above ++ concat inputs ++ below) q k = Some [111] /\
    visible (above ++ compact_entries ss base inputs ++ below) q k = None.
Proof. exact snapshot_bound_refuted. Qed.
Print Assumptions C07_snapshot_bound_refuted.

(** the sources above the inputs hold an OLDER put of the key: the dropped deletion marker uncovers
    it; every other hypothesis holds ([newer_than above inputs] is necessary) *)
Theorem C07_recency_refuted :
  exists (ss : N) (base : bytes -> bool) (inputs : list (list entry)) (above below : list entry)
         (q : N) (k : bytes),
    NoDup (map key_of (above ++ concat inputs ++ below)) /\
    newer_than (concat inputs) below = true /\
    newer_than above below = true /\
    (forall u, base u = true -> forall e, In e below -> ik_user (fst e) <> u) /\
    Forall (fun e => ik_seq (fst e) < MAX_SEQ) (concat inputs) /\
    ss < MAX_SEQ /\ ss <= q /\
    visible (above ++ concat inputs ++ below) q k = None /\
    visible (above ++ compact_entries ss base inputs ++ below) q k = Some [118].
Proof. exact recency_refuted. Qed.
Print Assumptions C07_recency_refuted.

(** with the sentinel [MAX_SEQ] as smallest snapshot every entry is dropped ([ss < MAX_SEQ] is
    necessary) *)
Theorem C07_sentinel_snapshot_refuted :
  exists (base : bytes -> bool) (inputs : list (list entry)) (q : N) (k : bytes),
    NoDup (map key_of (concat inputs)) /\
    Forall (fun e => ik_seq (fst e) < MAX_SEQ) (concat inputs) /\
    MAX_SEQ <= q /\
    visible ([] ++ concat inputs ++ []) q k = Some [118] /\
    visible ([] ++ compact_entries MAX_SEQ base inputs ++ []) q k = None.
Proof. exact sentinel_snapshot_refuted. Qed.
Print Assumptions C07_sentinel_snapshot_refuted.

(** * Non-vacuity: three input runs, three keys with several versions, deletion markers, one live
    snapshot (8) between versions, younger data above and older data below; every hypothesis of
    [C07a_compact_preserves_visible_full] holds, the merge really drops entries, and readers at
    every sequence from the snapshot on see the same values before and after *)
Example C07a_nonvacuous :
  let k1 : bytes := [107; 1] in
  let k2 : bytes := [107; 2] in
  let k3 : bytes := [107; 3] in
  let P (k : bytes) (s : N) : entry := (mkIKey k s OP_PUT, [s]) in
  let D (k : bytes) (s : N) : entry := (mkIKey k s OP_DELETE, []) in
  let above := [P k1 12; D k2 13] in
  let run1 := [P k1 9; P k2 10; P k3 11] in
  let run2 := [D k1 6; P k2 7; D k3 8] in
  let run3 := [P k1 3; D k2 4; P k3 5] in
  let below := [P k1 1; P k2 2] in
  let inputs := [run1; run2; run3] in
  let ss := 8 in
  let base := fun u => bytes_eqb u k3 in
  let view es := map (fun q => map (visible es q) [k1; k2; k3]) [8; 9; 10; 11; 12; 13] in
  NoDup (map key_of (above ++ concat inputs ++ below)) /\
  newer_than above (concat inputs) = true /\
  newer_than (concat inputs) below = true /\
  newer_than above below = true /\
  (forall u, base u = true -> forall e, In e below -> ik_user (fst e) <> u) /\
  Forall (fun e => ik_seq (fst e) < MAX_SEQ) (concat inputs) /\
  ss < MAX_SEQ /\
  compact_entries ss base inputs = [P k1 9; D k1 6; P k2 10; P k2 7; P k3 11] /\
  view (above ++ compact_entries ss base inputs ++ below) = view (above ++ concat inputs ++ below) /\
  view (above ++ concat inputs ++ below) =
    [[None; Some [7]; None];
     [Some [9]; Some [7]; None];
     [Some [9]; Some [10]; None];
     [Some [9]; Some [10]; Some [11]];
     [Some [12]; Some [10]; Some [11]];
     [Some [12]; None; Some [11]]] /\
  (* below the snapshot the merge is visible, as it may be *)
  visible (above ++ concat inputs ++ below) 5 k1 = Some [3] /\
  visible (above ++ compact_entries ss base inputs ++ below) 5 k1 = Some [1].
Proof.
  cbv zeta.
  split; [apply keys_nodupb_sound; vm_compute; reflexivity|].
  split; [vm_compute; reflexivity|].
  split; [vm_compute; reflexivity|].
  split; [vm_compute; reflexivity|].
  split; [apply base_ok_b; vm_compute; reflexivity|].
  split; [repeat constructor|].
  split; [reflexivity|].
  split; [vm_compute; reflexivity|].
  split; [vm_compute; reflexivity|].
  split; [vm_compute; reflexivity|].
  split; vm_compute; reflexivity.
Qed.

(** * Part b: compaction input selection is closed; installing the outputs keeps the version well formed *)
From RainVerif.proofs Require Import KeyProofs SelectProofs.
Open Scope N_scope.


(** 1. levels >= 1: exactly the files of the level not entirely before [lo] / after [hi] by
    user key, in level order *)
Theorem C07b_overlapping_inputs_spec : forall v l lo hi,
  l <> O ->
  (forall f, In f (overlapping_inputs v l lo hi) <->
             In f (level_files v l)
             /\ ~ (exists k, lo = Some k /\ ult (ik_user (fm_large f)) (ik_user k))
             /\ ~ (exists k, hi = Some k /\ ult (ik_user k) (ik_user (fm_small f))))
  /\ overlapping_inputs v l lo hi
     = filter (in_range (option_map ik_user lo) (option_map ik_user hi)) (level_files v l).
Proof. exact overlapping_inputs_spec. Qed.
Print Assumptions C07b_overlapping_inputs_spec.

(** 2. level 0: [oci_fuel] suffices; the answer is exactly the set of level-0 files meeting a
    widened range [lo' <= lo], [hi <= hi'] out of which no selected file sticks; it is closed *)
Theorem C07b_overlapping_inputs_l0_closed : forall v lo hi,
  let fs := level_files v O in
  let res := overlapping_inputs v O lo hi in
  (exists lo' hi',
     ole lo' (option_map ik_user lo) /\ oge hi' (option_map ik_user hi)
     /\ res = filter (in_range lo' hi') fs
     /\ (forall f, In f res -> inside lo' hi' f))
  /\ hull_closed fs res.
Proof. exact overlapping_inputs_l0_closed. Qed.
Print Assumptions C07b_overlapping_inputs_l0_closed.

(** 3. the repaired key range functions *)
Theorem C07b_key_range_covers_files : forall fs,
  fs <> [] ->
  exists a b, key_range_for_files true fs = Some (a, b) /\ is_krange fs a b
              /\ hull fs = Some (ik_user a, ik_user b).
Proof. exact key_range_covers_files. Qed.
Print Assumptions C07b_key_range_covers_files.

Theorem C07b_key_range_covers_two : forall fs gs,
  fs <> [] ->
  exists a b, key_range_for_two true fs gs = Some (a, b) /\ is_krange (fs ++ gs) a b
              /\ hull (fs ++ gs) = Some (ik_user a, ik_user b).
Proof. exact key_range_covers_two. Qed.
Print Assumptions C07b_key_range_covers_two.

Definition kk (u s : N) : ikey := mkIKey [u] s OP_PUT.
Definition fm (n u1 s1 u2 s2 : N) : fmeta := mkFM n 100 (kk u1 s1) (kk u2 s2).
Definition MFS : N := 1000000.

(** sensitivity: the pinned comparison ([d1fix = false]) does not compute the hull *)
Theorem C07_key_range_min_bug_refuted :
  exists fs, hull fs <> option_map (fun r => (ik_user (fst r), ik_user (snd r)))
                                   (key_range_for_files false fs).
Proof. exact key_range_min_bug_refuted. Qed.
Print Assumptions C07_key_range_min_bug_refuted.

(** 4. [finalize_compaction_inputs] of the current code ([d14fix = true]: boundary files are
    added to the re-selected parent files of the expansion path, as in LevelDB) selects closed
    inputs on both of its paths, including the boundary closure of the parent inputs *)
Theorem C07b_finalize_inputs_closed : forall mfs v level seed c,
  version_wf v = true ->
  (S level < length v)%nat ->
  seed <> [] ->
  (forall f, In f seed -> In f (level_files v level)) ->
  (level = O -> hull_closed (level_files v O) seed) ->
  finalize_inputs true true mfs v level seed = Some c ->
  inputs_closed v seed c = true.
Proof. exact finalize_inputs_closed. Qed.
Print Assumptions C07b_finalize_inputs_closed.

Theorem C07b_finalize_inputs_total : forall mfs v level seed,
  version_wf v = true ->
  seed <> [] ->
  (forall f, In f seed -> In f (level_files v level)) ->
  (level = O -> hull_closed (level_files v O) seed) ->
  exists c, finalize_inputs true true mfs v level seed = Some c /\ inputs_closed v seed c = true.
Proof. exact finalize_inputs_total. Qed.
Print Assumptions C07b_finalize_inputs_total.

(** for either value of [d14fix]: no panic, and everything but the boundary conjunct
    ([inputs_closed = inputs_closed_nb && parent_boundary_closed_b]) *)
Theorem C07b_finalize_inputs_no_panic : forall d14 mfs v level seed,
  seed <> [] -> finalize_inputs true d14 mfs v level seed <> None.
Proof. exact finalize_inputs_no_panic. Qed.
Print Assumptions C07b_finalize_inputs_no_panic.

Theorem C07b_inputs_closed_split : forall v seed c,
  inputs_closed v seed c = inputs_closed_nb v seed c && parent_boundary_closed_b v c.
Proof. exact inputs_closed_split. Qed.
Print Assumptions C07b_inputs_closed_split.

Theorem C07b_finalize_inputs_closed_partial : forall d14 mfs v level seed c,
  version_wf v = true ->
  seed <> [] ->
  (forall f, In f seed -> In f (level_files v level)) ->
  (level = O -> hull_closed (level_files v O) seed) ->
  finalize_inputs true d14 mfs v level seed = Some c ->
  inputs_closed_nb v seed c = true.
Proof. exact finalize_inputs_closed_nb. Qed.
Print Assumptions C07b_finalize_inputs_closed_partial.

(** sensitivity: the pinned expansion path ([d14fix = false]) violates the boundary conjunct *)
Theorem C07_expansion_boundary_refuted :
  exists v level seed c,
    version_wf v = true /\ seed <> [] /\ (forall f, In f seed -> In f (level_files v level))
    /\ level <> O
    /\ finalize_inputs true false 1000000 v level seed = Some c
    /\ inputs_closed_nb v seed c = true
    /\ inputs_closed v seed c = false.
Proof. exact expansion_boundary_refuted. Qed.
Print Assumptions C07_expansion_boundary_refuted.

(** the parent files that are not inputs lie entirely below or entirely above all inputs in
    internal-key order *)
Theorem C07b_finalize_inputs_separated : forall d14 mfs v level seed c,
  version_wf v = true ->
  finalize_inputs true d14 mfs v level seed = Some c ->
  separated v c
  /\ (forall f, In f (ci_in1 c) -> In f (level_files v (S (ci_level c)))).
Proof. exact finalize_inputs_separated. Qed.
Print Assumptions C07b_finalize_inputs_separated.

(** [add_boundary_inputs]: the fuel suffices; on the base path the parent inputs are closed
    under boundary files (this is what the tombstone drop rule relies on) *)
Theorem C07b_add_boundary_inputs_complete : forall lf M,
  (forall f, In f lf -> ordered f) -> M <> [] ->
  exists k, (forall f, In f (add_boundary_inputs lf M) -> ikey_le (fm_large f) k)
            /\ (exists m, In m (add_boundary_inputs lf M) /\ fm_large m = k)
            /\ forall b, In b lf -> ~ cand k b.
Proof. exact add_boundary_inputs_complete. Qed.
Print Assumptions C07b_add_boundary_inputs_complete.

Theorem C07b_parent_inputs_boundary_closed : forall v level (r0 : ikey * ikey),
  version_wf v = true ->
  boundary_closed (level_files v (S level))
    (add_boundary_inputs (level_files v (S level))
       (overlapping_inputs v (S level) (Some (fst r0)) (Some (snd r0)))).
Proof. exact parent_inputs_boundary_closed. Qed.
Print Assumptions C07b_parent_inputs_boundary_closed.

(** with the repair D14 of the expansion path ([d14fix = true]), on both paths *)
Theorem C07b_finalize_inputs_parent_boundary_closed : forall mfs v level seed c,
  version_wf v = true ->
  finalize_inputs true true mfs v level seed = Some c ->
  boundary_closed (level_files v (S (ci_level c))) (ci_in1 c).
Proof. exact finalize_inputs_parent_boundary_closed. Qed.
Print Assumptions C07b_finalize_inputs_parent_boundary_closed.

(** 5. installing the outputs of a compaction: the overlap assertion of [maybe_add_file] does
    not fire and the new version is well formed *)
Theorem C07b_apply_edit_compaction_wf_gen : forall v c outs,
  version_wf v = true ->
  (forall f, In f (ci_in1 c) -> In f (level_files v (S (ci_level c)))) ->
  separated v c ->
  outs_ok v c outs ->
  exists v', apply_edit v (compaction_edit c outs) = Some v' /\ version_wf v' = true.
Proof. exact apply_edit_compaction_wf_gen. Qed.
Print Assumptions C07b_apply_edit_compaction_wf_gen.

Theorem C07b_apply_edit_compaction_wf : forall d14 mfs v level seed c outs,
  version_wf v = true ->
  finalize_inputs true d14 mfs v level seed = Some c ->
  outs_ok v c outs ->
  exists v', apply_edit v (compaction_edit c outs) = Some v' /\ version_wf v' = true.
Proof. exact apply_edit_compaction_wf. Qed.
Print Assumptions C07b_apply_edit_compaction_wf.

(** 6. Non-vacuity: three overlapping level-0 files over a three-file level 1 in which files 4
    and 5 share the boundary user key 3 *)
Definition v6 : version :=
  [[fm 1 1 20 5 21; fm 2 4 22 8 23; fm 3 7 24 9 25];
   [fm 4 1 9 3 5; fm 5 3 4 6 2; fm 6 8 3 9 1]; []; []; []; []; []].
Definition seed6 := overlapping_inputs v6 0 (Some (kk 1 MAX_SEQ)) (Some (kk 2 0)).
Definition nums (c : cinputs) := (map fm_num (ci_in0 c), map fm_num (ci_in1 c)).

Example C07b_ex_l0_selection :
  version_wf v6 = true /\ map fm_num seed6 = [1; 2; 3]
  /\ option_map (fun c => (nums c, inputs_closed v6 seed6 c)) (finalize_inputs true true MFS v6 0 seed6)
     = Some (([1; 2; 3], [4; 5; 6]), true).
Proof. vm_compute. auto. Qed.

Example C07b_ex_l0_install :
  match finalize_inputs true true MFS v6 0 seed6 with
  | Some c => option_map (fun v' => (version_wf v', map (map fm_num) v'))
                         (apply_edit v6 (compaction_edit c [fm 7 1 20 4 1; fm 8 4 0 9 1]))
  | None => None
  end = Some (true, [[]; [7; 8]; []; []; []; []; []]).
Proof. vm_compute. reflexivity. Qed.

(** a level-1 seed: file 2 joins file 1 as a boundary file (user key 3), and parent file 6 joins
    parent file 5 as a boundary file (user key 7) *)
Definition v7 : version :=
  [[]; [fm 1 1 9 3 5; fm 2 3 4 6 2; fm 3 8 9 9 9];
   [fm 4 2 1 3 1; fm 5 6 1 7 1; fm 6 7 0 8 1; fm 9 9 1 9 0]; []; []; []; []].
Example C07b_ex_boundary_files :
  version_wf v7 = true
  /\ option_map (fun c => (nums c, inputs_closed v7 [fm 1 1 9 3 5] c))
                (finalize_inputs true true MFS v7 1 [fm 1 1 9 3 5])
     = Some (([1; 2], [4; 5; 6]), true).
Proof. vm_compute. auto. Qed.

(** ** why the hypotheses of 5 are what they are *)

(** outputs within the USER-key hull of the inputs are not enough: the remaining parent file 2
    ends at 21@9, the parent input 3 starts at 21@5, and an output starting at 21@10 overlaps
    file 2 although its user keys lie in the hull [21, 24] of the inputs *)
Definition v8 : version :=
  [[]; [fm 1 22 7 23 7]; [fm 2 16 9 21 9; fm 3 21 5 24 1]; []; []; []; []].
Example C07b_user_hull_of_outputs_insufficient :
  version_wf v8 = true /\
  match finalize_inputs true true MFS v8 1 [fm 1 22 7 23 7] with
  | Some c => (nums c, hull (ci_in0 c ++ ci_in1 c), hull [fm 4 21 10 24 1],
               apply_edit v8 (compaction_edit c [fm 4 21 10 24 1]))
  | None => (([], []), None, None, None)
  end = (([1], [3]), Some ([21], [24]), Some ([21], [24]), None).
Proof. vm_compute. auto. Qed.

(** [inputs_closed] alone is not enough: parent inputs with a gap (files 2 and 4 without file 3)
    are closed, yet their merged output overlaps file 3 *)
Definition v9 : version :=
  [[]; [fm 1 30 9 31 9]; [fm 2 1 9 2 9; fm 3 10 9 11 9; fm 4 30 5 32 5]; []; []; []; []].
Definition c9 := mkCI 1 [fm 1 30 9 31 9] [fm 2 1 9 2 9; fm 4 30 5 32 5] [] None.
Example C07b_closed_inputs_insufficient :
  version_wf v9 = true /\ inputs_closed v9 [fm 1 30 9 31 9] c9 = true
  /\ apply_edit v9 (compaction_edit c9 [fm 5 1 9 32 5]) = None.
Proof. vm_compute. auto. Qed.

(** ** FINDING D14: on the expanded path of the pinned code ([d14fix = false]) the parent
    inputs are NOT closed under boundary files ([manifest.rs] adds boundary files to
    [expanded0] a second time instead of to [expanded1]): parent file 4 (largest 20@5) is an
    input, its neighbour 5 (smallest 20@3, same user key) is not *)
Definition vx : version :=
  [[]; [fm 1 4 9 6 9; fm 2 10 9 12 9]; [fm 3 1 9 4 8; fm 4 5 9 20 5; fm 5 20 3 25 1];
   []; []; []; []].
Example C07b_expanded_parent_boundary_missing :
  version_wf vx = true /\
  option_map (fun c => (nums c, inputs_closed_nb vx [fm 2 10 9 12 9] c,
                        inputs_closed vx [fm 2 10 9 12 9] c))
             (finalize_inputs true false MFS vx 1 [fm 2 10 9 12 9])
  = Some (([1; 2], [3; 4]), true, false)
  /\ ~ boundary_closed (level_files vx 2) [fm 3 1 9 4 8; fm 4 5 9 20 5].
Proof.
  split; [vm_compute; reflexivity|]. split; [vm_compute; reflexivity|].
  intros H. apply (H (fm 4 5 9 20 5) (fm 5 20 3 25 1)).
  - right. left. reflexivity.
  - right. right. left. reflexivity.
  - intros [E|[E|[]]]; discriminate.
  - split; reflexivity.
Qed.

(** after the repair the expansion is refused here (three parent files instead of two) and the
    base selection {2} + {4, 5} is used *)
Example C07b_expanded_parent_boundary_repaired :
  option_map (fun c => (nums c, inputs_closed vx [fm 2 10 9 12 9] c))
             (finalize_inputs true true MFS vx 1 [fm 2 10 9 12 9]) = Some (([2], [4; 5]), true).
Proof. vm_compute. reflexivity. Qed.

(** ... with the consequence, in the LSM state machine (repaired key range, no panic, the
    state invariant [lsm_wf_b] holds before and after): a deleted key comes back. The last
    compaction takes the expanded path with inputs {8, 10} + {4, 5}; file 5 holds the
    tombstone 20@7 and 20@6, file 6 (left out) holds 20@5. *)
Definition steps_before : list step :=
  [ SWrite [WPut [1] [11]; WPut [4] [11]; WPut [5] [11]; WPut [25] [11]; WPut [20] [33]];
    SSnapshot;
    SWrite [WPut [20] [55]; WDel [20]];
    SRotate; SFlush;
    SCompact 2 [3] [1%nat; 2%nat];
    SRelease 5;
    SWrite [WPut [4] [12]; WPut [6] [12]]; SRotate; SFlush;
    SWrite [WPut [10] [12]; WPut [12] [12]]; SRotate; SFlush ].
Definition steps_after : list step := steps_before ++ [SCompact 2 [10] []].

Example C07b_expanded_path_resurrects_deleted_key :
  let s := lsm_run true false MFS steps_before in
  let s' := lsm_run true false MFS steps_after in
  lsm_wf_b s = true /\ lsm_wf_b s' = true /\ l_panic s' = false
  /\ map (map fm_num) (l_ver s) = [[]; []; [8; 10]; [4; 5; 6]; []; []; []]
  /\ map (map fm_num) (l_ver s') = [[]; []; []; [11; 6]; []; []; []]
  /\ db_get s [20] = None
  /\ db_get s' [20] = Some [33].
Proof. vm_compute. repeat split; reflexivity. Qed.

Example C07b_expanded_path_repaired_keeps_key_deleted :
  let s' := lsm_run true true MFS steps_after in
  lsm_wf_b s' = true /\ l_panic s' = false /\ db_get s' [20] = None.
Proof. vm_compute. repeat split; reflexivity. Qed.

(** * Part c: every internal step (rotation, flush, compaction, trivial move) leaves every view at or above the oldest snapshot unchanged *)
From RainVerif.proofs Require Import SelectProofs LsmProofs.
Open Scope N_scope.
Theorem C07_internal_step_invisible :
  forall mfs s st, lsm_wf_b s = true -> step_admissible s st -> internal st ->
    forall q k, smallest_snapshot s <= q ->
      visible (all_entries (lsm_step true true mfs s st)) q k = visible (all_entries s) q k.
Proof. exact internal_step_invisible. Qed.
Print Assumptions C07_internal_step_invisible.

Theorem C07_internal_step_invisible_all :
  forall mfs s st, lsm_wf_b s = true -> step_admissible s st -> internal_nomerge st ->
    forall q k, visible (all_entries (lsm_step true true mfs s st)) q k = visible (all_entries s) q k.
Proof. exact internal_step_invisible_all. Qed.
Print Assumptions C07_internal_step_invisible_all.

Theorem C07_db_get_unchanged :
  forall mfs s st, lsm_wf_b s = true -> step_admissible s st -> internal st ->
    forall q k, smallest_snapshot s <= q ->
      db_get_at (lsm_step true true mfs s st) k q = db_get_at s k q.
Proof. exact C07_db_get_unchanged. Qed.
Print Assumptions C07_db_get_unchanged.

(** * C03: a live snapshot keeps its view *)

