(** C07 (part a: the merge of a compaction is invisible to readers) — property theorems
    (statements + [exact] + [Print Assumptions] only), sensitivity witnesses and a non-vacuity
    example. [key_of e = (ik_user (fst e), ik_seq (fst e))] is the identity of an entry. *)
From RainVerif Require Import Params.
From RainVerif.model Require Import Bytes Key Block Table TableSpec Version Lsm LsmSpec.
From RainVerif.proofs Require Import KeyProofs CompactProofs.
Open Scope N_scope.
(** * Part a: the merge with the drop rule preserves every view at or above the oldest snapshot *)


Example C07a_key_of_def : forall e : entry, key_of e = (ik_user (fst e), ik_seq (fst e)).
Proof. reflexivity. Qed.

(** * The sort of the merge *)

Theorem C07a_sort_entries_perm : forall l, Permutation.Permutation (sort_entries l) l.
Proof. exact sort_entries_perm. Qed.
Print Assumptions C07a_sort_entries_perm.

Theorem C07a_sort_entries_sorted : forall l,
  NoDup (map key_of l) -> sorted_entries (sort_entries l) = true.
Proof. exact sort_entries_sorted. Qed.
Print Assumptions C07a_sort_entries_sorted.

(** * The output of the merge: strictly sorted, a subset of the inputs, and exactly the entries
    that are neither shadowed below the smallest snapshot nor obsolete deletion markers *)

Theorem C07a_compact_entries_sorted : forall ss base inputs,
  NoDup (map key_of (concat inputs)) ->
  sorted_entries (compact_entries ss base inputs) = true.
Proof. exact compact_entries_sorted. Qed.
Print Assumptions C07a_compact_entries_sorted.

Theorem C07a_compact_entries_incl : forall ss base inputs e,
  In e (compact_entries ss base inputs) -> In e (concat inputs).
Proof. exact compact_entries_incl. Qed.
Print Assumptions C07a_compact_entries_incl.

Theorem C07a_compact_entries_NoDup : forall ss base inputs,
  NoDup (map key_of (concat inputs)) ->
  NoDup (map key_of (compact_entries ss base inputs)).
Proof. exact compact_entries_NoDup. Qed.
Print Assumptions C07a_compact_entries_NoDup.

Theorem C07a_compact_entries_In : forall ss base inputs e,
  ss < MAX_SEQ ->
  NoDup (map key_of (concat inputs)) ->
  (In e (compact_entries ss base inputs) <->
   In e (concat inputs) /\
   ~ (exists p, In p (concat inputs) /\ ik_user (fst p) = ik_user (fst e) /\
                ik_seq (fst e) < ik_seq (fst p) /\ ik_seq (fst p) <= ss) /\
   (ik_op (fst e) =? OP_DELETE) && (ik_seq (fst e) <=? ss) && base (ik_user (fst e)) = false).
Proof. exact compact_entries_In. Qed.
Print Assumptions C07a_compact_entries_In.

(** * What a reader sees depends only on the set of entries *)

Theorem C07a_newest_le_iff : forall es k q e,
  NoDup (map key_of es) ->
  (newest_le es k q = Some e <->
   In e es /\ ik_user (fst e) = k /\ ik_seq (fst e) <= q /\
   forall e', In e' es -> ik_user (fst e') = k -> ik_seq (fst e') <= q ->
              ik_seq (fst e') <= ik_seq (fst e)).
Proof. exact newest_le_iff_nodup. Qed.
Print Assumptions C07a_newest_le_iff.

Theorem C07a_newest_le_none_iff : forall es k q,
  newest_le es k q = None <->
  (forall e', In e' es -> ik_user (fst e') = k -> ik_seq (fst e') <= q -> False).
Proof. exact newest_le_none_iff. Qed.
Print Assumptions C07a_newest_le_none_iff.

Theorem C07a_visible_perm : forall es es' q k,
  NoDup (map key_of es) -> Permutation.Permutation es es' -> visible es q k = visible es' q k.
Proof. exact visible_perm. Qed.
Print Assumptions C07a_visible_perm.

(** * Compaction is invisible to every reader at or above the smallest snapshot: deleted keys
    never reappear, overwritten values never resurface, no live key disappears *)

(** the hypotheses that are needed *)
Theorem C07a_compact_preserves_visible :
  forall (ss : N) (base : bytes -> bool) (inputs : list (list entry))
         (above below : list entry) (q : N) (k : bytes),
    NoDup (map key_of (above ++ concat inputs ++ below)) ->
    newer_than above (concat inputs) = true ->
    (forall u, base u = true -> forall e, In e below -> ik_user (fst e) <> u) ->
    ss < MAX_SEQ ->
    ss <= q ->
    visible (above ++ compact_entries ss base inputs ++ below) q k
    = visible (above ++ concat inputs ++ below) q k.
Proof. exact compact_preserves_visible. Qed.
Print Assumptions C07a_compact_preserves_visible.

(** the weakest form proved: no duplicate identities inside the inputs, identities determine
    entries over all sources, and the base-level guarantee only for the key that is read *)
Theorem C07a_compact_preserves_visible_weak :
  forall (ss : N) (base : bytes -> bool) (inputs : list (list entry))
         (above below : list entry) (q : N) (k : bytes),
    NoDup (map key_of (concat inputs)) ->
    (forall e e', In e (above ++ concat inputs ++ below) ->
                  In e' (above ++ concat inputs ++ below) -> key_of e = key_of e' -> e = e') ->
    newer_than above (concat inputs) = true ->
    (base k = true -> forall e, In e below -> ik_user (fst e) <> k) ->
    ss < MAX_SEQ ->
    ss <= q ->
    visible (above ++ compact_entries ss base inputs ++ below) q k
    = visible (above ++ concat inputs ++ below) q k.
Proof. exact compact_preserves_visible_gen. Qed.
Print Assumptions C07a_compact_preserves_visible_weak.

(** the statement with the full recency chain and the sequence bound of the LSM invariant *)
Theorem C07a_compact_preserves_visible_full :
  forall (ss : N) (base : bytes -> bool) (inputs : list (list entry))
         (above below : list entry) (q : N) (k : bytes),
    NoDup (map key_of (above ++ concat inputs ++ below)) ->
    newer_than above (concat inputs) = true ->
    newer_than (concat inputs) below = true ->
    newer_than above below = true ->
    (forall u, base u = true -> forall e, In e below -> ik_user (fst e) <> u) ->
    Forall (fun e => ik_seq (fst e) < MAX_SEQ) (concat inputs) ->
    ss < MAX_SEQ ->
    ss <= q ->
    visible (above ++ compact_entries ss base inputs ++ below) q k
    = visible (above ++ concat inputs ++ below) q k.
Proof. exact compact_preserves_visible_full. Qed.
Print Assumptions C07a_compact_preserves_visible_full.

(** all hypotheses as decidable checks (what the harness evaluates) *)
Theorem C07a_compact_preserves_visible_b :
  forall (ss : N) (base : bytes -> bool) (inputs : list (list entry))
         (above below : list entry) (q : N) (k : bytes),
    keys_nodupb (map key_of (above ++ concat inputs ++ below)) = true ->
    newer_than above (concat inputs) = true ->
    forallb (fun e => negb (base (ik_user (fst e)))) below = true ->
    (ss <? MAX_SEQ) = true ->
    (ss <=? q) = true ->
    visible (above ++ compact_entries ss base inputs ++ below) q k
    = visible (above ++ concat inputs ++ below) q k.
Proof. exact compact_preserves_visible_b. Qed.
Print Assumptions C07a_compact_preserves_visible_b.

(** * Sensitivity *)

(** [base] claims "nothing older below" although an older put of the key lies below: the dropped
    deletion marker uncovers it (a deleted key reappears); every other hypothesis holds *)
Theorem C07_drop_without_base_refuted :
  exists (ss : N) (inputs : list (list entry)) (above below : list entry) (q : N) (k : bytes),
    let base := fun _ : bytes => true in
    NoDup (map key_of (above ++ concat inputs ++ below)) /\
    newer_than above (concat inputs) = true /\
    newer_than (concat inputs) below = true /\
    newer_than above below = true /\
    Forall (fun e => ik_seq (fst e) < MAX_SEQ) (concat inputs) /\
    ss < MAX_SEQ /\ ss <= q /\
    visible (above ++ concat inputs ++ below) q k = None /\
    visible (above ++ compact_entries ss base inputs ++ below) q k = Some [118].
Proof. exact drop_without_base_refuted. Qed.
Print Assumptions C07_drop_without_base_refuted.

(** a reader below the smallest snapshot loses its version; every other hypothesis holds *)
Theorem C07_snapshot_bound_refuted :
  exists (ss : N) (base : bytes -> bool) (inputs : list (list entry)) (above below : list entry)
         (q : N) (k : bytes),
    NoDup (map key_of (above ++ concat inputs ++ below)) /\
    newer_than above (concat inputs) = true /\
    newer_than (concat inputs) below = true /\
    newer_than above below = true /\
    (forall u, base u = true -> forall e, In e below -> ik_user (fst e) <> u) /\
    Forall (fun e => ik_seq (fst e) < MAX_SEQ) (concat inputs) /\
    ss < MAX_SEQ /\ q < ss /\
    visible (above ++ concat inputs ++ below) q k = Some [111] /\
    visible (above ++ compact_entries ss base inputs ++ below) q k = None.
Proof. exact snapshot_bound_refuted. Qed.
Print Assumptions C07_snapshot_bound_refuted.

(** the sources above the inputs hold an OLDER put of the key: the dropped deletion marker uncovers
    it; every other hypothesis holds ([newer_than above inputs] is necessary) *)
Theorem C07_recency_refuted :
  exists (ss : N) (base : bytes -> bool) (inputs : list (list entry)) (above below : list entry)
         (q : N) (k : bytes),
    NoDup (map key_of (above ++ concat inputs ++ below)) /\
    newer_than (concat inputs) below = true /\
    newer_than above below = true /\
    (forall u, base u = true -> forall e, In e below -> ik_user (fst e) <> u) /\
    Forall (fun e => ik_seq (fst e) < MAX_SEQ) (concat inputs) /\
    ss < MAX_SEQ /\ ss <= q /\
    visible (above ++ concat inputs ++ below) q k = None /\
    visible (above ++ compact_entries ss base inputs ++ below) q k = Some [118].
Proof. exact recency_refuted. Qed.
Print Assumptions C07_recency_refuted.

(** with the sentinel [MAX_SEQ] as smallest snapshot every entry is dropped ([ss < MAX_SEQ] is
    necessary) *)
Theorem C07_sentinel_snapshot_refuted :
  exists (base : bytes -> bool) (inputs : list (list entry)) (q : N) (k : bytes),
    NoDup (map key_of (concat inputs)) /\
    Forall (fun e => ik_seq (fst e) < MAX_SEQ) (concat inputs) /\
    MAX_SEQ <= q /\
    visible ([] ++ concat inputs ++ []) q k = Some [118] /\
    visible ([] ++ compact_entries MAX_SEQ base inputs ++ []) q k = None.
Proof. exact sentinel_snapshot_refuted. Qed.
Print Assumptions C07_sentinel_snapshot_refuted.

(** * Non-vacuity: three input runs, three keys with several versions, deletion markers, one live
    snapshot (8) between versions, younger data above and older data below; every hypothesis of
    [C07a_compact_preserves_visible_full] holds, the merge really drops entries, and readers at
    every sequence from the snapshot on see the same values before and after *)
Example C07a_nonvacuous :
  let k1 : bytes := [107; 1] in
  let k2 : bytes := [107; 2] in
  let k3 : bytes := [107; 3] in
  let P (k : bytes) (s : N) : entry := (mkIKey k s OP_PUT, [s]) in
  let D (k : bytes) (s : N) : entry := (mkIKey k s OP_DELETE, []) in
  let above := [P k1 12; D k2 13] in
  let run1 := [P k1 9; P k2 10; P k3 11] in
  let run2 := [D k1 6; P k2 7; D k3 8] in
  let run3 := [P k1 3; D k2 4; P k3 5] in
  let below := [P k1 1; P k2 2] in
  let inputs := [run1; run2; run3] in
  let ss := 8 in
  let base := fun u => bytes_eqb u k3 in
  let view es := map (fun q => map (visible es q) [k1; k2; k3]) [8; 9; 10; 11; 12; 13] in
  NoDup (map key_of (above ++ concat inputs ++ below)) /\
  newer_than above (concat inputs) = true /\
  newer_than (concat inputs) below = true /\
  newer_than above below = true /\
  (forall u, base u = true -> forall e, In e below -> ik_user (fst e) <> u) /\
  Forall (fun e => ik_seq (fst e) < MAX_SEQ) (concat inputs) /\
  ss < MAX_SEQ /\
  compact_entries ss base inputs = [P k1 9; D k1 6; P k2 10; P k2 7; P k3 11] /\
  view (above ++ compact_entries ss base inputs ++ below) = view (above ++ concat inputs ++ below) /\
  view (above ++ concat inputs ++ below) =
    [[None; Some [7]; None];
     [Some [9]; Some [7]; None];
     [Some [9]; Some [10]; None];
     [Some [9]; Some [10]; Some [11]];
     [Some [12]; Some [10]; Some [11]];
     [Some [12]; None; Some [11]]] /\
  (* below the snapshot the merge is visible, as it may be *)
  visible (above ++ concat inputs ++ below) 5 k1 = Some [3] /\
  visible (above ++ compact_entries ss base inputs ++ below) 5 k1 = Some [1].
Proof.
  cbv zeta.
  split; [apply keys_nodupb_sound; vm_compute; reflexivity|].
  split; [vm_compute; reflexivity|].
  split; [vm_compute; reflexivity|].
  split; [vm_compute; reflexivity|].
  split; [apply base_ok_b; vm_compute; reflexivity|].
  split; [repeat constructor|].
  split; [reflexivity|].
  split; [vm_compute; reflexivity|].
  split; [vm_compute; reflexivity|].
  split; [vm_compute; reflexivity|].
  split; vm_compute; reflexivity.
Qed.
