(** C10 (the structural invariant holds in every reachable state, the worker never panics), with
    the LSM-level parts of C07 (internal steps are invisible) and C03 (a live snapshot keeps its
    view) — property theorems about the model [model/Lsm.v] with both repairs
    ([d1fix = true], [d14fix = true], the current code). Statements + [exact] +
    [Print Assumptions] only, plus [Example]s spelling out the definitions used in the
    statements, a non-vacuity run and the sensitivity witness for D1. *)
From RainVerif Require Import Params.
From RainVerif.model Require Import Bytes Key Block Table TableSpec Version Lsm LsmSpec DbSpec.
From RainVerif.proofs Require Import SelectProofs LsmProofs.
Open Scope N_scope.

(** * The definitions used below *)

(** a deeper-level seed may leave a boundary file (a file that continues, with older versions,
    the user key on which a seed file ends) outside only if that file is also a boundary file of
    the seed's largest file, from which [add_boundary_inputs] starts: true of a single file
    (pick_compaction) and of every contiguous run of files of the level (compact_range: the
    files overlapping a key range, possibly truncated to a prefix) *)
Example C10_seed_top_closed_def : forall lf seed,
  seed_top_closed lf seed =
  (forall h b, In h seed -> In b lf -> ~ In b seed ->
     ikey_lt (fm_large h) (fm_small b) -> ik_user (fm_small b) = ik_user (fm_large h) ->
     exists t, In t seed /\ (forall g, In g seed -> ikey_le (fm_large g) (fm_large t))
               /\ ikey_lt (fm_large t) (fm_small b) /\ ik_user (fm_small b) = ik_user (fm_large t)).
Proof. reflexivity. Qed.

(** a level-0 seed is closed under overlap (pick_compaction / compact_range compute the closure) *)
Example C10_hull_closed_def : forall fs sel,
  hull_closed fs sel =
  (forall lo hi f, hull sel = Some (lo, hi) -> In f fs -> file_meets lo hi f = true -> In f sel).
Proof. reflexivity. Qed.

Example C10_compact_adm_def : forall s level seed,
  compact_adm s level seed =
  ((S level < length (l_ver s))%nat /\
   files_of (l_ver s) level seed <> [] /\
   (level = O -> hull_closed (level_files (l_ver s) O) (files_of (l_ver s) level seed)) /\
   (level <> O -> seed_top_closed (level_files (l_ver s) level) (files_of (l_ver s) level seed))).
Proof. reflexivity. Qed.

Example C10_step_admissible_def : forall s st,
  step_admissible s st =
  match st with
  | SFlush => l_seq s <= MAX_SEQ
  | SCompact level seed _ => compact_adm s level seed /\ smallest_snapshot s < MAX_SEQ
  | STrivialMove level seed => compact_adm s level seed
  | _ => True
  end.
Proof. reflexivity. Qed.

Example C10_run_adm_def : forall mfs s st r,
  run_adm mfs s [] = True /\
  run_adm mfs s (st :: r) = (step_admissible s st /\ run_adm mfs (lsm_step true true mfs s st) r).
Proof. split; reflexivity. Qed.

Example C10_internal_def : forall st,
  internal st = match st with
                | SRotate | SFlush | SCompact _ _ _ | STrivialMove _ _ => True
                | _ => False
                end
  /\ internal_nomerge st = match st with
                           | SRotate | SFlush | STrivialMove _ _ => True
                           | _ => False
                           end.
Proof. split; reflexivity. Qed.

(** * C10: every admissible step keeps the invariant; the worker never panics *)

Theorem C10_step_preserves_wf :
  forall mfs s st, lsm_wf_b s = true -> step_admissible s st ->
                   lsm_wf_b (lsm_step true true mfs s st) = true.
Proof. exact step_preserves_wf. Qed.
Print Assumptions C10_step_preserves_wf.

Theorem C10_step_no_panic :
  forall mfs s st, lsm_wf_b s = true -> step_admissible s st ->
                   l_panic (lsm_step true true mfs s st) = false.
Proof. exact step_no_panic. Qed.
Print Assumptions C10_step_no_panic.

Theorem C10_run_wf :
  forall mfs steps s, lsm_wf_b s = true -> run_adm mfs s steps ->
                      lsm_wf_b (fold_left (lsm_step true true mfs) steps s) = true.
Proof. exact run_wf. Qed.
Print Assumptions C10_run_wf.

Theorem C10_reachable_wf :
  forall mfs steps, run_adm mfs lsm_init steps ->
                    lsm_wf_b (fold_left (lsm_step true true mfs) steps lsm_init) = true.
Proof. exact reachable_wf. Qed.
Print Assumptions C10_reachable_wf.

Theorem C10_reachable_shape_ok :
  forall mfs steps, run_adm mfs lsm_init steps ->
    let s := lsm_run true true mfs steps in
    shape_ok (l_ver s) (file_entries s) = true /\ l_panic s = false.
Proof. exact reachable_shape_ok. Qed.
Print Assumptions C10_reachable_shape_ok.

(** admissibility is decidable on concrete runs (sound check) *)
Theorem C10_run_adm_b_sound :
  forall mfs steps s, run_adm_b true true mfs s steps = true -> run_adm mfs s steps.
Proof. exact run_adm_b_sound. Qed.
Print Assumptions C10_run_adm_b_sound.

(** * C07: internal steps are invisible *)

Theorem C10_c07_internal_step_invisible :
  forall mfs s st, lsm_wf_b s = true -> step_admissible s st -> internal st ->
    forall q k, smallest_snapshot s <= q ->
      visible (all_entries (lsm_step true true mfs s st)) q k = visible (all_entries s) q k.
Proof. exact internal_step_invisible. Qed.
Print Assumptions C10_c07_internal_step_invisible.

Theorem C10_c07_internal_step_invisible_all :
  forall mfs s st, lsm_wf_b s = true -> step_admissible s st -> internal_nomerge st ->
    forall q k, visible (all_entries (lsm_step true true mfs s st)) q k = visible (all_entries s) q k.
Proof. exact internal_step_invisible_all. Qed.
Print Assumptions C10_c07_internal_step_invisible_all.

Theorem C10_c07_db_get_unchanged :
  forall mfs s st, lsm_wf_b s = true -> step_admissible s st -> internal st ->
    forall q k, smallest_snapshot s <= q ->
      db_get_at (lsm_step true true mfs s st) k q = db_get_at s k q.
Proof. exact C07_db_get_unchanged. Qed.
Print Assumptions C10_c07_db_get_unchanged.

(** * C03: a live snapshot keeps its view *)

Theorem C10_c03_snapshot_stable :
  forall mfs steps s q, lsm_wf_b s = true -> In q (l_snaps s) -> run_adm mfs s steps ->
    ~ In (SRelease q) steps ->
    let s' := fold_left (lsm_step true true mfs) steps s in
    forall k, visible (all_entries s') q k = visible (all_entries s) q k
              /\ db_get_at s' k q = db_get_at s k q.
Proof. exact snapshot_stable. Qed.
Print Assumptions C10_c03_snapshot_stable.


(** [l_snaps] is a multiset: [q] keeps its view as long as it is released fewer times than held *)
Example C10_c03_releases_def : forall q st r,
  releases q [] = O /\
  releases q (st :: r) = match st with
                         | SRelease q' => ((if N.eqb q' q then 1 else 0) + releases q r)%nat
                         | _ => releases q r
                         end.
Proof. intros q st r. split; [reflexivity|destruct st; reflexivity]. Qed.

Theorem C10_c03_snapshot_stable_multiset :
  forall mfs steps s q, lsm_wf_b s = true -> run_adm mfs s steps ->
    (releases q steps < count_occ N.eq_dec (l_snaps s) q)%nat ->
    let s' := fold_left (lsm_step true true mfs) steps s in
    forall k, visible (all_entries s') q k = visible (all_entries s) q k
              /\ db_get_at s' k q = db_get_at s k q.
Proof. exact snapshot_stable_multiset. Qed.
Print Assumptions C10_c03_snapshot_stable_multiset.

(** * Non-vacuity: a run reaching three levels, compacting twice under a live snapshot *)

Example C10_ex_run_admissible : run_adm ex_mfs lsm_init (ex_prefix ++ ex_suffix).
Proof. exact ex_run_admissible. Qed.

Example C10_ex_three_levels :
  map (@length fmeta) (l_ver ex_before_compactions) = [2; 1; 1; 0; 0; 0; 0]%nat
  /\ l_snaps ex_before_compactions = [5].
Proof. exact ex_three_levels. Qed.

Example C10_ex_end_shape :
  map (@length fmeta) (l_ver ex_end) = [0; 0; 2; 0; 0; 0; 0]%nat
  /\ lsm_wf_b ex_end = true /\ l_panic ex_end = false /\ l_snaps ex_end = [5].
Proof. exact ex_end_shape. Qed.

Example C10_ex_views :
  map (fun k => visible (all_entries ex_mid) 5 k) [xa; xb; xc; xd] = [Some [4]; None; Some [3]; None]
  /\ map (fun k => visible (all_entries ex_end) 5 k) [xa; xb; xc; xd] = [Some [4]; None; Some [3]; None]
  /\ map (fun k => db_get_at ex_end k 5) [xa; xb; xc; xd] = [Some [4]; None; Some [3]; None]
  /\ map (fun k => db_get ex_end k) [xa; xb; xc; xd] = [Some [8]; Some [6]; Some [7]; None].
Proof. exact ex_views. Qed.

Example C10_ex_theorem_applies :
  forall k, visible (all_entries ex_end) 5 k = visible (all_entries ex_mid) 5 k
            /\ db_get_at ex_end k 5 = db_get_at ex_mid k 5.
Proof. exact ex_theorem_applies. Qed.

(** * Sensitivity: with the pinned [key_range_for_files] (D1) an admissible level-0 compaction
    trips the overlap assertion; with the repair the same run keeps the invariant *)
Example C10_d1_witness :
  run_adm_b false true ex_mfs lsm_init d1_steps = true
  /\ l_panic (lsm_run false true ex_mfs d1_steps) = true
  /\ run_adm_b true true ex_mfs lsm_init d1_steps = true
  /\ lsm_wf_b (lsm_run true true ex_mfs d1_steps) = true.
Proof. exact d1_witness. Qed.

(** * Each clause of [step_admissible] is needed (well-formed states, one clause violated) *)
Example C10_clause_top_closed_needed :
  let st := SCompact 1 [1; 3] [] in
  let w' := lsm_step true true ex_mfs w_top st in
  lsm_wf_b w_top = true /\ step_admissible_b w_top st = false /\ l_panic w' = false
  /\ lsm_wf_b w' = false /\ db_get_at w_top xb 9 = Some [2] /\ db_get_at w' xb 9 = Some [3]
  /\ step_admissible_b w_top (SCompact 1 [1] []) = true.
Proof. exact clause_top_closed_needed. Qed.

Example C10_clause_hull_closed_needed :
  let st := SCompact 0 [2] [] in
  let w' := lsm_step true true ex_mfs w_hull st in
  lsm_wf_b w_hull = true /\ step_admissible_b w_hull st = false /\ l_panic w' = false
  /\ lsm_wf_b w' = false /\ db_get_at w_hull xb 9 = Some [2] /\ db_get_at w' xb 9 = Some [1].
Proof. exact clause_hull_closed_needed. Qed.

Example C10_clause_seq_bound_needed :
  let w' := lsm_step true true ex_mfs w_seq SFlush in
  lsm_wf_b w_seq = true /\ step_admissible_b w_seq SFlush = false /\ l_panic w' = false
  /\ lsm_wf_b w' = false
  /\ db_get_at w_seq xa 18446744073709551617 = Some [2]
  /\ db_get_at w' xa 18446744073709551617 = Some [1].
Proof. exact clause_seq_bound_needed. Qed.

Example C10_clause_snapshot_bound_needed :
  let st := SCompact 0 [1] [] in
  let w' := lsm_step true true ex_mfs w_ss st in
  lsm_wf_b w_ss = true /\ step_admissible_b w_ss st = false
  /\ visible (all_entries w_ss) MAX_SEQ xa = Some [1] /\ visible (all_entries w') MAX_SEQ xa = None.
Proof. exact clause_snapshot_bound_needed. Qed.

(** * What triggers compactions ([model/Pick.v]): size scores and seek statistics *)
From Coq Require Import ZArith.
From RainVerif Require Import Params.
From RainVerif.model Require Import Bytes Key Version Pick.
From RainVerif.proofs Require Import PickProofs.
Open Scope N_scope.

(** * The definitions used below *)

Example C10_pick_num_levels : N.to_nat MAX_NUM_LEVELS = 7%nat /\ L0_COMPACTION_TRIGGER = 4.
Proof. split; reflexivity. Qed.

(** a score is a fraction (numerator, denominator); [score_gtb a b]: [a] is strictly greater *)
Example C10_pick_score_gtb_def : forall a b,
  score_gtb a b = true <-> fst b * snd a < fst a * snd b.
Proof. exact score_gtb_true. Qed.

(** the file a sample on [k] charges: the youngest of at least two files that may hold [k] *)
Example C10_pick_charged_def : forall v k,
  charged v k = match files_with_key v k with
                | (f, level) :: _ :: _ => Some (f, level)
                | _ => None
                end.
Proof. reflexivity. Qed.

Example C10_pick_read_sample_charged : forall v st k,
  read_sample v st k = match charged v k with
                       | Some (f, level) => update_stats st f level
                       | None => (st, false)
                       end.
Proof. exact read_sample_eq. Qed.

(** the number of samples among [keys] that charge file number [n] *)
Example C10_pick_charges_def : forall v n keys,
  charges v n keys =
  length (filter (fun k => match charged v k with
                           | Some (f, _) => fm_num f =? n
                           | None => false
                           end) keys).
Proof. reflexivity. Qed.

(** * T1: the chosen level is the first level with the maximal score *)

Theorem C10_pick_best_level_maximal : forall v,
  (size_compaction_level v < N.to_nat MAX_NUM_LEVELS)%nat
  /\ (forall l, (l < N.to_nat MAX_NUM_LEVELS)%nat ->
        score_gtb (level_score v l) (level_score v (size_compaction_level v)) = false)
  /\ (forall l, (l < size_compaction_level v)%nat ->
        score_gtb (level_score v (size_compaction_level v)) (level_score v l) = true).
Proof. exact best_level_maximal. Qed.
Print Assumptions C10_pick_best_level_maximal.

(** * T2: a size compaction is required exactly when some level is at or over its budget *)

Theorem C10_pick_requires_size_iff : forall v,
  requires_size_compaction v = true <->
  exists l, (l < N.to_nat MAX_NUM_LEVELS)%nat
            /\ ((l = O /\ (4 <= length (level_files v 0))%nat)
                \/ ((1 <= l)%nat /\ max_bytes_for_level l <= sum_sizes (level_files v l))).
Proof. exact requires_size_iff. Qed.
Print Assumptions C10_pick_requires_size_iff.

Theorem C10_pick_max_bytes_pos : forall l, 0 < max_bytes_for_level l.
Proof. exact max_bytes_pos. Qed.
Print Assumptions C10_pick_max_bytes_pos.

(** * T3: the recorded level is the level the recorded file lives at *)

Theorem C10_pick_files_with_key_in : forall v k f level,
  In (f, level) (files_with_key v k) -> In f (level_files v level).
Proof. exact files_with_key_in. Qed.
Print Assumptions C10_pick_files_with_key_in.

(** the invariant over one sample, from any state *)
Theorem C10_pick_read_sample_charged_ok : forall v st k,
  (forall n l, ss_to_compact st = Some (n, l) ->
               exists f, In f (level_files v l) /\ fm_num f = n) ->
  (forall n l, ss_to_compact (fst (read_sample v st k)) = Some (n, l) ->
               exists f, In f (level_files v l) /\ fm_num f = n).
Proof. exact read_sample_charged_ok. Qed.
Print Assumptions C10_pick_read_sample_charged_ok.

Theorem C10_pick_charged_file_level_consistent : forall v keys b n l,
  In (b, Some (n, l)) (read_samples v (ss_init v) keys) ->
  exists f, In f (level_files v l) /\ fm_num f = n.
Proof. exact charged_file_level_consistent. Qed.
Print Assumptions C10_pick_charged_file_level_consistent.

(** * T4: the first trigger sticks; [true] is answered only at the moment it is set *)

Theorem C10_pick_first_trigger_sticks_step : forall v st k x,
  ss_to_compact st = Some x ->
  ss_to_compact (fst (read_sample v st k)) = Some x /\ snd (read_sample v st k) = false.
Proof. exact first_trigger_sticks_step. Qed.
Print Assumptions C10_pick_first_trigger_sticks_step.

Theorem C10_pick_first_trigger_sticks : forall v keys st x,
  ss_to_compact st = Some x ->
  Forall (fun a => a = (false, Some x)) (read_samples v st keys).
Proof. exact first_trigger_sticks. Qed.
Print Assumptions C10_pick_first_trigger_sticks.

Theorem C10_pick_answer_true_sets : forall v st k,
  snd (read_sample v st k) = true ->
  ss_to_compact st = None
  /\ exists f level, charged v k = Some (f, level)
                     /\ ss_to_compact (fst (read_sample v st k)) = Some (fm_num f, level).
Proof. exact answer_true_sets. Qed.
Print Assumptions C10_pick_answer_true_sets.

Theorem C10_pick_answer_false_keeps : forall v st k,
  snd (read_sample v st k) = false ->
  ss_to_compact (fst (read_sample v st k)) = ss_to_compact st.
Proof. exact answer_false_keeps. Qed.
Print Assumptions C10_pick_answer_false_keeps.

Theorem C10_pick_at_most_one_trigger : forall v keys st,
  (length (filter fst (read_samples v st keys)) <= 1)%nat.
Proof. exact at_most_one_trigger. Qed.
Print Assumptions C10_pick_at_most_one_trigger.

(** * T5: a key fewer than two files may hold charges nothing *)

Theorem C10_pick_needs_two_files : forall v st k,
  (length (files_with_key v k) < 2)%nat -> read_sample v st k = (st, false).
Proof. exact needs_two_files. Qed.
Print Assumptions C10_pick_needs_two_files.

(** * T6: a file is never scheduled by fewer than 100 charges *)

Theorem C10_pick_initial_allowed_seeks_ge : forall size, 100 <= initial_allowed_seeks size.
Proof. exact initial_allowed_seeks_ge. Qed.
Print Assumptions C10_pick_initial_allowed_seeks_ge.

(** the sample that records file [n] is at least the 100th sample charging that very file *)
Theorem C10_pick_trigger_needs_100_charges : forall v keys i n l,
  nth_error (read_samples v (ss_init v) keys) i = Some (true, Some (n, l)) ->
  (100 <= charges v n (firstn (S i) keys))%nat.
Proof. exact trigger_needs_100_charges. Qed.
Print Assumptions C10_pick_trigger_needs_100_charges.

Theorem C10_pick_no_trigger_before_100 : forall v keys,
  (length keys < 100)%nat ->
  Forall (fun a => a = (false, None)) (read_samples v (ss_init v) keys).
Proof. exact no_trigger_before_100. Qed.
Print Assumptions C10_pick_no_trigger_before_100.

(** the same with the uniqueness of file numbers of [version_wf] as a hypothesis (not needed) *)
Theorem C10_pick_no_trigger_before_100_wf : forall v keys,
  NoDup (map fm_num (concat v)) ->
  (length keys < 100)%nat ->
  Forall (fun a => fst a = false) (read_samples v (ss_init v) keys).
Proof. exact no_trigger_before_100_wf. Qed.
Print Assumptions C10_pick_no_trigger_before_100_wf.

(** * T7: runs of the model *)

(** a key in a level-1 file (number 5) and a level-2 file (number 3) *)
Example C10_pick_ex_version :
  pk_v = [[]; [mkFM 5 1000 (mkIKey [97] 9 OP_PUT) (mkIKey [99] 8 OP_PUT)];
          [mkFM 3 2000 (mkIKey [97] 3 OP_PUT) (mkIKey [99] 2 OP_PUT)]; []; []; []; []]
  /\ pk_key = mkIKey [98] 20 OP_PUT.
Proof. split; reflexivity. Qed.

Example C10_pick_ex_files_with_key :
  files_with_key pk_v pk_key = [(pk_young, 1%nat); (pk_old, 2%nat)].
Proof. exact pk_files_with_key. Qed.

Example C10_pick_ex_99_samples_no_trigger :
  read_samples pk_v (ss_init pk_v) (repeat pk_key 99) = repeat (false, None) 99.
Proof. exact pk_99_samples_no_trigger. Qed.

Example C10_pick_ex_100th_sample_triggers :
  skipn 99 (read_samples pk_v (ss_init pk_v) (repeat pk_key 101))
  = [(true, Some (5, 1%nat)); (false, Some (5, 1%nat))].
Proof. exact pk_100th_sample_triggers. Qed.

Example C10_pick_ex_single_file_never_triggers :
  files_with_key pk_v1 pk_key = [(pk_young, 1%nat)]
  /\ read_samples pk_v1 (ss_init pk_v1) (repeat pk_key 300) = repeat (false, None) 300.
Proof. exact pk_single_file_never_triggers. Qed.

Example C10_pick_ex_allowed_seeks :
  initial_allowed_seeks 1000 = 100 /\ initial_allowed_seeks 16384000 = 1000.
Proof. exact pk_allowed_seeks. Qed.

(** four level-0 files: level 0, required; three: not required *)
Example C10_pick_ex_l0_trigger :
  map (@length fmeta) pk_v_l0 = [4; 0; 0; 0; 0; 0; 0]%nat
  /\ level_score pk_v_l0 0 = (1, 1) /\ size_compaction_level pk_v_l0 = O
  /\ requires_size_compaction pk_v_l0 = true.
Proof. split; [reflexivity|exact pk_l0_trigger]. Qed.

Example C10_pick_ex_l0_three_files_no_trigger :
  level_score pk_v_l0_3 0 = (0, 1) /\ requires_size_compaction pk_v_l0_3 = false.
Proof. exact pk_l0_three_files_no_trigger. Qed.

(** level 1 at 9 MiB of 10, level 2 at 105 MiB of 100: level 2 wins *)
Example C10_pick_ex_l2_wins :
  level_score pk_v_l2 1 = (9437184, 10485760)
  /\ level_score pk_v_l2 2 = (110100480, 104857600)
  /\ score_gtb (level_score pk_v_l2 2) (level_score pk_v_l2 1) = true
  /\ size_compaction_level pk_v_l2 = 2%nat
  /\ requires_size_compaction pk_v_l2 = true.
Proof. exact pk_l2_wins. Qed.

(** the level-0 score is an integer quotient (as in the code): seven level-0 files score 1 *)
Example C10_pick_ex_l0_integer_quotient :
  level_score pk_v_l0_7 0 = (1, 1) /\ size_compaction_level pk_v_l0_7 = 1%nat.
Proof. exact pk_l0_integer_quotient. Qed.

(** equal scores: the first level stays *)
Example C10_pick_ex_tie_first_level :
  score_gtb (level_score pk_v_tie 2) (level_score pk_v_tie 1) = false
  /\ size_compaction_level pk_v_tie = 1%nat.
Proof. exact pk_tie_first_level. Qed.
