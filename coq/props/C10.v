(** C10 (the structural invariant holds in every reachable state, the worker never panics), with
    the LSM-level parts of C07 (internal steps are invisible) and C03 (a live snapshot keeps its
    view) — property theorems about the model [model/Lsm.v] with both repairs
    ([d1fix = true], [d14fix = true], the current code). Statements + [exact] +
    [Print Assumptions] only, plus [Example]s spelling out the definitions used in the
    statements, a non-vacuity run and the sensitivity witness for D1. *)
From RainVerif Require Import Params.
From RainVerif.model Require Import Bytes Key Block Table TableSpec Version Lsm LsmSpec DbSpec.
From RainVerif.proofs Require Import SelectProofs LsmProofs.
Open Scope N_scope.

(** * The definitions used below *)

(** a deeper-level seed may leave a boundary file (a file that continues, with older versions,
    the user key on which a seed file ends) outside only if that file is also a boundary file of
    the seed's largest file, from which [add_boundary_inputs] starts: true of a single file
    (pick_compaction) and of every contiguous run of files of the level (compact_range: the
    files overlapping a key range, possibly truncated to a prefix) *)
Example C10_seed_top_closed_def : forall lf seed,
  seed_top_closed lf seed =
  (forall h b, In h seed -> In b lf -> ~ In b seed ->
     ikey_lt (fm_large h) (fm_small b) -> ik_user (fm_small b) = ik_user (fm_large h) ->
     exists t, In t seed /\ (forall g, In g seed -> ikey_le (fm_large g) (fm_large t))
               /\ ikey_lt (fm_large t) (fm_small b) /\ ik_user (fm_small b) = ik_user (fm_large t)).
Proof. reflexivity. Qed.

(** a level-0 seed is closed under overlap (pick_compaction / compact_range compute the closure) *)
Example C10_hull_closed_def : forall fs sel,
  hull_closed fs sel =
  (forall lo hi f, hull sel = Some (lo, hi) -> In f fs -> file_meets lo hi f = true -> In f sel).
Proof. reflexivity. Qed.

Example C10_compact_adm_def : forall s level seed,
  compact_adm s level seed =
  ((S level < length (l_ver s))%nat /\
   files_of (l_ver s) level seed <> [] /\
   (level = O -> hull_closed (level_files (l_ver s) O) (files_of (l_ver s) level seed)) /\
   (level <> O -> seed_top_closed (level_files (l_ver s) level) (files_of (l_ver s) level seed))).
Proof. reflexivity. Qed.

Example C10_step_admissible_def : forall s st,
  step_admissible s st =
  match st with
  | SFlush => l_seq s <= MAX_SEQ
  | SCompact level seed _ => compact_adm s level seed /\ smallest_snapshot s < MAX_SEQ
  | STrivialMove level seed => compact_adm s level seed
  | _ => True
  end.
Proof. reflexivity. Qed.

Example C10_run_adm_def : forall mfs s st r,
  run_adm mfs s [] = True /\
  run_adm mfs s (st :: r) = (step_admissible s st /\ run_adm mfs (lsm_step true true mfs s st) r).
Proof. split; reflexivity. Qed.

Example C10_internal_def : forall st,
  internal st = match st with
                | SRotate | SFlush | SCompact _ _ _ | STrivialMove _ _ => True
                | _ => False
                end
  /\ internal_nomerge st = match st with
                           | SRotate | SFlush | STrivialMove _ _ => True
                           | _ => False
                           end.
Proof. split; reflexivity. Qed.

(** * C10: every admissible step keeps the invariant; the worker never panics *)

Theorem C10_step_preserves_wf :
  forall mfs s st, lsm_wf_b s = true -> step_admissible s st ->
                   lsm_wf_b (lsm_step true true mfs s st) = true.
Proof. exact step_preserves_wf. Qed.
Print Assumptions C10_step_preserves_wf.

Theorem C10_step_no_panic :
  forall mfs s st, lsm_wf_b s = true -> step_admissible s st ->
                   l_panic (lsm_step true true mfs s st) = false.
Proof. exact step_no_panic. Qed.
Print Assumptions C10_step_no_panic.

Theorem C10_run_wf :
  forall mfs steps s, lsm_wf_b s = true -> run_adm mfs s steps ->
                      lsm_wf_b (fold_left (lsm_step true true mfs) steps s) = true.
Proof. exact run_wf. Qed.
Print Assumptions C10_run_wf.

Theorem C10_reachable_wf :
  forall mfs steps, run_adm mfs lsm_init steps ->
                    lsm_wf_b (fold_left (lsm_step true true mfs) steps lsm_init) = true.
Proof. exact reachable_wf. Qed.
Print Assumptions C10_reachable_wf.

Theorem C10_reachable_shape_ok :
  forall mfs steps, run_adm mfs lsm_init steps ->
    let s := lsm_run true true mfs steps in
    shape_ok (l_ver s) (file_entries s) = true /\ l_panic s = false.
Proof. exact reachable_shape_ok. Qed.
Print Assumptions C10_reachable_shape_ok.

(** admissibility is decidable on concrete runs (sound check) *)
Theorem C10_run_adm_b_sound :
  forall mfs steps s, run_adm_b true true mfs s steps = true -> run_adm mfs s steps.
Proof. exact run_adm_b_sound. Qed.
Print Assumptions C10_run_adm_b_sound.

(** * C07: internal steps are invisible *)

Theorem C10_c07_internal_step_invisible :
  forall mfs s st, lsm_wf_b s = true -> step_admissible s st -> internal st ->
    forall q k, smallest_snapshot s <= q ->
      visible (all_entries (lsm_step true true mfs s st)) q k = visible (all_entries s) q k.
Proof. exact internal_step_invisible. Qed.
Print Assumptions C10_c07_internal_step_invisible.

Theorem C10_c07_internal_step_invisible_all :
  forall mfs s st, lsm_wf_b s = true -> step_admissible s st -> internal_nomerge st ->
    forall q k, visible (all_entries (lsm_step true true mfs s st)) q k = visible (all_entries s) q k.
Proof. exact internal_step_invisible_all. Qed.
Print Assumptions C10_c07_internal_step_invisible_all.

Theorem C10_c07_db_get_unchanged :
  forall mfs s st, lsm_wf_b s = true -> step_admissible s st -> internal st ->
    forall q k, smallest_snapshot s <= q ->
      db_get_at (lsm_step true true mfs s st) k q = db_get_at s k q.
Proof. exact C07_db_get_unchanged. Qed.
Print Assumptions C10_c07_db_get_unchanged.

(** * C03: a live snapshot keeps its view *)

Theorem C10_c03_snapshot_stable :
  forall mfs steps s q, lsm_wf_b s = true -> In q (l_snaps s) -> run_adm mfs s steps ->
    ~ In (SRelease q) steps ->
    let s' := fold_left (lsm_step true true mfs) steps s in
    forall k, visible (all_entries s') q k = visible (all_entries s) q k
              /\ db_get_at s' k q = db_get_at s k q.
Proof. exact snapshot_stable. Qed.
Print Assumptions C10_c03_snapshot_stable.


(** [l_snaps] is a multiset: [q] keeps its view as long as it is released fewer times than held *)
Example C10_c03_releases_def : forall q st r,
  releases q [] = O /\
  releases q (st :: r) = match st with
                         | SRelease q' => ((if N.eqb q' q then 1 else 0) + releases q r)%nat
                         | _ => releases q r
                         end.
Proof. intros q st r. split; [reflexivity|destruct st; reflexivity]. Qed.

Theorem C10_c03_snapshot_stable_multiset :
  forall mfs steps s q, lsm_wf_b s = true -> run_adm mfs s steps ->
    (releases q steps < count_occ N.eq_dec (l_snaps s) q)%nat ->
    let s' := fold_left (lsm_step true true mfs) steps s in
    forall k, visible (all_entries s') q k = visible (all_entries s) q k
              /\ db_get_at s' k q = db_get_at s k q.
Proof. exact snapshot_stable_multiset. Qed.
Print Assumptions C10_c03_snapshot_stable_multiset.

(** * Non-vacuity: a run reaching three levels, compacting twice under a live snapshot *)

Example C10_ex_run_admissible : run_adm ex_mfs lsm_init (ex_prefix ++ ex_suffix).
Proof. exact ex_run_admissible. Qed.

Example C10_ex_three_levels :
  map (@length fmeta) (l_ver ex_before_compactions) = [2; 1; 1; 0; 0; 0; 0]%nat
  /\ l_snaps ex_before_compactions = [5].
Proof. exact ex_three_levels. Qed.

Example C10_ex_end_shape :
  map (@length fmeta) (l_ver ex_end) = [0; 0; 2; 0; 0; 0; 0]%nat
  /\ lsm_wf_b ex_end = true /\ l_panic ex_end = false /\ l_snaps ex_end = [5].
Proof. exact ex_end_shape. Qed.

Example C10_ex_views :
  map (fun k => visible (all_entries ex_mid) 5 k) [xa; xb; xc; xd] = [Some [4]; None; Some [3]; None]
  /\ map (fun k => visible (all_entries ex_end) 5 k) [xa; xb; xc; xd] = [Some [4]; None; Some [3]; None]
  /\ map (fun k => db_get_at ex_end k 5) [xa; xb; xc; xd] = [Some [4]; None; Some [3]; None]
  /\ map (fun k => db_get ex_end k) [xa; xb; xc; xd] = [Some [8]; Some [6]; Some [7]; None].
Proof. exact ex_views. Qed.

Example C10_ex_theorem_applies :
  forall k, visible (all_entries ex_end) 5 k = visible (all_entries ex_mid) 5 k
            /\ db_get_at ex_end k 5 = db_get_at ex_mid k 5.
Proof. exact ex_theorem_applies. Qed.

(** * Sensitivity: with the pinned [key_range_for_files] (D1) an admissible level-0 compaction
    trips the overlap assertion; with the repair the same run keeps the invariant *)
Example C10_d1_witness :
  run_adm_b false true ex_mfs lsm_init d1_steps = true
  /\ l_panic (lsm_run false true ex_mfs d1_steps) = true
  /\ run_adm_b true true ex_mfs lsm_init d1_steps = true
  /\ lsm_wf_b (lsm_run true true ex_mfs d1_steps) = true.
Proof. exact d1_witness. Qed.

(** * Each clause of [step_admissible] is needed (well-formed states, one clause violated) *)
Example C10_clause_top_closed_needed :
  let st := SCompact 1 [1; 3] [] in
  let w' := lsm_step true true ex_mfs w_top st in
  lsm_wf_b w_top = true /\ step_admissible_b w_top st = false /\ l_panic w' = false
  /\ lsm_wf_b w' = false /\ db_get_at w_top xb 9 = Some [2] /\ db_get_at w' xb 9 = Some [3]
  /\ step_admissible_b w_top (SCompact 1 [1] []) = true.
Proof. exact clause_top_closed_needed. Qed.

Example C10_clause_hull_closed_needed :
  let st := SCompact 0 [2] [] in
  let w' := lsm_step true true ex_mfs w_hull st in
  lsm_wf_b w_hull = true /\ step_admissible_b w_hull st = false /\ l_panic w' = false
  /\ lsm_wf_b w' = false /\ db_get_at w_hull xb 9 = Some [2] /\ db_get_at w' xb 9 = Some [1].
Proof. exact clause_hull_closed_needed. Qed.

Example C10_clause_seq_bound_needed :
  let w' := lsm_step true true ex_mfs w_seq SFlush in
  lsm_wf_b w_seq = true /\ step_admissible_b w_seq SFlush = false /\ l_panic w' = false
  /\ lsm_wf_b w' = false
  /\ db_get_at w_seq xa 18446744073709551617 = Some [2]
  /\ db_get_at w' xa 18446744073709551617 = Some [1].
Proof. exact clause_seq_bound_needed. Qed.

Example C10_clause_snapshot_bound_needed :
  let st := SCompact 0 [1] [] in
  let w' := lsm_step true true ex_mfs w_ss st in
  lsm_wf_b w_ss = true /\ step_admissible_b w_ss st = false
  /\ visible (all_entries w_ss) MAX_SEQ xa = Some [1] /\ visible (all_entries w') MAX_SEQ xa = None.
Proof. exact clause_snapshot_bound_needed. Qed.
