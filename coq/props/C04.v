(** C04 — the iterators: property theorems (statements + [exact] + [Print Assumptions] only).

    - [C04_merging_refines]: the merging iterator ([MergingIterator]) over sorted children whose
      (user key, sequence) pairs are globally distinct is a sorted-list cursor over the merged
      entries, for every script that respects the iterator's contract (no [next] / [prev] on an
      invalid iterator) and for arbitrary initial positions of the children;
    - [C04_dbiter_refines]: the database iterator ([DatabaseIterator]) over such a merging
      iterator is a sorted-map cursor over the pairs visible at its sequence number, for every
      script (never a panic, never out of fuel);
    - [C04_db_iterator]: the same for the iterator handed out by any well-formed LSM state. *)
From RainVerif Require Import Params.
From RainVerif.model Require Import Bytes Key Block Table TableSpec Version Lsm LsmSpec DbSpec Cursor.
From RainVerif.proofs Require Import CursorProofs.
From RainVerif.proofs Require GetProofs.
Open Scope N_scope.

(** the two hypotheses, spelled out *)
Example C04_keys_unique_def : forall ls,
  keys_unique ls = NoDup (map (fun e => (ik_user (fst e), ik_seq (fst e))) (concat ls)).
Proof. reflexivity. Qed.

Example C04_admissible_def : forall M p o r,
  admissible M r = admissible_from M None r /\
  admissible_from M p [] = True /\
  admissible_from M p (o :: r) =
    (match o with CNext | CPrev => p <> None | _ => True end
     /\ admissible_from M (lc_step M p o) r).
Proof. intros. repeat split. Qed.

Theorem C04_merging_refines :
  forall (ls : list (list entry)) (poss : list (option nat)) ops,
    length poss = length ls ->
    Forall (fun l => sorted_entries l = true) ls ->
    keys_unique ls ->
    admissible (sort_entries (concat ls)) ops ->
    m_run (m_new (combine ls poss)) ops = (lc_run (sort_entries (concat ls)) None ops, true).
Proof. exact merging_refines_proof. Qed.
Print Assumptions C04_merging_refines.

Theorem C04_dbiter_refines :
  forall (ls : list (list entry)) (poss : list (option nat)) (q : N) (ops : list iop),
    length poss = length ls ->
    Forall (fun l => sorted_entries l = true) ls ->
    keys_unique ls ->
    d_run (d_new (combine ls poss) q) ops
    = (fst (cursor_run (contents (concat ls) q) None ops), true).
Proof. exact dbiter_refines_proof. Qed.
Print Assumptions C04_dbiter_refines.

(** the same against any sorted association list whose lookups are [visible] *)
Theorem C04_dbiter_refines_gen :
  forall (cs : list child) (q : N) (V : list kv) (ops : list iop),
    Forall (fun l => sorted_entries l = true) (map fst cs) ->
    keys_unique (map fst cs) ->
    GetProofs.map_sorted V ->
    (forall k, map_get k V = visible (concat (map fst cs)) q k) ->
    d_run (d_new cs q) ops = (fst (cursor_run V None ops), true).
Proof. exact dbiter_refines_gen. Qed.
Print Assumptions C04_dbiter_refines_gen.

Theorem C04_db_iterator :
  forall (s : lsm) (q : N) (ops : list iop),
    lsm_wf_b s = true ->
    d_run (d_new (iter_children s) q) ops
    = (fst (cursor_run (contents (all_entries s) q) None ops), true).
Proof. exact db_iterator_proof. Qed.
Print Assumptions C04_db_iterator.

(** * Non-vacuity *)

(** three children with several versions per key, runs of tombstones and entries newer than the
    snapshot; a script of 30 operations with many direction reversals *)
Example C04_example_hyps :
  length ex_poss = length ex_children
  /\ Forall (fun l => sorted_entries l = true) ex_children
  /\ keys_unique ex_children
  /\ length ex_script = 30%nat /\ length ex_mscript = 30%nat
  /\ admissible (sort_entries (concat ex_children)) ex_mscript.
Proof.
  split; [reflexivity|]. split; [repeat constructor|].
  split; [apply CompactProofs.keys_nodupb_sound; vm_compute; reflexivity|].
  split; [reflexivity|]. split; [reflexivity|].
  vm_compute. repeat split; discriminate.
Qed.

Example C04_example_contents :
  contents (concat ex_children) 25 = [([97], [1]); ([98], [2]); ([101], [4]); ([102], [9])]
  /\ contents (concat ex_children) 10 = [([97], [6]); ([98], [7]); ([99], [8])].
Proof. vm_compute. split; reflexivity. Qed.

Example C04_example_dbiter_25 :
  d_run (d_new (combine ex_children ex_poss) 25) ex_script
  = (fst (cursor_run (contents (concat ex_children) 25) None ex_script), true)
  /\ fst (d_run (d_new (combine ex_children ex_poss) 25) ex_script)
     = [OAt ([97], [1]); OAt ([98], [2]); OAt ([101], [4]); OAt ([98], [2]); OAt ([97], [1]);
        OAt ([98], [2]); OAt ([102], [9]); OAt ([101], [4]); OAt ([102], [9]); OInvalid;
        OAt ([101], [4]); OAt ([98], [2]); OAt ([101], [4]); OAt ([98], [2]); OAt ([101], [4]);
        OAt ([98], [2]); OAt ([97], [1]); OInvalid; OAt ([97], [1]); OInvalid;
        OAt ([102], [9]); OInvalid; OInvalid; OAt ([102], [9]); OAt ([101], [4]);
        OAt ([98], [2]); OAt ([101], [4]); OAt ([98], [2]); OAt ([101], [4]); OAt ([102], [9])].
Proof. vm_compute. split; reflexivity. Qed.

Example C04_example_dbiter_10 :
  d_run (d_new (combine ex_children ex_poss) 10) ex_script
  = (fst (cursor_run (contents (concat ex_children) 10) None ex_script), true).
Proof. vm_compute. reflexivity. Qed.

Example C04_example_merging :
  m_run (m_new (combine ex_children ex_poss)) ex_mscript
  = (lc_run (sort_entries (concat ex_children)) None ex_mscript, true).
Proof. vm_compute. reflexivity. Qed.

(** the iterator of a three-level LSM state (memtable, immutable memtable, two level-0 files,
    two deeper levels) *)
Example C04_example_state :
  lsm_wf_b GetProofs.ex_state = true
  /\ length (iter_children GetProofs.ex_state) = 6%nat
  /\ d_run (d_new (iter_children GetProofs.ex_state) 12) ex_script
     = (fst (cursor_run (contents (all_entries GetProofs.ex_state) 12) None ex_script), true)
  /\ contents (all_entries GetProofs.ex_state) 12
     = [([97], [1; 12]); ([98], [2; 6]); ([99], [3; 11])].
Proof. vm_compute. repeat split; reflexivity. Qed.

(** * Sensitivity: global uniqueness of (user key, sequence) is needed *)

(** two children holding the same (user key, sequence): after [first; next] the merging iterator
    is on the second copy; [prev] then moves both children off the front, whereas a list cursor
    over the merged entries steps back to the first copy *)
Example C04_keys_unique_needed :
  exists ls poss ops,
    length poss = length ls
    /\ Forall (fun l => sorted_entries l = true) ls
    /\ admissible (sort_entries (concat ls)) ops
    /\ m_run (m_new (combine ls poss)) ops
       <> (lc_run (sort_entries (concat ls)) None ops, true).
Proof.
  exists dup_children, [None; None], [CFirst; CNext; CPrev].
  split; [reflexivity|]. split; [repeat constructor|].
  split; [vm_compute; repeat split; discriminate|].
  vm_compute. discriminate.
Qed.
