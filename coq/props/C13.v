(** C13 (part a: keys, separators, table well-formedness, block codec, block iterator) —
    property theorems (statements + [exact] + [Print Assumptions] only), and non-vacuity examples.
    *)
From RainVerif Require Import Params.
From RainVerif.model Require Import Bytes Key Block Table TableSpec.
From RainVerif.proofs Require Import KeyProofs BlockProofs.
Open Scope N_scope.

(** * A. Orderings *)

Theorem C13_bytes_cmp_eq_iff : forall a b, bytes_cmp a b = Eq <-> a = b.
Proof. exact bytes_cmp_eq_iff. Qed.
Print Assumptions C13_bytes_cmp_eq_iff.

Theorem C13_bytes_cmp_opp : forall a b, bytes_cmp a b = CompOpp (bytes_cmp b a).
Proof. exact bytes_cmp_opp. Qed.
Print Assumptions C13_bytes_cmp_opp.

Theorem C13_bytes_cmp_lt_trans : forall a b c,
  bytes_cmp a b = Lt -> bytes_cmp b c = Lt -> bytes_cmp a c = Lt.
Proof. exact bytes_cmp_lt_trans. Qed.
Print Assumptions C13_bytes_cmp_lt_trans.

Theorem C13_ikey_cmp_eq_iff : forall a b,
  ikey_cmp a b = Eq <-> ik_user a = ik_user b /\ ik_seq a = ik_seq b.
Proof. exact ikey_cmp_eq_iff. Qed.
Print Assumptions C13_ikey_cmp_eq_iff.

Theorem C13_ikey_cmp_opp : forall a b, ikey_cmp a b = CompOpp (ikey_cmp b a).
Proof. exact ikey_cmp_opp. Qed.
Print Assumptions C13_ikey_cmp_opp.

Theorem C13_ikey_lt_trans : forall a b c, ikey_lt a b -> ikey_lt b c -> ikey_lt a c.
Proof. exact ikey_lt_trans. Qed.
Print Assumptions C13_ikey_lt_trans.

Theorem C13_ikey_le_lt_trans : forall a b c, ikey_le a b -> ikey_lt b c -> ikey_lt a c.
Proof. exact ikey_le_lt_trans. Qed.
Print Assumptions C13_ikey_le_lt_trans.

Theorem C13_ikey_lt_le_trans : forall a b c, ikey_lt a b -> ikey_le b c -> ikey_lt a c.
Proof. exact ikey_lt_le_trans. Qed.
Print Assumptions C13_ikey_lt_le_trans.

Theorem C13_ikey_le_trans : forall a b c, ikey_le a b -> ikey_le b c -> ikey_le a c.
Proof. exact ikey_le_trans. Qed.
Print Assumptions C13_ikey_le_trans.

Theorem C13_ikey_cmp_eq_compat_l : forall a b c,
  ikey_cmp a b = Eq -> ikey_cmp a c = ikey_cmp b c.
Proof. exact ikey_cmp_eq_compat_l. Qed.
Print Assumptions C13_ikey_cmp_eq_compat_l.

Theorem C13_ikey_cmp_eq_compat_r : forall a b c,
  ikey_cmp b c = Eq -> ikey_cmp a b = ikey_cmp a c.
Proof. exact ikey_cmp_eq_compat_r. Qed.
Print Assumptions C13_ikey_cmp_eq_compat_r.

(** [PartialEq] on internal keys is field-wise equality, hence implies order-equivalence *)
Theorem C13_ikey_eqb_iff : forall a b, ikey_eqb a b = true <-> a = b.
Proof. exact ikey_eqb_iff. Qed.
Print Assumptions C13_ikey_eqb_iff.

(** * B. Separators, successors, key codec *)

Theorem C13_separator_between : forall a b,
  bytes_cmp a b = Lt ->
  bytes_cmp a (bytes_separator a b) <> Gt /\ bytes_cmp (bytes_separator a b) b = Lt.
Proof. exact bytes_separator_between. Qed.
Print Assumptions C13_separator_between.

Theorem C13_successor_ge : forall a, bytes_cmp a (bytes_successor a) <> Gt.
Proof. exact bytes_successor_ge. Qed.
Print Assumptions C13_successor_ge.

Theorem C13_separator_is_bytes : forall a b, is_bytes a -> is_bytes (bytes_separator a b).
Proof. exact bytes_separator_is_bytes. Qed.
Print Assumptions C13_separator_is_bytes.

Theorem C13_successor_is_bytes : forall a, is_bytes a -> is_bytes (bytes_successor a).
Proof. exact bytes_successor_is_bytes. Qed.
Print Assumptions C13_successor_is_bytes.

(** field bounds: [ikey_bounded k := ik_seq k < 2^64 /\ ik_op k <= 1]; the user key is
    unconstrained (byte-ness is not needed anywhere) *)
Theorem C13_ikey_codec : forall k,
  ik_seq k < 18446744073709551616 /\ ik_op k <= 1 -> ikey_decode (ikey_encode k) = Some k.
Proof. exact ikey_decode_encode. Qed.
Print Assumptions C13_ikey_codec.

Theorem C13_ikey_separator_between : forall a b,
  ik_seq a < 18446744073709551616 /\ ik_op a <= 1 -> ikey_cmp a b = Lt ->
  exists sb k,
    ikey_separator a b = Some sb /\ ikey_decode sb = Some k /\
    ikey_le a k /\ ikey_lt k b /\
    (ikey_cmp a k = Eq \/ bytes_ltb (ik_user k) (ik_user b) = true).
Proof. exact ikey_separator_between. Qed.
Print Assumptions C13_ikey_separator_between.

Theorem C13_ikey_successor_ge : forall a,
  ik_seq a < 18446744073709551616 /\ ik_op a <= 1 ->
  exists sb k, ikey_successor a = Some sb /\ ikey_decode sb = Some k /\ ikey_le a k.
Proof. exact ikey_successor_ge. Qed.
Print Assumptions C13_ikey_successor_ge.

(** * C. Every cut of a strictly sorted entry list builds a well-formed table *)

Theorem C13_index_ok : forall es sizes,
  sorted_entries es = true ->
  Forall (fun e => ik_seq (fst e) < 18446744073709551616 /\ ik_op (fst e) <= 1) es ->
  exists t, table_build es sizes = Some t /\ table_wf t es /\
            length (t_index t) = length (t_blocks t) /\
            Forall (fun b => b <> []) (t_blocks t).
Proof. exact table_build_wf. Qed.
Print Assumptions C13_index_ok.

Theorem C13_table_build_nil : forall sizes, table_build [] sizes = Some (mkTable [] []).
Proof. exact table_build_nil. Qed.
Print Assumptions C13_table_build_nil.

(** * D. Block encode / decode round trip *)

Theorem C13_varint32_roundtrip : forall n rest,
  n < 4294967296 -> varint32_dec (varint32 n ++ rest) = Some (n, length (varint32 n)).
Proof. exact varint32_dec_enc. Qed.
Print Assumptions C13_varint32_roundtrip.

(** prefix compression: the stored suffix and the shared length rebuild the key *)
Theorem C13_prefix_rebuild : forall last kb,
  firstn (common_prefix_len last kb) last ++ skipn (common_prefix_len last kb) kb = kb.
Proof. exact cpl_rebuild. Qed.
Print Assumptions C13_prefix_rebuild.

(** No ordering hypothesis is needed. [es <> []] and [0 < ri] are necessary: see
    [C13_block_empty_not_decodable] and [C13_block_ri0_not_decodable]. *)
Theorem C13_block_roundtrip : forall ri es,
  0 < ri -> es <> [] ->
  Forall (fun e => ik_seq (fst e) < 18446744073709551616 /\ ik_op (fst e) <= 1) es ->
  blen (block_encode ri es) < 4294967296 ->
  block_decode (block_encode ri es) = DOk es.
Proof. exact block_decode_encode. Qed.
Print Assumptions C13_block_roundtrip.

Theorem C13_data_block_roundtrip : forall es,
  es <> [] ->
  Forall (fun e => ik_seq (fst e) < 18446744073709551616 /\ ik_op (fst e) <= 1) es ->
  blen (data_block_encode es) < 4294967296 ->
  block_decode (data_block_encode es) = DOk es.
Proof. exact data_block_decode_encode. Qed.
Print Assumptions C13_data_block_roundtrip.

(** every data block of a built table and its index block (restart interval 1) round-trip *)
Theorem C13_table_blocks_roundtrip : forall es sizes t,
  sorted_entries es = true ->
  Forall (fun e => ik_seq (fst e) < 18446744073709551616 /\ ik_op (fst e) <= 1) es ->
  table_build es sizes = Some t ->
  (forall b, In b (t_blocks t) ->
     blen (data_block_encode b) < 4294967296 ->
     block_decode (data_block_encode b) = DOk b) /\
  (es <> [] -> blen (block_encode 1 (t_index t)) < 4294967296 ->
     block_decode (block_encode 1 (t_index t)) = DOk (t_index t)).
Proof. exact table_blocks_roundtrip. Qed.
Print Assumptions C13_table_blocks_roundtrip.

(** finding: the block written for an empty entry list is rejected by the reader (one
    pre-pushed restart offset, no entry to match it) *)
Theorem C13_block_empty_not_decodable : forall ri, block_decode (block_encode ri []) = DErr.
Proof. exact block_decode_encode_nil. Qed.
Print Assumptions C13_block_empty_not_decodable.

Theorem C13_block_ri0_not_decodable :
  block_decode (block_encode 0 [(mkIKey [1] 5 1, [7])]) = DErr.
Proof. exact block_decode_encode_ri0. Qed.
Print Assumptions C13_block_ri0_not_decodable.

(** * E. BlockIter refines the sorted-list cursor *)

Theorem C13_block_search_lower_bound : forall es target,
  sorted_entries es = true ->
  bi_search es (S (length es)) 0 (length es) target =
  length (filter (fun e => ikey_ltb (fst e) target) es).
Proof. exact bi_search_count. Qed.
Print Assumptions C13_block_search_lower_bound.

Theorem C13_block_seek_current : forall es i target,
  sorted_entries es = true ->
  nth_error es (bi_seek es i target) = lc_current es (lc_seek es target).
Proof. exact bi_seek_current. Qed.
Print Assumptions C13_block_seek_current.

(** single steps under the representation [bi_rep es i p]:
    [p = Some j -> i = j /\ j < length es], [p = None -> length es <= i] *)
Theorem C13_block_iter_step : forall es i p o,
  sorted_entries es = true -> bi_rep es i p -> (es <> [] \/ o <> CLast) ->
  exists i', bi_step es i o = Some i' /\ bi_rep es i' (lc_step es p o).
Proof. exact bi_step_refines. Qed.
Print Assumptions C13_block_iter_step.

Theorem C13_block_iter_current : forall es i p,
  bi_rep es i p -> bi_current es i = lc_current es p.
Proof. exact bi_rep_current. Qed.
Print Assumptions C13_block_iter_current.

(** whole scripts, from a fresh iterator; [seek_to_last] on an empty block panics
    ([C13_block_iter_empty_last]) and is excluded *)
Theorem C13_block_iter_refines : forall es ops,
  sorted_entries es = true -> (es <> [] \/ ~ In CLast ops) ->
  bi_run es 0 ops = (lc_run es (lc_first es) ops, true).
Proof. exact block_iter_refines. Qed.
Print Assumptions C13_block_iter_refines.

Theorem C13_block_iter_refines_from : forall es, sorted_entries es = true ->
  forall ops i p, bi_rep es i p -> (es <> [] \/ ~ In CLast ops) ->
  bi_run es i ops = (lc_run es p ops, true).
Proof. exact bi_run_refines. Qed.
Print Assumptions C13_block_iter_refines_from.

Theorem C13_block_iter_empty_last : forall i, bi_step [] i CLast = None.
Proof. exact block_iter_empty_last. Qed.
Print Assumptions C13_block_iter_empty_last.

(** * F. Non-vacuity examples *)

(** B: byte-string separators / successors *)
Example C13_ex_sep_empty : bytes_separator [] [1] = [].
Proof. vm_compute. reflexivity. Qed.
Example C13_ex_sep_one_byte : bytes_separator [97] [99] = [98].
Proof. vm_compute. reflexivity. Qed.
Example C13_ex_sep_adjacent : bytes_separator [97] [98] = [97].
Proof. vm_compute. reflexivity. Qed.
Example C13_ex_sep_prefix : bytes_separator [98;97;116] [98;97;116;109] = [98;97;116].
Proof. vm_compute. reflexivity. Qed.
Example C13_ex_sep_shared : bytes_separator [98;97;116;1;9] [98;97;116;7] = [98;97;116;2].
Proof. vm_compute. reflexivity. Qed.
Example C13_ex_sep_ff_run : bytes_separator [255;255;3;7] [255;255;9] = [255;255;4].
Proof. vm_compute. reflexivity. Qed.
Example C13_ex_sep_ff_diff : bytes_separator [1;255;2] [2] = [1;255;2].
Proof. vm_compute. reflexivity. Qed.
Example C13_ex_succ_empty : bytes_successor [] = [].
Proof. vm_compute. reflexivity. Qed.
Example C13_ex_succ_ff_run : bytes_successor [255;255] = [255;255].
Proof. vm_compute. reflexivity. Qed.
Example C13_ex_succ_ff_then : bytes_successor [255;255;3;9] = [255;255;4].
Proof. vm_compute. reflexivity. Qed.

(** B: internal keys; the hypotheses of [C13_ikey_separator_between] hold and the separator
    is really shortened / really kept *)
Example C13_ex_isep_shortened :
  ikey_cmp (mkIKey [114;121;117] 7 1) (mkIKey [116;117;109] 3 0) = Lt /\
  ikey_separator (mkIKey [114;121;117] 7 1) (mkIKey [116;117;109] 3 0) =
    Some (ikey_encode (mkIKey [115] MAX_SEQ OP_PUT)) /\
  ikey_decode (ikey_encode (mkIKey [115] MAX_SEQ OP_PUT)) = Some (mkIKey [115] MAX_SEQ OP_PUT).
Proof. vm_compute. repeat split. Qed.
Example C13_ex_isep_same_user :
  ikey_cmp (mkIKey [97;98] 9 1) (mkIKey [97;98] 4 1) = Lt /\
  ikey_separator (mkIKey [97;98] 9 1) (mkIKey [97;98] 4 1) = Some (ikey_encode (mkIKey [97;98] 9 1)).
Proof. vm_compute. repeat split. Qed.
Example C13_ex_isep_empty_user :
  ikey_cmp (mkIKey [] 9 0) (mkIKey [0] 4 1) = Lt /\
  ikey_separator (mkIKey [] 9 0) (mkIKey [0] 4 1) = Some (ikey_encode (mkIKey [] 9 0)) /\
  ikey_decode (ikey_encode (mkIKey [] 9 0)) = Some (mkIKey [] 9 0).
Proof. vm_compute. repeat split. Qed.
Example C13_ex_isep_ff_run :
  ikey_separator (mkIKey [255;255;3;7] 2 1) (mkIKey [255;255;9] 1 1) =
    Some (ikey_encode (mkIKey [255;255;4] MAX_SEQ OP_PUT)).
Proof. vm_compute. reflexivity. Qed.
Example C13_ex_isucc_shortened :
  ikey_successor (mkIKey [98;97;116] 3 1) = Some (ikey_encode (mkIKey [99] MAX_SEQ OP_PUT)).
Proof. vm_compute. reflexivity. Qed.
Example C13_ex_isucc_ff :
  ikey_successor (mkIKey [255] 3 0) = Some (ikey_encode (mkIKey [255] 3 0)) /\
  ikey_successor (mkIKey [255;255;1] 3 0) = Some (ikey_encode (mkIKey [255;255;1] 3 0)) /\
  ikey_successor (mkIKey [255;255;1;1] 3 0) = Some (ikey_encode (mkIKey [255;255;2] MAX_SEQ OP_PUT)).
Proof. vm_compute. repeat split. Qed.

(** C: a 40-entry list satisfies the hypotheses and is cut into 4 blocks *)
Example C13_ex_table_hyps :
  sorted_entries (ex_entries 40) = true /\ entries_boundedb (ex_entries 40) = true.
Proof. vm_compute. split; reflexivity. Qed.
Example C13_ex_table_build :
  option_map (fun t => (map (@length entry) (t_blocks t), length (t_index t)))
             (table_build (ex_entries 40) [9; 14; 0]%nat)
  = Some ([10; 15; 1; 14]%nat, 4%nat).
Proof. vm_compute. reflexivity. Qed.

(** D: 40-entry blocks with restart intervals 16 (3 restart points) and 1 (40) *)
Example C13_ex_block_hyps :
  blen (block_encode 16 (ex_entries 40)) < 4294967296 /\
  blen (block_encode 1 (ex_entries 40)) < 4294967296.
Proof. vm_compute. split; reflexivity. Qed.
Example C13_ex_block_roundtrip_16 :
  block_decode (block_encode 16 (ex_entries 40)) = DOk (ex_entries 40) /\
  le_decode (dropN (blen (block_encode 16 (ex_entries 40)) - 4)
                   (block_encode 16 (ex_entries 40))) = 3.
Proof. vm_compute. split; reflexivity. Qed.
Example C13_ex_block_roundtrip_1 :
  block_decode (block_encode 1 (ex_entries 40)) = DOk (ex_entries 40) /\
  le_decode (dropN (blen (block_encode 1 (ex_entries 40)) - 4)
                   (block_encode 1 (ex_entries 40))) = 40.
Proof. vm_compute. split; reflexivity. Qed.
(** prefix compression really happens with interval 16 *)
Example C13_ex_block_compressed :
  blen (block_encode 16 (ex_entries 40)) < blen (block_encode 1 (ex_entries 40)).
Proof. vm_compute. reflexivity. Qed.

(** E: a script over the 40-entry block, including the seek shortcut, both ends and a miss *)
Example C13_ex_block_iter :
  bi_run (ex_entries 40) 0
    [CSeek (fst (ex_entry 17)); CSeek (fst (ex_entry 17)); CNext; CPrev; CPrev;
     CSeek (mkIKey [107; 49; 50] 5000 1); CLast; CNext; CNext; CPrev; CFirst; CPrev;
     CSeek (mkIKey [108] 1 1); CSeek (mkIKey [] 1 1)]
  = (lc_run (ex_entries 40) (lc_first (ex_entries 40))
    [CSeek (fst (ex_entry 17)); CSeek (fst (ex_entry 17)); CNext; CPrev; CPrev;
     CSeek (mkIKey [107; 49; 50] 5000 1); CLast; CNext; CNext; CPrev; CFirst; CPrev;
     CSeek (mkIKey [108] 1 1); CSeek (mkIKey [] 1 1)], true) /\
  nth_error (fst (bi_run (ex_entries 40) 0 [CSeek (fst (ex_entry 17))])) 0
    = Some (Some (ex_entry 17)).
Proof. vm_compute. split; reflexivity. Qed.

(** * Part b: Table::get and the two-level iterator *)
From RainVerif.proofs Require Import TableProofs.
Open Scope N_scope.


(** The two-level iterator is a sorted-list cursor over the whole entry list under any sequence
    of cursor operations.  [true] = no panic and no fuel exhaustion.  The side condition on
    [CLast] is necessary: see [C13_two_level_empty_table_counterexample]. *)
Theorem C13_two_level_refines :
  forall (t : table) (es : list entry),
    table_wf t es ->
    length (t_index t) = length (t_blocks t) ->
    Forall (fun b => b <> []) (t_blocks t) ->
    forall ops, (In CLast ops -> t_blocks t <> []) ->
    tl_run t tl_new ops = (lc_run es None ops, true).
Proof. exact two_level_refines. Qed.
Print Assumptions C13_two_level_refines.

Theorem C13_two_level_refines_nonempty :
  forall (t : table) (es : list entry),
    table_wf t es ->
    length (t_index t) = length (t_blocks t) ->
    Forall (fun b => b <> []) (t_blocks t) ->
    es <> [] ->
    forall ops, tl_run t tl_new ops = (lc_run es None ops, true).
Proof. exact two_level_refines_nonempty. Qed.
Print Assumptions C13_two_level_refines_nonempty.

(** Without the non-emptiness side condition the refinement statement is false: on the table
    without blocks [seek_to_last] underflows ([block_entries.len() - 1] on the empty index
    block) while the list cursor stays invalid. *)
Theorem C13_two_level_empty_table_counterexample :
  let t := mkTable [] [] in
  table_wf t [] /\ length (t_index t) = length (t_blocks t) /\
  Forall (fun b => b <> []) (t_blocks t) /\
  tl_run t tl_new [CLast] = ([], false) /\
  lc_run [] None [CLast] = [None].
Proof. exact two_level_empty_table_counterexample. Qed.
Print Assumptions C13_two_level_empty_table_counterexample.

(** Point lookups (with the D3 repair) return exactly what the newest entry of the user key at
    or below the sequence bound dictates, whatever the filter answers for absent keys. *)
Theorem C13_table_get_spec :
  forall (t : table) (es : list entry) (filt : nat -> bytes -> bool) (target : ikey),
    table_wf t es ->
    length (t_index t) = length (t_blocks t) ->
    Forall (fun b => b <> []) (t_blocks t) ->
    (forall i u, (exists e, In e (nth i (t_blocks t) []) /\ ik_user (fst e) = u) -> filt i u = true) ->
    table_get true filt t target = get_spec es target.
Proof. exact table_get_meets_spec. Qed.
Print Assumptions C13_table_get_spec.

(** Sensitivity: the pinned code ([d3fix = false]) violates the same statement. *)
Theorem C13_table_get_unfixed_refuted :
  exists t es filt target,
    table_wf t es /\
    length (t_index t) = length (t_blocks t) /\
    Forall (fun b => b <> []) (t_blocks t) /\
    (forall i u, (exists e, In e (nth i (t_blocks t) []) /\ ik_user (fst e) = u) -> filt i u = true) /\
    table_get false filt t target <> get_spec es target.
Proof. exact table_get_unfixed_refuted. Qed.
Print Assumptions C13_table_get_unfixed_refuted.

(** Non-vacuity: a three-block table produced by [table_build] (five versions of one user key
    crossing a block cut, a tombstone first in its block) satisfies every hypothesis ... *)
Example C13_example_built : table_build ex13_es [1%nat; 2%nat] = Some ex13_t.
Proof. exact ex13_built. Qed.

Example C13_example_hypotheses :
  table_wf ex13_t ex13_es /\
  length (t_index ex13_t) = length (t_blocks ex13_t) /\
  Forall (fun b => b <> []) (t_blocks ex13_t) /\
  (forall i u, (exists e, In e (nth i (t_blocks ex13_t) []) /\ ik_user (fst e) = u) ->
               exact_filt ex13_t i u = true).
Proof. exact ex13_hyps. Qed.
Print Assumptions C13_example_hypotheses.

(** ... its lookups give all three kinds of answers ... *)
Example C13_example_gets :
  let get := table_get true (exact_filt ex13_t) ex13_t in
  get (mkIKey [107; 107] 100 OP_PUT) = GFound [2] /\
  get (mkIKey [107; 107] 6 OP_PUT) = GFound [3] /\
  get (mkIKey [107; 107] 7 OP_PUT) = GDeleted /\
  get (mkIKey [107; 107] 1 OP_PUT) = GNotFound /\
  get (mkIKey [98] 5 OP_PUT) = GNotFound /\
  get (mkIKey [122; 122] 0 OP_PUT) = GNotFound /\
  get (mkIKey [126] 5 OP_PUT) = GNotFound /\
  table_get false (exact_filt ex13_t) ex13_t (mkIKey [126] 5 OP_PUT) = GDeleted /\
  (forall k, In k [mkIKey [107; 107] 100 OP_PUT; mkIKey [107; 107] 6 OP_PUT; mkIKey [107; 107] 7 OP_PUT;
                   mkIKey [107; 107] 1 OP_PUT; mkIKey [98] 5 OP_PUT; mkIKey [122; 122] 0 OP_PUT;
                   mkIKey [126] 5 OP_PUT] ->
             get k = get_spec ex13_es k).
Proof. exact ex13_gets. Qed.

(** ... and a 52-operation script with direction reversals, moves on an invalid iterator and
    seeks (39 of the 52 reported positions are valid) evaluates as the list cursor does. *)
Example C13_example_script :
  tl_run ex13_t tl_new ex13_script = (lc_run ex13_es None ex13_script, true) /\
  length (filter (fun x => match x with Some _ => true | None => false end)
                 (lc_run ex13_es None ex13_script)) = 39%nat.
Proof. exact ex13_script_refines. Qed.
Print Assumptions C13_example_script.
