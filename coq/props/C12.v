(** C12 — property theorems (statements + [exact] + [Print Assumptions] only). *)
From RainVerif Require Import Params.
From RainVerif.model Require Import Bytes Crc Log LogScript.
From RainVerif.proofs Require Import CrcProofs.
Open Scope N_scope.

Theorem C12_checksum_unmask_mask : forall c, c < two32 -> unmask_checksum (mask_checksum c) = c.
Proof. exact unmask_mask. Qed.
Print Assumptions C12_checksum_unmask_mask.
