(** C12 — property theorems (statements + [exact] + [Print Assumptions] only). *)
From RainVerif Require Import Params.
From RainVerif.model Require Import Bytes Crc Log LogScript.
From RainVerif.proofs Require Import CrcProofs LogProofs.
Open Scope N_scope.

Theorem C12_checksum_unmask_mask : forall c, c < two32 -> unmask_checksum (mask_checksum c) = c.
Proof. exact unmask_mask. Qed.
Print Assumptions C12_checksum_unmask_mask.

(** Every claimed history (any number of writer sessions, each re-opening the file, each possibly
    dying between two fragments of one more record; optionally one final truncation at any byte)
    is read back as exactly the complete records, in order, without a panic. *)
Theorem C12_log_script_correct : forall ops l,
  log_script_spec ops = Some l -> log_read_all true (fst (log_script_run ops)) = (l, false).
Proof. exact log_script_correct_inst. Qed.
Print Assumptions C12_log_script_correct.

Theorem C12_roundtrip : forall sessions : list (list bytes),
  log_read_all true (log_write_sessions [] sessions) = (concat sessions, false).
Proof. exact log_roundtrip_inst. Qed.
Print Assumptions C12_roundtrip.

(** Truncation at any byte [n]: the reader returns a prefix of the appended records, and that
    prefix consists of exactly the records whose end offset [e] (as computed by [sess_records]
    inside [script_run]) is at most [n], i.e. all complete records. *)
Theorem C12_truncation : forall (sessions : list (list bytes)) (n : N),
  let st := log_script_run (map (fun s => LSess s None) sessions) in
  fst st = log_write_sessions [] sessions /\
  map fst (snd st) = concat sessions /\
  exists k,
    log_read_all true (takeN n (log_write_sessions [] sessions))
      = (firstn k (concat sessions), false) /\
    forall j r e, nth_error (snd st) j = Some (r, e) -> (e <= n <-> (j < k)%nat).
Proof. exact log_truncation_inst. Qed.
Print Assumptions C12_truncation.

(** Sensitivity witness: the reader without fragment sequencing (the code before the fix for D9)
    violates the specification. *)
Theorem C12_unfixed_reader_refuted :
  exists ops l,
    script_spec 32 7 crc32c ops = Some l /\
    read_all 32 7 crc32c false (script_file 32 7 crc32c ops) <> (l, false).
Proof. exact unfixed_reader_refuted. Qed.
Print Assumptions C12_unfixed_reader_refuted.

(** Non-vacuity (block size 32): three sessions, a 60 byte record spanning three blocks, a session
    interrupted after two fragments, a "partial" record that is in fact complete, and a final
    truncation inside the last long record. *)
Example C12_example_small_block :
  let r60 := repeat 66 60 in
  let ops := [LSess [r60; [1; 2; 3]] (Some (r60, 2%nat));
              LSess [[4; 5]] (Some ([9; 9; 9], 1%nat));
              LSess [r60; [7]] None;
              LTrunc 250] in
  script_spec 32 7 crc32c ops = Some [r60; [1; 2; 3]; [4; 5]; [9; 9; 9]] /\
  read_all 32 7 crc32c true (script_file 32 7 crc32c ops)
    = ([r60; [1; 2; 3]; [4; 5]; [9; 9; 9]], false) /\
  read_all 32 7 crc32c false (script_file 32 7 crc32c ops)
    <> ([r60; [1; 2; 3]; [4; 5]; [9; 9; 9]], false).
Proof. vm_compute. split; [reflexivity|]. split; [reflexivity|]. intros E; discriminate E. Qed.
Print Assumptions C12_example_small_block.
