(** C03 — property theorems (statements + [exact] + [Print Assumptions] only). *)
From RainVerif Require Import Params.
From RainVerif.model Require Import Bytes Key Version Lsm LsmSpec DbSpec.
Open Scope N_scope.

From RainVerif.proofs Require Import SelectProofs LsmProofs.
Open Scope N_scope.

(** a live snapshot sees the same contents after any admissible run that does not release it *)
Theorem C03_snapshot_stable :
  forall mfs steps s q, lsm_wf_b s = true -> In q (l_snaps s) -> run_adm mfs s steps ->
    ~ In (SRelease q) steps ->
    let s' := fold_left (lsm_step true true mfs) steps s in
    forall k, visible (all_entries s') q k = visible (all_entries s) q k
              /\ db_get_at s' k q = db_get_at s k q.
Proof. exact snapshot_stable. Qed.
Print Assumptions C03_snapshot_stable.


(** [l_snaps] is a multiset: [q] keeps its view as long as it is released fewer times than held *)
Example C03_releases_def : forall q st r,
  releases q [] = O /\
  releases q (st :: r) = match st with
                         | SRelease q' => ((if N.eqb q' q then 1 else 0) + releases q r)%nat
                         | _ => releases q r
                         end.
Proof. intros q st r. split; [reflexivity|destruct st; reflexivity]. Qed.

Theorem C03_snapshot_stable_multiset :
  forall mfs steps s q, lsm_wf_b s = true -> run_adm mfs s steps ->
    (releases q steps < count_occ N.eq_dec (l_snaps s) q)%nat ->
    let s' := fold_left (lsm_step true true mfs) steps s in
    forall k, visible (all_entries s') q k = visible (all_entries s) q k
              /\ db_get_at s' k q = db_get_at s k q.
Proof. exact snapshot_stable_multiset. Qed.
Print Assumptions C03_snapshot_stable_multiset.

(** * Non-vacuity: a run reaching three levels, compacting twice under a live snapshot *)


(** * get, iterators and snapshots agree ([proofs/SnapIterProofs.v]) *)
From RainVerif Require Import Params.
From RainVerif.model Require Import Bytes Key Block Table TableSpec Version Lsm LsmSpec DbSpec Cursor.
From RainVerif.proofs Require Import SnapIterProofs.
From RainVerif.proofs Require GetProofs LsmProofs CursorProofs.
Open Scope N_scope.

(** the notions used in the statements, spelled out *)
Example C03_map_sorted_def : forall p r,
  GetProofs.map_sorted [] = True /\
  GetProofs.map_sorted (p :: r)
  = ((forall p', In p' r -> bytes_cmp (fst p) (fst p') = Lt) /\ GetProofs.map_sorted r).
Proof. intros. split; reflexivity. Qed.

Example C03_seek_obs_def : forall s q k,
  seek_obs s q k = d_run (d_new (iter_children s) q) [ISeek k].
Proof. reflexivity. Qed.

(** T1 *)
Theorem C03_contents_lookup :
  forall (es : list entry) (q : N),
    GetProofs.map_sorted (contents es q) /\ forall k, map_get k (contents es q) = visible es q k.
Proof. exact contents_lookup. Qed.
Print Assumptions C03_contents_lookup.

Theorem C03_sorted_map_ext :
  forall m1 m2 : list kv, GetProofs.map_sorted m1 -> GetProofs.map_sorted m2 ->
    (forall k, map_get k m1 = map_get k m2) -> m1 = m2.
Proof. exact sorted_map_ext. Qed.
Print Assumptions C03_sorted_map_ext.

Theorem C03_contents_ext :
  forall (es es' : list entry) (q : N),
    (forall k, visible es q k = visible es' q k) -> contents es q = contents es' q.
Proof. exact contents_ext. Qed.
Print Assumptions C03_contents_ext.

(** T2: at the same snapshot, get and iteration always agree *)
Theorem C03_get_iter_agree :
  forall (s : lsm) (q : N) (k : bytes),
    lsm_wf_b s = true ->
    snd (seek_obs s q k) = true /\
    match db_get_at s k q with
    | Some v => fst (seek_obs s q k) = [OAt (k, v)]
    | None => fst (seek_obs s q k) = [OInvalid]
              \/ exists k' v', fst (seek_obs s q k) = [OAt (k', v')] /\ bytes_cmp k k' = Lt
    end.
Proof. exact get_iter_agree. Qed.
Print Assumptions C03_get_iter_agree.

Theorem C03_get_iter_agree_found :
  forall (s : lsm) (q : N) (k v : bytes),
    lsm_wf_b s = true ->
    (fst (seek_obs s q k) = [OAt (k, v)] <-> db_get_at s k q = Some v).
Proof. exact get_iter_agree_found. Qed.
Print Assumptions C03_get_iter_agree_found.

Theorem C03_get_iter_agree_absent :
  forall (s : lsm) (q : N) (k : bytes),
    lsm_wf_b s = true ->
    ((fst (seek_obs s q k) = [OInvalid]
      \/ exists k' v', fst (seek_obs s q k) = [OAt (k', v')] /\ bytes_cmp k k' = Lt)
     <-> db_get_at s k q = None).
Proof. exact get_iter_agree_absent. Qed.
Print Assumptions C03_get_iter_agree_absent.

(** T3: a full forward scan *)
Theorem C03_scan_is_contents :
  forall (s : lsm) (q : N),
    lsm_wf_b s = true ->
    d_run (d_new (iter_children s) q)
          (IFirst :: repeat INext (length (contents (all_entries s) q)))
    = (map OAt (contents (all_entries s) q) ++ [OInvalid], true).
Proof. exact scan_is_contents. Qed.
Print Assumptions C03_scan_is_contents.

(** T4: an iterator sees exactly the state at its creation, forever *)
Theorem C03_iterator_snapshot_stable :
  forall mfs steps s q, lsm_wf_b s = true -> In q (l_snaps s) -> LsmProofs.run_adm mfs s steps ->
    ~ In (SRelease q) steps ->
    let s' := fold_left (lsm_step true true mfs) steps s in
    forall ops, d_run (d_new (iter_children s') q) ops = d_run (d_new (iter_children s) q) ops.
Proof. exact iterator_snapshot_stable. Qed.
Print Assumptions C03_iterator_snapshot_stable.

Theorem C03_iterator_snapshot_stable_multiset :
  forall mfs steps s q, lsm_wf_b s = true -> LsmProofs.run_adm mfs s steps ->
    (LsmProofs.releases q steps < count_occ N.eq_dec (l_snaps s) q)%nat ->
    let s' := fold_left (lsm_step true true mfs) steps s in
    forall ops, d_run (d_new (iter_children s') q) ops = d_run (d_new (iter_children s) q) ops.
Proof. exact iterator_snapshot_stable_multiset. Qed.
Print Assumptions C03_iterator_snapshot_stable_multiset.

Theorem C03_contents_snapshot_stable :
  forall mfs steps s q, lsm_wf_b s = true -> LsmProofs.run_adm mfs s steps ->
    (LsmProofs.releases q steps < count_occ N.eq_dec (l_snaps s) q)%nat ->
    let s' := fold_left (lsm_step true true mfs) steps s in
    contents (all_entries s') q = contents (all_entries s) q.
Proof. exact contents_snapshot_stable. Qed.
Print Assumptions C03_contents_snapshot_stable.

(** * Non-vacuity *)

(** the three-level state of C01 / C04 ([GetProofs.ex_state]) at sequence 12: [d] was deleted at
    sequence 9 (seek goes past the end), [b] is found by both, a key between [b] and [c] lands on
    [c]; at sequence 8 the deletion is not visible yet *)
Example C03_example_seek :
  lsm_wf_b GetProofs.ex_state = true
  /\ (db_get_at GetProofs.ex_state [98] 12 = Some [2; 6]
      /\ seek_obs GetProofs.ex_state 12 [98] = ([OAt ([98], [2; 6])], true))
  /\ (db_get_at GetProofs.ex_state [98; 0] 12 = None
      /\ seek_obs GetProofs.ex_state 12 [98; 0] = ([OAt ([99], [3; 11])], true)
      /\ bytes_cmp [98; 0] [99] = Lt)
  /\ (db_get_at GetProofs.ex_state [100] 12 = None
      /\ seek_obs GetProofs.ex_state 12 [100] = ([OInvalid], true))
  /\ (db_get_at GetProofs.ex_state [100] 8 = Some [4; 1]
      /\ seek_obs GetProofs.ex_state 8 [100] = ([OAt ([100], [4; 1])], true)).
Proof. vm_compute. repeat split; reflexivity. Qed.

Example C03_example_scan :
  contents (all_entries GetProofs.ex_state) 12 = [([97], [1; 12]); ([98], [2; 6]); ([99], [3; 11])]
  /\ d_run (d_new (iter_children GetProofs.ex_state) 12) [IFirst; INext; INext; INext]
     = ([OAt ([97], [1; 12]); OAt ([98], [2; 6]); OAt ([99], [3; 11]); OInvalid], true)
  /\ d_run (d_new (iter_children GetProofs.ex_state) 0) [IFirst] = ([OInvalid], true).
Proof. vm_compute. repeat split; reflexivity. Qed.

(** the run of C03 / C10 ([LsmProofs.ex_mid] --[ex_suffix]--> [LsmProofs.ex_end]): two flushes
    into level 0 and two compactions under the live snapshot 5 *)
Example C03_example_run_hyps :
  lsm_wf_b LsmProofs.ex_mid = true
  /\ In 5 (l_snaps LsmProofs.ex_mid)
  /\ LsmProofs.run_adm LsmProofs.ex_mfs LsmProofs.ex_mid LsmProofs.ex_suffix
  /\ ~ In (SRelease 5) LsmProofs.ex_suffix
  /\ (LsmProofs.releases 5%N LsmProofs.ex_suffix
      < count_occ N.eq_dec (l_snaps LsmProofs.ex_mid) 5%N)%nat
  /\ LsmProofs.ex_end
     = fold_left (lsm_step true true LsmProofs.ex_mfs) LsmProofs.ex_suffix LsmProofs.ex_mid
  /\ length (iter_children LsmProofs.ex_mid) = 3%nat
  /\ length (iter_children LsmProofs.ex_end) = 2%nat.
Proof.
  split; [vm_compute; reflexivity|]. split; [vm_compute; left; reflexivity|].
  split; [apply LsmProofs.run_adm_b_sound; vm_compute; reflexivity|].
  split; [intros H; repeat (destruct H as [H|H]; [discriminate|]); exact H|].
  split; [vm_compute; repeat constructor|].
  split; [reflexivity|]. split; vm_compute; reflexivity.
Qed.

(** the iterator at snapshot 5 before and after the run, on the 30-operation script of C04; the
    iterator at the current sequence of the final state sees something else *)
Example C03_example_iterator_stable :
  d_run (d_new (iter_children LsmProofs.ex_end) 5) CursorProofs.ex_script
  = d_run (d_new (iter_children LsmProofs.ex_mid) 5) CursorProofs.ex_script
  /\ fst (d_run (d_new (iter_children LsmProofs.ex_end) 5) CursorProofs.ex_script)
     = [OAt ([97], [4]); OAt ([99], [3]); OInvalid; OSkip; OSkip; OSkip;
        OAt ([99], [3]); OAt ([97], [4]); OAt ([99], [3]); OInvalid;
        OAt ([99], [3]); OAt ([97], [4]); OAt ([99], [3]); OAt ([99], [3]); OInvalid;
        OSkip; OSkip; OSkip; OAt ([97], [4]); OInvalid; OAt ([99], [3]); OInvalid; OInvalid;
        OAt ([99], [3]); OAt ([97], [4]); OInvalid; OSkip; OSkip; OSkip; OSkip]
  /\ contents (all_entries LsmProofs.ex_mid) 5 = [([97], [4]); ([99], [3])]
  /\ contents (all_entries LsmProofs.ex_end) 5 = [([97], [4]); ([99], [3])]
  /\ l_seq LsmProofs.ex_end = 8
  /\ contents (all_entries LsmProofs.ex_end) 8 = [([97], [8]); ([98], [6]); ([99], [7])]
  /\ d_run (d_new (iter_children LsmProofs.ex_end) 8) [IFirst; INext; INext; INext]
     = ([OAt ([97], [8]); OAt ([98], [6]); OAt ([99], [7]); OInvalid], true).
Proof. vm_compute. repeat split; reflexivity. Qed.

(** the theorem applies to this run, for every script *)
Example C03_example_theorem_applies :
  forall ops, d_run (d_new (iter_children LsmProofs.ex_end) 5) ops
              = d_run (d_new (iter_children LsmProofs.ex_mid) 5) ops.
Proof.
  destruct C03_example_run_hyps as (W & Hq & A & Nr & _).
  exact (C03_iterator_snapshot_stable LsmProofs.ex_mfs LsmProofs.ex_suffix LsmProofs.ex_mid 5
           W Hq A Nr).
Qed.

(** * Sensitivity: the snapshot must stay live *)

(** the same run after releasing snapshot 5 is admissible and keeps the invariant, but the
    compactions drop the versions only snapshot 5 could see: an iterator at sequence 5 on the
    final state is empty *)
Example C03_release_needed :
  let steps := SRelease 5 :: LsmProofs.ex_suffix in
  let s' := fold_left (lsm_step true true LsmProofs.ex_mfs) steps LsmProofs.ex_mid in
  LsmProofs.run_adm LsmProofs.ex_mfs LsmProofs.ex_mid steps
  /\ lsm_wf_b s' = true
  /\ contents (all_entries s') 5 = []
  /\ d_run (d_new (iter_children s') 5) [IFirst] = ([OInvalid], true)
  /\ d_run (d_new (iter_children LsmProofs.ex_mid) 5) [IFirst] = ([OAt ([97], [4])], true).
Proof.
  cbv zeta. split; [apply LsmProofs.run_adm_b_sound; vm_compute; reflexivity|].
  vm_compute. repeat split; reflexivity.
Qed.
