(** C03 — property theorems (statements + [exact] + [Print Assumptions] only). *)
From RainVerif Require Import Params.
From RainVerif.model Require Import Bytes Key Version Lsm LsmSpec DbSpec.
Open Scope N_scope.

From RainVerif.proofs Require Import SelectProofs LsmProofs.
Open Scope N_scope.

(** a live snapshot sees the same contents after any admissible run that does not release it *)
Theorem C03_snapshot_stable :
  forall mfs steps s q, lsm_wf_b s = true -> In q (l_snaps s) -> run_adm mfs s steps ->
    ~ In (SRelease q) steps ->
    let s' := fold_left (lsm_step true true mfs) steps s in
    forall k, visible (all_entries s') q k = visible (all_entries s) q k
              /\ db_get_at s' k q = db_get_at s k q.
Proof. exact snapshot_stable. Qed.
Print Assumptions C03_snapshot_stable.


(** [l_snaps] is a multiset: [q] keeps its view as long as it is released fewer times than held *)
Example C03_releases_def : forall q st r,
  releases q [] = O /\
  releases q (st :: r) = match st with
                         | SRelease q' => ((if N.eqb q' q then 1 else 0) + releases q r)%nat
                         | _ => releases q r
                         end.
Proof. intros q st r. split; [reflexivity|destruct st; reflexivity]. Qed.

Theorem C03_snapshot_stable_multiset :
  forall mfs steps s q, lsm_wf_b s = true -> run_adm mfs s steps ->
    (releases q steps < count_occ N.eq_dec (l_snaps s) q)%nat ->
    let s' := fold_left (lsm_step true true mfs) steps s in
    forall k, visible (all_entries s') q k = visible (all_entries s) q k
              /\ db_get_at s' k q = db_get_at s k q.
Proof. exact snapshot_stable_multiset. Qed.
Print Assumptions C03_snapshot_stable_multiset.

(** * Non-vacuity: a run reaching three levels, compacting twice under a live snapshot *)

