(** C15 — property theorems (statements + [exact] + [Print Assumptions] only). Single corrupted byte in a log file. *)
From Coq Require Import List NArith.
From RainVerif Require Import Params.
From RainVerif.model Require Import Bytes Key Block Crc Log LogScript Version Lsm DbSpec Codec WalModel.
From RainVerif.proofs Require Import KeyProofs LogProofs CodecProofs WalProofs.
Import ListNotations.
Open Scope N_scope.

Theorem C15a_unmask_checksum_injective : forall m m',
  m < two32 -> m' < two32 -> unmask_checksum m = unmask_checksum m' -> m = m'.
Proof. exact unmask_inj. Qed.
Print Assumptions C15a_unmask_checksum_injective.

Theorem C15a_log_layout_exists : forall recs,
  exists its,
    fst (log_append_all 0 recs) = bytes_of crc32c its /\
    layout_ok BLOCK_SIZE_BYTES HEADER_LENGTH_BYTES 0 its.
Proof. exact log_layout_exists_inst. Qed.
Print Assumptions C15a_log_layout_exists.

(** trusted: [crc_detects_single_byte crc32c] (explicit hypothesis); restriction (known finding
    D11): the file ends in the block that contains the changed byte *)
Theorem C15a_log_single_byte_detected :
  crc_detects_single_byte crc32c ->
  forall (recs : list bytes) (its : list item) (off v : N),
    let file := fst (log_append_all 0 recs) in
    file = bytes_of crc32c its ->
    layout_ok BLOCK_SIZE_BYTES HEADER_LENGTH_BYTES 0 its ->
    protected_offset HEADER_LENGTH_BYTES 0 its off = true ->
    v < 256 -> nth (N.to_nat off) file 0 < 256 -> v <> nth (N.to_nat off) file 0 ->
    blen file <= (off / BLOCK_SIZE_BYTES + 1) * BLOCK_SIZE_BYTES ->
    exists l1 x l2,
      recs = l1 ++ x ++ l2 /\ (length x <= 1)%nat /\
      log_read_all true (update_at (N.to_nat off) v file) = (l1 ++ l2, false).
Proof. exact log_single_byte_detected. Qed.
Print Assumptions C15a_log_single_byte_detected.

Theorem C15a_log_single_byte_no_invented_record :
  crc_detects_single_byte crc32c ->
  forall (recs : list bytes) (its : list item) (off v : N),
    let file := fst (log_append_all 0 recs) in
    file = bytes_of crc32c its ->
    layout_ok BLOCK_SIZE_BYTES HEADER_LENGTH_BYTES 0 its ->
    protected_offset HEADER_LENGTH_BYTES 0 its off = true ->
    v < 256 -> nth (N.to_nat off) file 0 < 256 -> v <> nth (N.to_nat off) file 0 ->
    blen file <= (off / BLOCK_SIZE_BYTES + 1) * BLOCK_SIZE_BYTES ->
    forall r, In r (fst (log_read_all true (update_at (N.to_nat off) v file))) -> In r recs.
Proof. exact log_single_byte_no_invented_record. Qed.
Print Assumptions C15a_log_single_byte_no_invented_record.

Theorem C15a_wal_single_byte_detected :
  crc_detects_single_byte crc32c ->
  forall (bs : list batch) (its : list item) (off v : N),
    batches_ok bs ->
    let file := wal_bytes bs in
    file = bytes_of crc32c its ->
    layout_ok BLOCK_SIZE_BYTES HEADER_LENGTH_BYTES 0 its ->
    protected_offset HEADER_LENGTH_BYTES 0 its off = true ->
    v < 256 -> nth (N.to_nat off) file 0 < 256 -> v <> nth (N.to_nat off) file 0 ->
    blen file <= (off / BLOCK_SIZE_BYTES + 1) * BLOCK_SIZE_BYTES ->
    exists b1 x b2,
      bs = b1 ++ x ++ b2 /\ (length x <= 1)%nat /\
      wal_recover (update_at (N.to_nat off) v file) = Some (b1 ++ b2).
Proof. exact wal_single_byte_detected. Qed.
Print Assumptions C15a_wal_single_byte_detected.

(** the checksum property is in fact a theorem of the model of CRC-32C *)
Theorem C15a_crc32c_detects_single_byte : crc_detects_single_byte crc32c.
Proof. exact crc32c_detects_single_byte. Qed.
Print Assumptions C15a_crc32c_detects_single_byte.

Theorem C15a_log_single_byte_detected_crc32c :
  forall (recs : list bytes) (its : list item) (off v : N),
    let file := fst (log_append_all 0 recs) in
    file = bytes_of crc32c its ->
    layout_ok BLOCK_SIZE_BYTES HEADER_LENGTH_BYTES 0 its ->
    protected_offset HEADER_LENGTH_BYTES 0 its off = true ->
    v < 256 -> nth (N.to_nat off) file 0 < 256 -> v <> nth (N.to_nat off) file 0 ->
    blen file <= (off / BLOCK_SIZE_BYTES + 1) * BLOCK_SIZE_BYTES ->
    exists l1 x l2,
      recs = l1 ++ x ++ l2 /\ (length x <= 1)%nat /\
      log_read_all true (update_at (N.to_nat off) v file) = (l1 ++ l2, false).
Proof. exact log_single_byte_detected_crc32c. Qed.
Print Assumptions C15a_log_single_byte_detected_crc32c.

(** with the fragment list the writer produced ([recs_items]): exactly one record is lost *)
Theorem C15a_log_single_byte_drops_one :
  crc_detects_single_byte crc32c ->
  forall (recs : list bytes) (off v : N),
    let file := fst (log_append_all 0 recs) in
    let its := recs_items BLOCK_SIZE_BYTES HEADER_LENGTH_BYTES 0 recs in
    protected_offset HEADER_LENGTH_BYTES 0 its off = true ->
    v < 256 -> nth (N.to_nat off) file 0 < 256 -> v <> nth (N.to_nat off) file 0 ->
    blen file <= (off / BLOCK_SIZE_BYTES + 1) * BLOCK_SIZE_BYTES ->
    file = bytes_of crc32c its /\
    layout_ok BLOCK_SIZE_BYTES HEADER_LENGTH_BYTES 0 its /\
    exists l1 r l2,
      recs = l1 ++ r :: l2 /\
      log_read_all true (update_at (N.to_nat off) v file) = (l1 ++ l2, false).
Proof. exact log_single_byte_drops_one. Qed.
Print Assumptions C15a_log_single_byte_drops_one.

Theorem C15a_log_single_byte_drops_one_crc32c :
  forall (recs : list bytes) (off v : N),
    let file := fst (log_append_all 0 recs) in
    let its := recs_items BLOCK_SIZE_BYTES HEADER_LENGTH_BYTES 0 recs in
    protected_offset HEADER_LENGTH_BYTES 0 its off = true ->
    v < 256 -> nth (N.to_nat off) file 0 < 256 -> v <> nth (N.to_nat off) file 0 ->
    blen file <= (off / BLOCK_SIZE_BYTES + 1) * BLOCK_SIZE_BYTES ->
    file = bytes_of crc32c its /\
    layout_ok BLOCK_SIZE_BYTES HEADER_LENGTH_BYTES 0 its /\
    exists l1 r l2,
      recs = l1 ++ r :: l2 /\
      log_read_all true (update_at (N.to_nat off) v file) = (l1 ++ l2, false).
Proof. exact log_single_byte_drops_one_crc32c. Qed.
Print Assumptions C15a_log_single_byte_drops_one_crc32c.

Theorem C15a_wal_single_byte_detected_crc32c :
  forall (bs : list batch) (its : list item) (off v : N),
    batches_ok bs ->
    let file := wal_bytes bs in
    file = bytes_of crc32c its ->
    layout_ok BLOCK_SIZE_BYTES HEADER_LENGTH_BYTES 0 its ->
    protected_offset HEADER_LENGTH_BYTES 0 its off = true ->
    v < 256 -> nth (N.to_nat off) file 0 < 256 -> v <> nth (N.to_nat off) file 0 ->
    blen file <= (off / BLOCK_SIZE_BYTES + 1) * BLOCK_SIZE_BYTES ->
    exists b1 x b2,
      bs = b1 ++ x ++ b2 /\ (length x <= 1)%nat /\
      wal_recover (update_at (N.to_nat off) v file) = Some (b1 ++ b2).
Proof. exact wal_single_byte_detected_crc32c. Qed.
Print Assumptions C15a_wal_single_byte_detected_crc32c.

Example C15a_example_corrupt_payload_drops_one :
  length ex_small_file = 64%nat /\
  wal_recover32 ex_small_file = Some ex_small /\
  wal_recover32 (update_at 40 77 ex_small_file) = Some [(1, [WDel [3]]); (3, [WDel [5]])].
Proof. exact ex_corrupt_payload_drops_one. Qed.
Print Assumptions C15a_example_corrupt_payload_drops_one.

Example C15a_example_corrupt_earlier_block_loses_more :
  wal_recover32 (update_at 24 77 ex_small_file) = Some [(1, [WDel [3]])] /\
  wal_recover32 (update_at 4 77 ex_small_file) = Some [].
Proof. exact ex_corrupt_earlier_block_loses_more. Qed.
Print Assumptions C15a_example_corrupt_earlier_block_loses_more.

Example C15a_example_theorem_applies :
  let recs := [[1; 2; 3]; [4; 5]] in
  protected_offset HEADER_LENGTH_BYTES 0 (recs_items BLOCK_SIZE_BYTES HEADER_LENGTH_BYTES 0 recs) 8
    = true /\
  protected_offset HEADER_LENGTH_BYTES 0 (recs_items BLOCK_SIZE_BYTES HEADER_LENGTH_BYTES 0 recs) 5
    = false /\
  log_read_all true (update_at 8 77 (fst (log_append_all 0 recs))) = ([[4; 5]], false) /\
  exists l1 r l2,
    recs = l1 ++ r :: l2 /\
    log_read_all true (update_at 8 77 (fst (log_append_all 0 recs))) = (l1 ++ l2, false).
Proof.
  cbv zeta. split; [vm_compute; reflexivity|]. split; [vm_compute; reflexivity|].
  split; [vm_compute; reflexivity|].
  apply (log_single_byte_drops_one_crc32c [[1; 2; 3]; [4; 5]] 8 77).
  - vm_compute. reflexivity.
  - vm_compute. reflexivity.
  - vm_compute. reflexivity.
  - vm_compute. intros E. discriminate E.
  - vm_compute. intros E. discriminate E.
Qed.
Print Assumptions C15a_example_theorem_applies.
