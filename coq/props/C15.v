(** C15 — property theorems (statements + [exact] + [Print Assumptions] only). Single corrupted byte in a log file. *)
From Coq Require Import List NArith.
From RainVerif Require Import Params.
From RainVerif.model Require Import Bytes Key Block Crc Log LogScript Version Lsm DbSpec Codec WalModel.
From RainVerif.proofs Require Import KeyProofs LogProofs CodecProofs WalProofs.
Import ListNotations.
Open Scope N_scope.

Theorem C15a_unmask_checksum_injective : forall m m',
  m < two32 -> m' < two32 -> unmask_checksum m = unmask_checksum m' -> m = m'.
Proof. exact unmask_inj. Qed.
Print Assumptions C15a_unmask_checksum_injective.

Theorem C15a_log_layout_exists : forall recs,
  exists its,
    fst (log_append_all 0 recs) = bytes_of crc32c its /\
    layout_ok BLOCK_SIZE_BYTES HEADER_LENGTH_BYTES 0 its.
Proof. exact log_layout_exists_inst. Qed.
Print Assumptions C15a_log_layout_exists.

(** trusted: [crc_detects_single_byte crc32c] (explicit hypothesis); restriction (known finding
    D11): the file ends in the block that contains the changed byte *)
Theorem C15a_log_single_byte_detected :
  crc_detects_single_byte crc32c ->
  forall (recs : list bytes) (its : list item) (off v : N),
    let file := fst (log_append_all 0 recs) in
    file = bytes_of crc32c its ->
    layout_ok BLOCK_SIZE_BYTES HEADER_LENGTH_BYTES 0 its ->
    protected_offset HEADER_LENGTH_BYTES 0 its off = true ->
    v < 256 -> nth (N.to_nat off) file 0 < 256 -> v <> nth (N.to_nat off) file 0 ->
    blen file <= (off / BLOCK_SIZE_BYTES + 1) * BLOCK_SIZE_BYTES ->
    exists l1 x l2,
      recs = l1 ++ x ++ l2 /\ (length x <= 1)%nat /\
      log_read_all true (update_at (N.to_nat off) v file) = (l1 ++ l2, false).
Proof. exact log_single_byte_detected. Qed.
Print Assumptions C15a_log_single_byte_detected.

Theorem C15a_log_single_byte_no_invented_record :
  crc_detects_single_byte crc32c ->
  forall (recs : list bytes) (its : list item) (off v : N),
    let file := fst (log_append_all 0 recs) in
    file = bytes_of crc32c its ->
    layout_ok BLOCK_SIZE_BYTES HEADER_LENGTH_BYTES 0 its ->
    protected_offset HEADER_LENGTH_BYTES 0 its off = true ->
    v < 256 -> nth (N.to_nat off) file 0 < 256 -> v <> nth (N.to_nat off) file 0 ->
    blen file <= (off / BLOCK_SIZE_BYTES + 1) * BLOCK_SIZE_BYTES ->
    forall r, In r (fst (log_read_all true (update_at (N.to_nat off) v file))) -> In r recs.
Proof. exact log_single_byte_no_invented_record. Qed.
Print Assumptions C15a_log_single_byte_no_invented_record.

Theorem C15a_wal_single_byte_detected :
  crc_detects_single_byte crc32c ->
  forall (bs : list batch) (its : list item) (off v : N),
    batches_ok bs ->
    let file := wal_bytes bs in
    file = bytes_of crc32c its ->
    layout_ok BLOCK_SIZE_BYTES HEADER_LENGTH_BYTES 0 its ->
    protected_offset HEADER_LENGTH_BYTES 0 its off = true ->
    v < 256 -> nth (N.to_nat off) file 0 < 256 -> v <> nth (N.to_nat off) file 0 ->
    blen file <= (off / BLOCK_SIZE_BYTES + 1) * BLOCK_SIZE_BYTES ->
    exists b1 x b2,
      bs = b1 ++ x ++ b2 /\ (length x <= 1)%nat /\
      wal_recover (update_at (N.to_nat off) v file) = Some (b1 ++ b2).
Proof. exact wal_single_byte_detected. Qed.
Print Assumptions C15a_wal_single_byte_detected.

(** the checksum property is in fact a theorem of the model of CRC-32C *)
Theorem C15a_crc32c_detects_single_byte : crc_detects_single_byte crc32c.
Proof. exact crc32c_detects_single_byte. Qed.
Print Assumptions C15a_crc32c_detects_single_byte.

Theorem C15a_log_single_byte_detected_crc32c :
  forall (recs : list bytes) (its : list item) (off v : N),
    let file := fst (log_append_all 0 recs) in
    file = bytes_of crc32c its ->
    layout_ok BLOCK_SIZE_BYTES HEADER_LENGTH_BYTES 0 its ->
    protected_offset HEADER_LENGTH_BYTES 0 its off = true ->
    v < 256 -> nth (N.to_nat off) file 0 < 256 -> v <> nth (N.to_nat off) file 0 ->
    blen file <= (off / BLOCK_SIZE_BYTES + 1) * BLOCK_SIZE_BYTES ->
    exists l1 x l2,
      recs = l1 ++ x ++ l2 /\ (length x <= 1)%nat /\
      log_read_all true (update_at (N.to_nat off) v file) = (l1 ++ l2, false).
Proof. exact log_single_byte_detected_crc32c. Qed.
Print Assumptions C15a_log_single_byte_detected_crc32c.

(** with the fragment list the writer produced ([recs_items]): exactly one record is lost *)
Theorem C15a_log_single_byte_drops_one :
  crc_detects_single_byte crc32c ->
  forall (recs : list bytes) (off v : N),
    let file := fst (log_append_all 0 recs) in
    let its := recs_items BLOCK_SIZE_BYTES HEADER_LENGTH_BYTES 0 recs in
    protected_offset HEADER_LENGTH_BYTES 0 its off = true ->
    v < 256 -> nth (N.to_nat off) file 0 < 256 -> v <> nth (N.to_nat off) file 0 ->
    blen file <= (off / BLOCK_SIZE_BYTES + 1) * BLOCK_SIZE_BYTES ->
    file = bytes_of crc32c its /\
    layout_ok BLOCK_SIZE_BYTES HEADER_LENGTH_BYTES 0 its /\
    exists l1 r l2,
      recs = l1 ++ r :: l2 /\
      log_read_all true (update_at (N.to_nat off) v file) = (l1 ++ l2, false).
Proof. exact log_single_byte_drops_one. Qed.
Print Assumptions C15a_log_single_byte_drops_one.

Theorem C15a_log_single_byte_drops_one_crc32c :
  forall (recs : list bytes) (off v : N),
    let file := fst (log_append_all 0 recs) in
    let its := recs_items BLOCK_SIZE_BYTES HEADER_LENGTH_BYTES 0 recs in
    protected_offset HEADER_LENGTH_BYTES 0 its off = true ->
    v < 256 -> nth (N.to_nat off) file 0 < 256 -> v <> nth (N.to_nat off) file 0 ->
    blen file <= (off / BLOCK_SIZE_BYTES + 1) * BLOCK_SIZE_BYTES ->
    file = bytes_of crc32c its /\
    layout_ok BLOCK_SIZE_BYTES HEADER_LENGTH_BYTES 0 its /\
    exists l1 r l2,
      recs = l1 ++ r :: l2 /\
      log_read_all true (update_at (N.to_nat off) v file) = (l1 ++ l2, false).
Proof. exact log_single_byte_drops_one_crc32c. Qed.
Print Assumptions C15a_log_single_byte_drops_one_crc32c.

Theorem C15a_wal_single_byte_detected_crc32c :
  forall (bs : list batch) (its : list item) (off v : N),
    batches_ok bs ->
    let file := wal_bytes bs in
    file = bytes_of crc32c its ->
    layout_ok BLOCK_SIZE_BYTES HEADER_LENGTH_BYTES 0 its ->
    protected_offset HEADER_LENGTH_BYTES 0 its off = true ->
    v < 256 -> nth (N.to_nat off) file 0 < 256 -> v <> nth (N.to_nat off) file 0 ->
    blen file <= (off / BLOCK_SIZE_BYTES + 1) * BLOCK_SIZE_BYTES ->
    exists b1 x b2,
      bs = b1 ++ x ++ b2 /\ (length x <= 1)%nat /\
      wal_recover (update_at (N.to_nat off) v file) = Some (b1 ++ b2).
Proof. exact wal_single_byte_detected_crc32c. Qed.
Print Assumptions C15a_wal_single_byte_detected_crc32c.

Example C15a_example_corrupt_payload_drops_one :
  length ex_small_file = 64%nat /\
  wal_recover32 ex_small_file = Some ex_small /\
  wal_recover32 (update_at 40 77 ex_small_file) = Some [(1, [WDel [3]]); (3, [WDel [5]])].
Proof. exact ex_corrupt_payload_drops_one. Qed.
Print Assumptions C15a_example_corrupt_payload_drops_one.

Example C15a_example_corrupt_earlier_block_loses_more :
  wal_recover32 (update_at 24 77 ex_small_file) = Some [(1, [WDel [3]])] /\
  wal_recover32 (update_at 4 77 ex_small_file) = Some [].
Proof. exact ex_corrupt_earlier_block_loses_more. Qed.
Print Assumptions C15a_example_corrupt_earlier_block_loses_more.

Example C15a_example_theorem_applies :
  let recs := [[1; 2; 3]; [4; 5]] in
  protected_offset HEADER_LENGTH_BYTES 0 (recs_items BLOCK_SIZE_BYTES HEADER_LENGTH_BYTES 0 recs) 8
    = true /\
  protected_offset HEADER_LENGTH_BYTES 0 (recs_items BLOCK_SIZE_BYTES HEADER_LENGTH_BYTES 0 recs) 5
    = false /\
  log_read_all true (update_at 8 77 (fst (log_append_all 0 recs))) = ([[4; 5]], false) /\
  exists l1 r l2,
    recs = l1 ++ r :: l2 /\
    log_read_all true (update_at 8 77 (fst (log_append_all 0 recs))) = (l1 ++ l2, false).
Proof.
  cbv zeta. split; [vm_compute; reflexivity|]. split; [vm_compute; reflexivity|].
  split; [vm_compute; reflexivity|].
  apply (log_single_byte_drops_one_crc32c [[1; 2; 3]; [4; 5]] 8 77).
  - vm_compute. reflexivity.
  - vm_compute. reflexivity.
  - vm_compute. reflexivity.
  - vm_compute. intros E. discriminate E.
  - vm_compute. intros E. discriminate E.
Qed.
Print Assumptions C15a_example_theorem_applies.

(** * Table files below the block contents ([model/TableFile.v]): block trailers, handles, footer *)
From Coq Require Import List NArith Bool.
From RainVerif Require Import Params.
From RainVerif.model Require Import Bytes Crc Block LogScript TableFile.
From RainVerif.proofs Require Import TableFileProofs.
Import ListNotations.

(** T1: a stored block anywhere in a file is read back through its handle *)
Theorem C15b_read_stored : forall (pre p : bytes) (t : N) (post : bytes),
  t <= 1 ->
  read_block_at (pre ++ stored_block p t ++ post) (mkH (blen pre) (blen p)) = BOk p t.
Proof. exact read_stored. Qed.
Print Assumptions C15b_read_stored.

(** T2: every handle returned by the layout reads back its block *)
Theorem C15b_layout_read_back :
  forall (blocks : list (bytes * N)) (off : N) (bs : bytes) (handles : list handle)
         (pre post : bytes),
  layout_blocks off blocks = (bs, handles) ->
  blen pre = off ->
  Forall (fun b => snd b <= 1) blocks ->
  Forall2 (fun h b => read_block_at (pre ++ bs ++ post) h = BOk (fst b) (snd b)) handles blocks.
Proof. exact layout_read_back. Qed.
Print Assumptions C15b_layout_read_back.

(** T3: one changed byte of a stored block (payload, type byte or one of the four checksum
    bytes) is reported as a checksum mismatch *)
Theorem C15b_block_single_byte_detected : forall (pre p : bytes) (t : N) (post : bytes) (o v : N),
  is_bytes p -> t <= 1 ->
  blen pre <= o < blen pre + blen p + 5 ->
  v < 256 ->
  v <> nth (N.to_nat o) (pre ++ stored_block p t ++ post) 0 ->
  read_block_at (update_at (N.to_nat o) v (pre ++ stored_block p t ++ post))
                (mkH (blen pre) (blen p)) = BChecksum.
Proof. exact block_single_byte_detected. Qed.
Print Assumptions C15b_block_single_byte_detected.

(** T4 *)
Theorem C15b_handle_roundtrip : forall (h : handle) (rest : bytes),
  h_off h < 18446744073709551616 -> h_size h < 18446744073709551616 ->
  handle_decode (handle_encode h ++ rest) = Some (h, length (handle_encode h)) /\
  (length (handle_encode h) <= 20)%nat.
Proof. exact handle_roundtrip. Qed.
Print Assumptions C15b_handle_roundtrip.

(** T5 *)
Theorem C15b_footer_roundtrip : forall (m i : handle) (body : bytes),
  h_off m < 18446744073709551616 -> h_size m < 18446744073709551616 ->
  h_off i < 18446744073709551616 -> h_size i < 18446744073709551616 ->
  footer_decode (footer_encode m i) = Some (m, i) /\
  blen (footer_encode m i) = 48 /\
  file_footer (body ++ footer_encode m i) = Some (m, i).
Proof. exact footer_roundtrip. Qed.
Print Assumptions C15b_footer_roundtrip.

(** T6: a changed byte among the last eight of a footer *)
Theorem C15b_footer_magic_checked : forall (m i : handle) (k : nat) (v : N),
  (40 <= k < 48)%nat -> v < 256 -> v <> nth k (footer_encode m i) 0 ->
  footer_decode (update_at k v (footer_encode m i)) = None.
Proof. exact footer_magic_checked. Qed.
Print Assumptions C15b_footer_magic_checked.

(** the same for any 48 bytes that carry the magic number *)
Theorem C15b_magic_checked_any_footer : forall (b : bytes) (k : nat) (v : N),
  is_bytes b -> (40 <= k < 48)%nat -> v < 256 -> v <> nth k b 0 ->
  le_decode (skipn 40 b) = TABLE_MAGIC ->
  footer_decode (update_at k v b) = None.
Proof. exact magic_checked_gen. Qed.
Print Assumptions C15b_magic_checked_any_footer.

(** and at the level of a whole file *)
Theorem C15b_file_footer_magic_checked : forall (body : bytes) (m i : handle) (o v : N),
  h_off m < 18446744073709551616 -> h_size m < 18446744073709551616 ->
  h_off i < 18446744073709551616 -> h_size i < 18446744073709551616 ->
  blen body + 40 <= o < blen body + 48 -> v < 256 ->
  v <> nth (N.to_nat o) (body ++ footer_encode m i) 0 ->
  file_footer (update_at (N.to_nat o) v (body ++ footer_encode m i)) = None.
Proof. exact file_footer_magic_checked. Qed.
Print Assumptions C15b_file_footer_magic_checked.

(** * T7: examples by computation: three blocks (one with an empty payload, one of type 1) and a
    footer whose handles are those of the second and the third block *)

Example C15b_ex_file :
  ex_blocks = [([1; 2; 3; 250; 0; 7], 0); ([], 0); ([9; 9; 9; 128; 255], 1)] /\
  ex_file = fst (layout_blocks 0 ex_blocks) ++ footer_encode (mkH 11 0) (mkH 16 5) /\
  snd (layout_blocks 0 ex_blocks) = [mkH 0 6; mkH 11 0; mkH 16 5] /\
  blen ex_file = 74.
Proof. vm_compute. repeat split; reflexivity. Qed.

Example C15b_ex_handles_read_back :
  map (read_block_at ex_file) (snd (layout_blocks 0 ex_blocks)) =
  map (fun b => BOk (fst b) (snd b)) ex_blocks.
Proof. exact ex_handles_read_back. Qed.

Example C15b_ex_footer_decodes : file_footer ex_file = Some (mkH 11 0, mkH 16 5).
Proof. exact ex_footer_decodes. Qed.

Example C15b_ex_first_block_flips :
  forallb (fun o =>
    forallb (fun x =>
      block_read_eqb
        (read_block_at (update_at o (N.lxor (nth o ex_file 0) x) ex_file) (mkH 0 6))
        BChecksum) [1; 128; 255])
    (seq 0 11) = true.
Proof. exact ex_first_block_flips. Qed.

Example C15b_ex_other_block_flips :
  forallb (fun o =>
    forallb (fun x =>
      block_read_eqb
        (read_block_at (update_at o (N.lxor (nth o ex_file 0) x) ex_file) (mkH 11 0))
        BChecksum) [1; 128; 255])
    (seq 11 5) = true /\
  forallb (fun o =>
    forallb (fun x =>
      block_read_eqb
        (read_block_at (update_at o (N.lxor (nth o ex_file 0) x) ex_file) (mkH 16 5))
        BChecksum) [1; 128; 255])
    (seq 16 10) = true.
Proof. exact ex_other_block_flips. Qed.

Example C15b_ex_other_outcomes :
  read_block_at (update_at 12 77 ex_file) (mkH 0 6) = BOk [1; 2; 3; 250; 0; 7] 0 /\
  read_block_at (stored_block [5; 6] 2) (mkH 0 2) = BType /\
  read_block_at ex_file (mkH 70 10) = BShort.
Proof. exact ex_other_outcomes. Qed.

Example C15b_ex_magic_flips :
  forallb (fun o =>
    forallb (fun x =>
      match file_footer (update_at o (N.lxor (nth o ex_file 0) x) ex_file) with
      | None => true | Some _ => false end) [1; 128; 255])
    (seq (length ex_file - 8) 8) = true.
Proof. exact ex_magic_flips. Qed.

(** ** C15c — the type byte of a log fragment is not covered by its checksum: since the repair of
    D19 a changed type byte is still noticed everywhere but in the last fragment of the file,
    because the reader counts every fragment that its sequencing rules drop and manifest recovery
    rejects a file with dropped fragments *)
From RainVerif.model Require Import Key Table TableSpec Version Lsm DbSpec Codec WalModel Recover.
From RainVerif.proofs Require Import LogProofs LogXProofs LogTypeFlip ManifestFlip.
Open Scope N_scope.

Theorem C15c_written_log_well_sequenced : forall f recs boff, logfile f recs boff ->
  exists its, f = bytes_of crc32c its /\ layout_ok BLOCK_SIZE_BYTES HEADER_LENGTH_BYTES 0 its /\
              wellseq false its = true /\
              map fst (asm HEADER_LENGTH_BYTES 0 false [] its) = recs.
Proof. exact logfile_wellseq. Qed.
Print Assumptions C15c_written_log_well_sequenced.

Theorem C15c_type_flip_detected : forall its1 n t d its2 t',
  layout_ok BLOCK_SIZE_BYTES HEADER_LENGTH_BYTES 0 (its1 ++ It n t d :: its2) ->
  wellseq false (its1 ++ It n t d :: its2) = true ->
  its2 <> [] -> t' <= 3 -> t' <> t ->
  0 < rx_skipped (log_read_all_x (bytes_of crc32c (its1 ++ It n t' d :: its2))) /\
  rx_panic (log_read_all_x (bytes_of crc32c (its1 ++ It n t' d :: its2))) = false.
Proof. exact log_type_flip_detected. Qed.
Print Assumptions C15c_type_flip_detected.

Theorem C15c_type_byte_flip_detected : forall f recs boff, logfile f recs boff ->
  exists its, f = bytes_of crc32c its /\ layout_ok BLOCK_SIZE_BYTES HEADER_LENGTH_BYTES 0 its /\
    wellseq false its = true /\
    forall its1 n t d its2 t',
      its = its1 ++ It n t d :: its2 -> its2 <> [] -> t' <= 3 -> t' <> t ->
      let k := N.to_nat (size HEADER_LENGTH_BYTES its1 + n + 6) in
      nth k f 0 = t /\
      0 < rx_skipped (log_read_all_x (set_byte k t' f)) /\
      rx_panic (log_read_all_x (set_byte k t' f)) = false.
Proof. exact logfile_type_byte_flip. Qed.
Print Assumptions C15c_type_byte_flip_detected.

Theorem C15c_manifest_with_dropped_fragment_rejected : forall img c n file,
  i_current img = Some c -> parse_current c = Some n ->
  lookupN n (i_manifests img) = Some file ->
  0 < rx_skipped (log_read_all_x file) ->
  exists e, recover_image img = inr e.
Proof. exact recover_image_skipped. Qed.
Print Assumptions C15c_manifest_with_dropped_fragment_rejected.

Theorem C15c_manifest_type_byte_flip_rejected : forall f recs boff, logfile f recs boff ->
  exists its, f = bytes_of crc32c its /\
    forall its1 n t d its2 t' img c m,
      its = its1 ++ It n t d :: its2 -> its2 <> [] -> t' <= 3 -> t' <> t ->
      let k := N.to_nat (size HEADER_LENGTH_BYTES its1 + n + 6) in
      i_current img = Some c -> parse_current c = Some m ->
      lookupN m (i_manifests img) = Some (set_byte k t' f) ->
      nth k f 0 = t /\ exists e, recover_image img = inr e.
Proof. exact manifest_type_byte_flip_rejected. Qed.
Print Assumptions C15c_manifest_type_byte_flip_rejected.

(** the exception is real: the last fragment (here Full -> First) *)
Example C15c_ex_last_fragment_flip_not_detected :
  rx_skipped (log_read_all_x (set_byte 25 1 (fst (log_append_all 0 [[1; 2; 3]; [4; 5]; [6]])))) = 0 /\
  rx_skipped (log_read_all_x (set_byte 16 2 (fst (log_append_all 0 [[1; 2; 3]; [4; 5]; [6]])))) = 1.
Proof. vm_compute. split; reflexivity. Qed.

(** a handle that points beyond the end of the file (the usual result of a corrupted footer or index
    entry) reads as "short"; the correspondence driver relies on this instead of evaluating the
    model on offsets of up to 2^64 *)
Theorem C15b_block_beyond_eof_short : forall (file : bytes) (h : handle),
  blen file < h_off h + h_size h + BLOCK_TRAILER -> read_block_at file h = BShort.
Proof. exact read_block_at_beyond_eof. Qed.
Print Assumptions C15b_block_beyond_eof_short.
