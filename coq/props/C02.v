(** C02 — property theorems (statements + [exact] + [Print Assumptions] only). Codec round trips and crash atomicity of the write-ahead log for every cut point. *)
From Coq Require Import List NArith.
From RainVerif Require Import Params.
From RainVerif.model Require Import Bytes Key Block Crc Log LogScript Version Lsm DbSpec Codec WalModel.
From RainVerif.proofs Require Import KeyProofs LogProofs CodecProofs WalProofs.
Import ListNotations.
Open Scope N_scope.

(** * Codec round trips *)

Theorem C02a_varint_read_enc32 : forall n rest,
  n < 4294967296 -> varint_read 5 0 0 (varint_enc 10 n ++ rest) = Some (n, rest).
Proof. exact varint_read_enc32. Qed.
Print Assumptions C02a_varint_read_enc32.

Theorem C02a_varint_read_enc64 : forall n rest,
  n < 18446744073709551616 -> varint_read 10 0 0 (varint_enc 10 n ++ rest) = Some (n, rest).
Proof. exact varint_read_enc64. Qed.
Print Assumptions C02a_varint_read_enc64.

Theorem C02a_read_varint32_enc : forall n rest,
  n < 4294967296 -> read_varint32 (varint32 n ++ rest) = Some (n, rest).
Proof. exact read_varint32_enc. Qed.
Print Assumptions C02a_read_varint32_enc.

Theorem C02a_read_varint64_enc : forall n rest,
  n < 18446744073709551616 -> read_varint64 (varint64 n ++ rest) = Some (n, rest).
Proof. exact read_varint64_enc. Qed.
Print Assumptions C02a_read_varint64_enc.

Theorem C02a_read_slice_write : forall s rest,
  blen s < 4294967296 -> read_slice (write_slice s ++ rest) = Some (s, rest).
Proof. exact read_slice_write. Qed.
Print Assumptions C02a_read_slice_write.

Theorem C02a_batch_decode_encode : forall b : batch,
  batch_ok b = true -> batch_decode (batch_bytes b) = Some b.
Proof. exact batch_decode_encode. Qed.
Print Assumptions C02a_batch_decode_encode.

Theorem C02a_batch_decode_encode_app : forall (b : batch) rest,
  batch_ok b = true -> batch_decode (batch_bytes b ++ rest) = Some b.
Proof. exact batch_decode_encode_app. Qed.
Print Assumptions C02a_batch_decode_encode_app.

Theorem C02a_fmeta_decode_encode : forall f rest,
  fmeta_ok f = true -> fmeta_decode (fmeta_encode f ++ rest) = Some (f, rest).
Proof. exact fmeta_decode_encode. Qed.
Print Assumptions C02a_fmeta_decode_encode.

(** [vchange_ok]: option fields, file numbers and sizes below 2^64, levels below
    [MAX_NUM_LEVELS], keys bounded with encodings shorter than 2^32, no duplicate among the
    deleted files *)
Theorem C02a_vchange_decode_encode : forall c,
  vchange_ok c = true -> vchange_decode (vchange_encode c) = Some c.
Proof. exact vchange_decode_encode. Qed.
Print Assumptions C02a_vchange_decode_encode.

Theorem C02a_nodupb_NoDup : forall l, nodupb l = true <-> NoDup l.
Proof. exact nodupb_NoDup. Qed.
Print Assumptions C02a_nodupb_NoDup.

(** * Crash atomicity of one log file *)

Theorem C02a_wal_crash_atomic :
  forall (sessions : list (list batch)) (n : N),
    Forall (Forall (fun b => batch_ok b = true)) sessions ->
    let st := log_script_run (map (fun s => LSess s None) (map (map batch_bytes) sessions)) in
    fst st = wal_bytes_sessions sessions /\
    map fst (snd st) = map batch_bytes (concat sessions) /\
    exists k,
      wal_recover (takeN n (wal_bytes_sessions sessions)) = Some (firstn k (concat sessions)) /\
      forall j r e, nth_error (snd st) j = Some (r, e) -> (e <= n <-> (j < k)%nat).
Proof. exact wal_crash_atomic. Qed.
Print Assumptions C02a_wal_crash_atomic.

Theorem C02a_wal_crash_replay : forall sessions n m,
  Forall batches_ok sessions ->
  exists k recovered,
    wal_recover (takeN n (wal_bytes_sessions sessions)) = Some recovered /\
    recovered = firstn k (concat sessions) /\
    replay m recovered = replay m (firstn k (concat sessions)).
Proof. exact wal_crash_replay. Qed.
Print Assumptions C02a_wal_crash_replay.

Theorem C02a_wal_crash_complete : forall sessions n m,
  Forall batches_ok sessions ->
  blen (wal_bytes_sessions sessions) <= n ->
  wal_recover (takeN n (wal_bytes_sessions sessions))
    = Some (firstn (length (concat sessions)) (concat sessions)) /\
  wal_recover (takeN n (wal_bytes_sessions sessions)) = Some (concat sessions) /\
  replay m (concat sessions) = replay m (firstn (length (concat sessions)) (concat sessions)).
Proof. exact wal_crash_complete. Qed.
Print Assumptions C02a_wal_crash_complete.

Theorem C02a_wal_recover_all : forall sessions,
  Forall batches_ok sessions ->
  wal_recover (wal_bytes_sessions sessions) = Some (concat sessions).
Proof. exact wal_recover_all. Qed.
Print Assumptions C02a_wal_recover_all.

Theorem C02a_chained_last_seq : forall bs start,
  batches_chained start bs = true ->
  N.max start (recovered_last_seq bs) = start + total_ops bs.
Proof. exact chained_last_seq. Qed.
Print Assumptions C02a_chained_last_seq.

Theorem C02a_wal_crash_last_seq : forall sessions n start,
  Forall batches_ok sessions ->
  batches_chained start (concat sessions) = true ->
  exists k recovered,
    wal_recover (takeN n (wal_bytes_sessions sessions)) = Some recovered /\
    recovered = firstn k (concat sessions) /\
    batches_chained start recovered = true /\
    N.max start (recovered_last_seq recovered) = start + total_ops (firstn k (concat sessions)).
Proof. exact wal_crash_last_seq. Qed.
Print Assumptions C02a_wal_crash_last_seq.

(** * C16: torn tail, then continued use *)
(** * Non-vacuity (block size 32) *)

Example C02a_example_cut_everywhere :
  length ex_file = 124%nat /\ ex_ends = [24; 105; 124] /\
  forallb (fun n =>
             opt_batches_eqb
               (wal_recover32 (takeN (N.of_nat n) ex_file))
               (firstn (length (filter (fun e => e <=? N.of_nat n) ex_ends)) ex_batches))
          (seq 0 (S (length ex_file))) = true.
Proof. exact ex_cut_everywhere. Qed.
Print Assumptions C02a_example_cut_everywhere.

Example C02a_example_vchange_roundtrip :
  let k1 := mkIKey [1; 2] 7 OP_PUT in
  let k2 := mkIKey [9] 3 OP_DELETE in
  let c := mkVC (Some 5) None (Some 12) (Some 99) [(1, k1)] [(0, 4); (1, 4); (0, 6)]
                [(2, mkFM 13 4096 k1 k2)] in
  vchange_ok c = true /\ vchange_decode (vchange_encode c) = Some c.
Proof. vm_compute. split; reflexivity. Qed.
Print Assumptions C02a_example_vchange_roundtrip.

Example C02a_example_vchange_duplicate_collapses :
  let c := mkVC None None None None [] [(1, 5); (1, 5)] [] in
  vchange_ok c = false /\
  vchange_decode (vchange_encode c) = Some (mkVC None None None None [] [(1, 5)] []).
Proof. vm_compute. split; reflexivity. Qed.
Print Assumptions C02a_example_vchange_duplicate_collapses.

(** the hypotheses of the corruption theorem are satisfiable at the real block size: two records,
    byte 8 (payload of the first fragment) overwritten *)
