(** C02 — property theorems (statements + [exact] + [Print Assumptions] only). Codec round trips and crash atomicity of the write-ahead log for every cut point. *)
From Coq Require Import List NArith.
From RainVerif Require Import Params.
From RainVerif.model Require Import Bytes Key Block Crc Log LogScript Version Lsm DbSpec Codec WalModel.
From RainVerif.proofs Require Import KeyProofs LogProofs CodecProofs WalProofs.
Import ListNotations.
Open Scope N_scope.

(** * Codec round trips *)

Theorem C02a_varint_read_enc32 : forall n rest,
  n < 4294967296 -> varint_read 5 0 0 (varint_enc 10 n ++ rest) = Some (n, rest).
Proof. exact varint_read_enc32. Qed.
Print Assumptions C02a_varint_read_enc32.

Theorem C02a_varint_read_enc64 : forall n rest,
  n < 18446744073709551616 -> varint_read 10 0 0 (varint_enc 10 n ++ rest) = Some (n, rest).
Proof. exact varint_read_enc64. Qed.
Print Assumptions C02a_varint_read_enc64.

Theorem C02a_read_varint32_enc : forall n rest,
  n < 4294967296 -> read_varint32 (varint32 n ++ rest) = Some (n, rest).
Proof. exact read_varint32_enc. Qed.
Print Assumptions C02a_read_varint32_enc.

Theorem C02a_read_varint64_enc : forall n rest,
  n < 18446744073709551616 -> read_varint64 (varint64 n ++ rest) = Some (n, rest).
Proof. exact read_varint64_enc. Qed.
Print Assumptions C02a_read_varint64_enc.

Theorem C02a_read_slice_write : forall s rest,
  blen s < 4294967296 -> read_slice (write_slice s ++ rest) = Some (s, rest).
Proof. exact read_slice_write. Qed.
Print Assumptions C02a_read_slice_write.

Theorem C02a_batch_decode_encode : forall b : batch,
  batch_ok b = true -> batch_decode (batch_bytes b) = Some b.
Proof. exact batch_decode_encode. Qed.
Print Assumptions C02a_batch_decode_encode.

Theorem C02a_batch_decode_encode_app : forall (b : batch) rest,
  batch_ok b = true -> batch_decode (batch_bytes b ++ rest) = Some b.
Proof. exact batch_decode_encode_app. Qed.
Print Assumptions C02a_batch_decode_encode_app.

Theorem C02a_fmeta_decode_encode : forall f rest,
  fmeta_ok f = true -> fmeta_decode (fmeta_encode f ++ rest) = Some (f, rest).
Proof. exact fmeta_decode_encode. Qed.
Print Assumptions C02a_fmeta_decode_encode.

(** [vchange_ok]: option fields, file numbers and sizes below 2^64, levels below
    [MAX_NUM_LEVELS], keys bounded with encodings shorter than 2^32, no duplicate among the
    deleted files *)
Theorem C02a_vchange_decode_encode : forall c,
  vchange_ok c = true -> vchange_decode (vchange_encode c) = Some c.
Proof. exact vchange_decode_encode. Qed.
Print Assumptions C02a_vchange_decode_encode.

Theorem C02a_nodupb_NoDup : forall l, nodupb l = true <-> NoDup l.
Proof. exact nodupb_NoDup. Qed.
Print Assumptions C02a_nodupb_NoDup.

(** * Crash atomicity of one log file *)

Theorem C02a_wal_crash_atomic :
  forall (sessions : list (list batch)) (n : N),
    Forall (Forall (fun b => batch_ok b = true)) sessions ->
    let st := log_script_run (map (fun s => LSess s None) (map (map batch_bytes) sessions)) in
    fst st = wal_bytes_sessions sessions /\
    map fst (snd st) = map batch_bytes (concat sessions) /\
    exists k,
      wal_recover (takeN n (wal_bytes_sessions sessions)) = Some (firstn k (concat sessions)) /\
      forall j r e, nth_error (snd st) j = Some (r, e) -> (e <= n <-> (j < k)%nat).
Proof. exact wal_crash_atomic. Qed.
Print Assumptions C02a_wal_crash_atomic.

Theorem C02a_wal_crash_replay : forall sessions n m,
  Forall batches_ok sessions ->
  exists k recovered,
    wal_recover (takeN n (wal_bytes_sessions sessions)) = Some recovered /\
    recovered = firstn k (concat sessions) /\
    replay m recovered = replay m (firstn k (concat sessions)).
Proof. exact wal_crash_replay. Qed.
Print Assumptions C02a_wal_crash_replay.

Theorem C02a_wal_crash_complete : forall sessions n m,
  Forall batches_ok sessions ->
  blen (wal_bytes_sessions sessions) <= n ->
  wal_recover (takeN n (wal_bytes_sessions sessions))
    = Some (firstn (length (concat sessions)) (concat sessions)) /\
  wal_recover (takeN n (wal_bytes_sessions sessions)) = Some (concat sessions) /\
  replay m (concat sessions) = replay m (firstn (length (concat sessions)) (concat sessions)).
Proof. exact wal_crash_complete. Qed.
Print Assumptions C02a_wal_crash_complete.

Theorem C02a_wal_recover_all : forall sessions,
  Forall batches_ok sessions ->
  wal_recover (wal_bytes_sessions sessions) = Some (concat sessions).
Proof. exact wal_recover_all. Qed.
Print Assumptions C02a_wal_recover_all.

Theorem C02a_chained_last_seq : forall bs start,
  batches_chained start bs = true ->
  N.max start (recovered_last_seq bs) = start + total_ops bs.
Proof. exact chained_last_seq. Qed.
Print Assumptions C02a_chained_last_seq.

Theorem C02a_wal_crash_last_seq : forall sessions n start,
  Forall batches_ok sessions ->
  batches_chained start (concat sessions) = true ->
  exists k recovered,
    wal_recover (takeN n (wal_bytes_sessions sessions)) = Some recovered /\
    recovered = firstn k (concat sessions) /\
    batches_chained start recovered = true /\
    N.max start (recovered_last_seq recovered) = start + total_ops (firstn k (concat sessions)).
Proof. exact wal_crash_last_seq. Qed.
Print Assumptions C02a_wal_crash_last_seq.

(** * C16: torn tail, then continued use *)
(** * Non-vacuity (block size 32) *)

Example C02a_example_cut_everywhere :
  length ex_file = 124%nat /\ ex_ends = [24; 105; 124] /\
  forallb (fun n =>
             opt_batches_eqb
               (wal_recover32 (takeN (N.of_nat n) ex_file))
               (firstn (length (filter (fun e => e <=? N.of_nat n) ex_ends)) ex_batches))
          (seq 0 (S (length ex_file))) = true.
Proof. exact ex_cut_everywhere. Qed.
Print Assumptions C02a_example_cut_everywhere.

Example C02a_example_vchange_roundtrip :
  let k1 := mkIKey [1; 2] 7 OP_PUT in
  let k2 := mkIKey [9] 3 OP_DELETE in
  let c := mkVC (Some 5) None (Some 12) (Some 99) [(1, k1)] [(0, 4); (1, 4); (0, 6)]
                [(2, mkFM 13 4096 k1 k2)] in
  vchange_ok c = true /\ vchange_decode (vchange_encode c) = Some c.
Proof. vm_compute. split; reflexivity. Qed.
Print Assumptions C02a_example_vchange_roundtrip.

Example C02a_example_vchange_duplicate_collapses :
  let c := mkVC None None None None [] [(1, 5); (1, 5)] [] in
  vchange_ok c = false /\
  vchange_decode (vchange_encode c) = Some (mkVC None None None None [] [(1, 5)] []).
Proof. vm_compute. split; reflexivity. Qed.
Print Assumptions C02a_example_vchange_duplicate_collapses.

(** the hypotheses of the corruption theorem are satisfiable at the real block size: two records,
    byte 8 (payload of the first fragment) overwritten *)


(** * The persistence protocol ([Proto.v]) and recovery ([Recover.v]): crash safety of every run,
    every crash point, every tear length (side conditions [run_ok] / [run_okP], [crash_k] in
    [proofs/ProtoSteps.v], [proofs/ProtoInstall.v]; non-vacuity in [proofs/ProtoExamples.v]) *)
From Coq Require Import List NArith Bool Arith.
From RainVerif.model Require Import Table TableSpec Gc Recover Proto.
From RainVerif.proofs Require Import ContentsProofs ProtoDurable ProtoSteps ProtoOpen ProtoInstall ProtoProofs.

Theorem C02_current_roundtrip : forall n,
  n < 18446744073709551616 -> parse_current (current_contents n) = Some n.
Proof. exact current_roundtrip. Qed.
Print Assumptions C02_current_roundtrip.

(** * Recovery as a relation: what [recover_image] returns on a directory described by a durable view *)

Theorem C02_recover_durable : forall img dv, Durable img dv -> recover_image img = inl (rc_of img dv).
Proof. exact recover_durable. Qed.
Print Assumptions C02_recover_durable.

Theorem C02_recovered_seq_ge : forall img rc,
  recover_image img = inl rc ->
  forall w b, In w (rc_wals rc) -> In b (wr_batches w) -> batch_last_seq b <= rc_seq rc.
Proof. exact recovered_seq_ge. Qed.
Print Assumptions C02_recovered_seq_ge.

(** * M3: a single session from the empty directory, every crash point *)

Theorem C02_crash_safe_single_session : forall o rest,
  no_open_no_install rest = true ->
  run_ok prun_init (QOpen o :: rest) = true -> pr_failed (fst (p_run prun_init (QOpen o :: rest))) = false ->
  forall n torn, (n <= length (snd (p_run prun_init (QOpen o :: rest))))%nat ->
  crash_ok (crash_image empty_image (snd (p_run prun_init (QOpen o :: rest))) n torn)
           (firstn (crash_k prun_init (QOpen o :: rest) n torn) (acked_batches 0 (QOpen o :: rest))).
Proof. exact crash_safe_single_session. Qed.
Print Assumptions C02_crash_safe_single_session.

(** * M4: any number of sessions (close and reopen, any oracle) *)

Theorem C02_crash_safe : forall ops,
  run_ok prun_init ops = true -> pr_failed (fst (p_run prun_init ops)) = false ->
  forall n torn, (n <= length (snd (p_run prun_init ops)))%nat ->
  crash_ok (crash_image empty_image (snd (p_run prun_init ops)) n torn)
           (firstn (crash_k prun_init ops n torn) (acked_batches 0 ops)).
Proof. exact crash_safe. Qed.
Print Assumptions C02_crash_safe.

(** * M5: installs included, under [install_okb] and [install_preserves] at every install *)

Theorem C02_crash_safe_with_installs : forall ops,
  run_okP prun_init ops -> pr_failed (fst (p_run prun_init ops)) = false ->
  forall n torn, (n <= length (snd (p_run prun_init ops)))%nat ->
  crash_ok (crash_image empty_image (snd (p_run prun_init ops)) n torn)
           (firstn (crash_k prun_init ops n torn) (acked_batches 0 ops)).
Proof. exact crash_safe_P. Qed.
Print Assumptions C02_crash_safe_with_installs.

(** from any reachable state, not only the empty directory *)
Theorem C02_run_crash_safe : forall ops s acked,
  RInv s acked -> run_okP s ops -> pr_failed (fst (p_run s ops)) = false ->
  forall n torn, (n <= length (snd (p_run s ops)))%nat ->
  crash_ok (crash_image (pr_img s) (snd (p_run s ops)) n torn)
           (acked ++ firstn (crash_k s ops n torn) (acked_batches (nops acked) ops)).
Proof. exact run_crash_safe_P. Qed.
Print Assumptions C02_run_crash_safe.

(** nothing cut off: everything acknowledged is recovered *)
Theorem C02_crash_k_full : forall ops,
  run_okP prun_init ops -> pr_failed (fst (p_run prun_init ops)) = false ->
  crash_k prun_init ops (length (snd (p_run prun_init ops))) None = length (acked_batches 0 ops).
Proof. exact crash_k_full_P. Qed.
Print Assumptions C02_crash_k_full.

Theorem C02_clean_shutdown_recovers_all : forall ops,
  run_okP prun_init ops -> pr_failed (fst (p_run prun_init ops)) = false ->
  crash_ok (pr_img (fst (p_run prun_init ops))) (acked_batches 0 ops).
Proof. exact clean_shutdown_recovers_all_P. Qed.
Print Assumptions C02_clean_shutdown_recovers_all.

(** the database still opens after every crash *)
Theorem C02_crash_recovery_succeeds : forall ops,
  run_okP prun_init ops -> pr_failed (fst (p_run prun_init ops)) = false ->
  forall n torn, (n <= length (snd (p_run prun_init ops)))%nat ->
  let img := crash_image empty_image (snd (p_run prun_init ops)) n torn in
  i_current img = None \/
  exists rc, recover_image img = inl rc /\
     rec_contents img rc = replay [] (firstn (crash_k prun_init ops n torn) (acked_batches 0 ops)) /\
     rc_seq rc = nops (firstn (crash_k prun_init ops n torn) (acked_batches 0 ops)).
Proof. exact crash_recovery_succeeds_P. Qed.
Print Assumptions C02_crash_recovery_succeeds.

(** * The steps, one by one *)

Theorem C02_write_step : forall d acked b,
  InvE d acked -> write_okb d b = true ->
  let batch := (pd_seq d + 1, b) in
  let op := FsAppend (FWal (pd_wal d)) (fst (log_append (pd_wal_boff d) (batch_bytes batch))) in
  snd (p_write d b) = [op] /\
  pd_img (fst (p_write d b)) = apply_fsop (pd_img d) op /\
  pd_seq d = nops acked /\
  InvE (fst (p_write d b)) (acked ++ [batch]) /\
  Good (pd_img d) acked /\
  forall t, Good (apply_fsop (pd_img d) (FsAppend (FWal (pd_wal d)) (firstn t (fst (log_append (pd_wal_boff d) (batch_bytes batch))))))
                 (if (length (fst (log_append (pd_wal_boff d) (batch_bytes batch))) <=? t)%nat then acked ++ [batch] else acked).
Proof. exact write_step. Qed.
Print Assumptions C02_write_step.

Theorem C02_rotate_step : forall d acked,
  InvE d acked -> (pd_imm d <> None \/ rotate_okb d = true) ->
  pd_img (fst (p_rotate d)) = apply_fsops (pd_img d) (snd (p_rotate d)) /\
  InvE (fst (p_rotate d)) acked /\
  all_crash (fun i => Good i acked) (pd_img d) (snd (p_rotate d)).
Proof. exact rotate_step. Qed.
Print Assumptions C02_rotate_step.

Theorem C02_flush_step : forall d acked level size seq d' ops,
  InvE d acked -> (pd_imm d = None \/ flush_okb d level size seq = true) ->
  p_flush d level size seq = Some (d', ops) ->
  pd_img d' = apply_fsops (pd_img d) ops /\
  InvE d' acked /\
  all_crash (fun i => Good i acked) (pd_img d) ops.
Proof. exact flush_step. Qed.
Print Assumptions C02_flush_step.

Theorem C02_open_step : forall o img acked d' ops,
  Closed img acked -> open_okb o img = true ->
  p_open o img = Some (d', ops) ->
  pd_img d' = apply_fsops img ops /\
  InvE d' acked /\
  all_crash (fun i => crash_ok i acked) img ops.
Proof. exact open_step. Qed.
Print Assumptions C02_open_step.

Theorem C02_install_step : forall d acked deleted added pointers seq d' ops,
  InvE d acked ->
  install_okb d deleted added pointers seq = true ->
  install_preserves d deleted added pointers seq ->
  p_install d deleted added pointers seq = Some (d', ops) ->
  pd_img d' = apply_fsops (pd_img d) ops /\
  InvE d' acked /\
  all_crash (fun i => Good i acked) (pd_img d) ops.
Proof. exact install_step. Qed.
Print Assumptions C02_install_step.



From RainVerif.proofs Require Import ProtoCrash ProtoHistory.
(** * M7 (C02 + C16 in full): recovery from a crash image re-establishes the invariant.
    [Crashed img bs] ([proofs/ProtoCrash.v]): a directory as a clean shutdown or a crash leaves it (orphan
    tables / logs / temporary files / newer manifests, a torn tail of the last manifest or log record),
    from which [bs] must be recovered. Every crash image of every step is [Crashed]; [p_open] is correct
    on every [Crashed] image, and the images of a crash during that recovery are [Crashed] again. *)

Theorem C02_crashed_recovers : forall img bs, Crashed img bs -> crash_ok img bs.
Proof. exact Crashed_crash_ok. Qed.
Print Assumptions C02_crashed_recovers.

Theorem C02_open_step_crashed : forall o img bs d' ops,
  Crashed img bs -> open_okb o img = true ->
  p_open o img = Some (d', ops) ->
  pd_img d' = apply_fsops img ops /\
  InvE d' bs /\
  all_crash (fun i => Crashed i bs) img ops.
Proof. exact open_step_c. Qed.
Print Assumptions C02_open_step_crashed.

Theorem C02_write_step_crashed : forall d acked b,
  InvE d acked -> write_okb d b = true ->
  let batch := (pd_seq d + 1, b) in
  Crashed (pd_img d) acked /\
  forall t, Crashed (apply_fsop (pd_img d) (FsAppend (FWal (pd_wal d)) (firstn t (fst (log_append (pd_wal_boff d) (batch_bytes batch))))))
                    (if (length (fst (log_append (pd_wal_boff d) (batch_bytes batch))) <=? t)%nat then acked ++ [batch] else acked).
Proof. exact write_step_crashed. Qed.
Print Assumptions C02_write_step_crashed.

Theorem C02_rotate_step_crashed : forall d acked,
  InvE d acked -> (pd_imm d <> None \/ rotate_okb d = true) ->
  all_crash (fun i => Crashed i acked) (pd_img d) (snd (p_rotate d)).
Proof. exact rotate_step_crashed. Qed.
Print Assumptions C02_rotate_step_crashed.

Theorem C02_flush_step_crashed : forall d acked level size seq d' ops,
  InvE d acked -> (pd_imm d = None \/ flush_okb d level size seq = true) ->
  p_flush d level size seq = Some (d', ops) ->
  all_crash (fun i => Crashed i acked) (pd_img d) ops.
Proof. exact flush_step_crashed. Qed.
Print Assumptions C02_flush_step_crashed.

Theorem C02_install_step_crashed : forall d acked deleted added pointers seq d' ops,
  InvE d acked ->
  install_okb d deleted added pointers seq = true ->
  install_preserves d deleted added pointers seq ->
  p_install d deleted added pointers seq = Some (d', ops) ->
  all_crash (fun i => Crashed i acked) (pd_img d) ops.
Proof. exact install_step_crashed. Qed.
Print Assumptions C02_install_step_crashed.

(** every crash image of every run from a [Crashed] directory (or from an open database) is [Crashed] *)
Theorem C02_run_crash_safe_crashed : forall ops s acked,
  RInvC s acked -> run_okP s ops -> pr_failed (fst (p_run s ops)) = false ->
  pr_img (fst (p_run s ops)) = apply_fsops (pr_img s) (snd (p_run s ops)) /\
  RInvC (fst (p_run s ops)) (acked ++ acked_batches (nops acked) ops) /\
  forall n torn, (n <= length (snd (p_run s ops)))%nat ->
    Crashed (crash_image (pr_img s) (snd (p_run s ops)) n torn)
            (acked ++ firstn (crash_k s ops n torn) (acked_batches (nops acked) ops)).
Proof. exact run_crash_safe_c. Qed.
Print Assumptions C02_run_crash_safe_crashed.

(** one session (open ... then a crash anywhere or a clean end) from a [Crashed] directory *)
Theorem C02_session_safe : forall img bs s,
  Crashed img bs -> session_okP img s ->
  Crashed (session_end img s) (bs ++ session_keeps img (nops bs) s).
Proof. exact session_safe. Qed.
Print Assumptions C02_session_safe.

(** histories with crashes in the middle: every session opens what the previous one left *)
Theorem C02_history_safe : forall h img bs,
  Crashed img bs -> hist_okP img h ->
  Crashed (fst (hist_end img bs h)) (snd (hist_end img bs h)).
Proof. exact history_safe. Qed.
Print Assumptions C02_history_safe.

Theorem C02_history_safe_from_empty : forall h,
  hist_ok empty_image h = true ->
  crash_ok (fst (hist_end empty_image [] h)) (snd (hist_end empty_image [] h)).
Proof. exact history_safe_b. Qed.
Print Assumptions C02_history_safe_from_empty.

(** C16: after a crash (e.g. a torn log tail), a session that reopens (any oracle, either reuse setting), writes,
    and ends cleanly or in a later crash keeps what the crash preserved and its own acknowledged prefix *)
Theorem C02_writes_after_recovery_survive : forall img bs s,
  Crashed img bs -> session_okP img s ->
  (i_current (session_end img s) = None /\ bs ++ session_keeps img (nops bs) s = []) \/
  exists rc, recover_image (session_end img s) = inl rc /\
     rec_contents (session_end img s) rc = replay [] (bs ++ session_keeps img (nops bs) s) /\
     rc_seq rc = nops (bs ++ session_keeps img (nops bs) s).
Proof. exact writes_after_recovery_survive. Qed.
Print Assumptions C02_writes_after_recovery_survive.
