(** C17 — property theorems (statements + [exact] + [Print Assumptions] only). *)
From RainVerif.model Require Import LockOwner.
From RainVerif.proofs Require Import LockProofs.
Open Scope N_scope.

(** in every state reachable by any interleaving of open / close / destroy actions at most one
    handle is open, and the open handles are exactly the owner of the lock *)
Theorem C17_single_owner : forall acts, single_owner (fst (run world_init acts)).
Proof. exact (fun acts => run_single_owner acts world_init single_owner_init). Qed.
Print Assumptions C17_single_owner.

Theorem C17_at_most_one_open : forall acts, (length (w_open (fst (run world_init acts))) <= 1)%nat.
Proof. exact at_most_one_open. Qed.
Print Assumptions C17_at_most_one_open.

(** a failed open or destroy does not disturb anything *)
Theorem C17_failed_action_no_effect : forall w a, snd (step w a) <> OOk -> fst (step w a) = w.
Proof. exact failed_action_no_effect. Qed.
Print Assumptions C17_failed_action_no_effect.

(** while a handle is open, every further open and every destroy_database fails *)
Theorem C17_open_excludes : forall w h a,
  single_owner w -> In h (w_open w) ->
  (match a with AClose _ => False | _ => True end) ->
  snd (step w a) = OErr.
Proof. exact open_excludes. Qed.
Print Assumptions C17_open_excludes.

(** after the owner has closed, exactly one of any non-empty set of racing opens succeeds *)
Theorem C17_racing_opens_exactly_one : forall w hs,
  w_lock w = None -> hs <> [] -> count_ok (snd (run w (map AOpen hs))) = 1%nat.
Proof. exact racing_opens_exactly_one. Qed.
Print Assumptions C17_racing_opens_exactly_one.

Example C17_example :
  snd (run world_init [AOpen 1; AOpen 2; ADestroy; AClose 1; AOpen 3; AOpen 4; AClose 3; ADestroy; AOpen 5])
  = [OOk; OErr; OErr; OOk; OOk; OErr; OOk; OOk; OOk].
Proof. vm_compute. reflexivity. Qed.

(** * destroy_database is not atomic: the refined model [LockPhases.v] *)
From RainVerif.model Require Import LockOwner LockPhases.
From RainVerif.proofs Require Import LockPhasesProofs.


(** T1: repaired code, every interleaving of open / close / destroy steps: at most one handle is
    open and it holds the lock on the LOCK file that is there *)
Theorem C17b_one_owner : forall acts, one_owner (fst (prun true pworld_init acts)).
Proof. exact repaired_one_owner. Qed.
Print Assumptions C17b_one_owner.

Theorem C17b_at_most_one_open :
  forall acts, (length (pw_open (fst (prun true pworld_init acts))) <= 1)%nat.
Proof. exact repaired_at_most_one_open. Qed.
Print Assumptions C17b_at_most_one_open.

(** nobody is ever left with a lock on an unlinked LOCK inode *)
Theorem C17b_no_orphan_lock : forall acts, pw_orphan (fst (prun true pworld_init acts)) = [].
Proof. exact repaired_no_orphan. Qed.
Print Assumptions C17b_no_orphan_lock.

(** the destroyer holds the lock exactly while it is parked before the unlink *)
Theorem C17b_destroyer_holds_lock : forall acts,
  let w := fst (prun true pworld_init acts) in
  pw_dphase w = 1 <-> pw_lock w = Some OwnD.
Proof. exact repaired_destroyer_holds_lock. Qed.
Print Assumptions C17b_destroyer_holds_lock.

(** T2: an open is refused whenever somebody holds the lock; the only thing it changes is that the
    database directories exist ([DB::open] creates them before it tries the lock) *)
Theorem C17b_refused_open_effect : forall b w h o,
  pw_lock w = Some o -> pstep b w (POpenH h) = (with_files w, PErr).
Proof. exact refused_open_effect. Qed.
Print Assumptions C17b_refused_open_effect.

(** while a handle is open every further open fails and changes nothing (the directories are
    there already) *)
Theorem C17b_open_excludes_open : forall w h h',
  preach true w -> pw_open w = [h] -> pstep true w (POpenH h') = (w, PErr).
Proof. exact open_excludes_open. Qed.
Print Assumptions C17b_open_excludes_open.

(** ... and a [destroy_database] call fails at its first step and changes nothing *)
Theorem C17b_open_excludes_destroy : forall w h,
  preach true w -> pw_open w = [h] -> pw_dphase w = 0 -> pstep true w PDestroyStart = (w, PErr).
Proof. exact open_excludes_destroy. Qed.
Print Assumptions C17b_open_excludes_destroy.

(** in any phase the first destroy step changes nothing while a handle is open; it answers [PNone]
    (not enabled) instead of [PErr] when the destroyer is already parked in phase 2 *)
Theorem C17b_open_excludes_destroy_any : forall w h,
  preach true w -> pw_open w = [h] ->
  pstep true w PDestroyStart = (w, if pw_dphase w =? 0 then PErr else PNone).
Proof. exact open_excludes_destroy_any. Qed.
Print Assumptions C17b_open_excludes_destroy_any.

(** while the destroyer is parked before the unlink every open fails; nothing changes except that
    the database directories are there again *)
Theorem C17b_destroying_excludes_open : forall w h,
  preach true w -> pw_dphase w = 1 -> pstep true w (POpenH h) = (with_files w, PErr).
Proof. exact destroying_excludes_open. Qed.
Print Assumptions C17b_destroying_excludes_open.

(** T3: a failed action changes nothing, except that the last destroy step, failing because the
    directory is not empty, ends the destroyer (phase 2 -> 0, nothing else), and that a refused
    open leaves the database directories behind *)
Theorem C17b_failed_action_effect : forall w a,
  snd (pstep true w a) = PErr \/ snd (pstep true w a) = PNone ->
  match a, snd (pstep true w a) with
  | PDestroyFinish, PErr =>
      pw_dphase w = 2 /\ (pw_files w || pw_lockfile w) = true /\
      fst (pstep true w a) = reset_phase w
  | POpenH _, PErr => pw_lock w <> None /\ fst (pstep true w a) = with_files w
  | _, _ => fst (pstep true w a) = w
  end.
Proof. exact (failed_action_effect true). Qed.
Print Assumptions C17b_failed_action_effect.

Theorem C17b_failed_action_no_effect : forall w a,
  snd (pstep true w a) = PErr \/ snd (pstep true w a) = PNone ->
  a <> PDestroyFinish -> (forall h, a <> POpenH h) -> fst (pstep true w a) = w.
Proof. exact (failed_action_no_effect true). Qed.
Print Assumptions C17b_failed_action_no_effect.

Theorem C17b_failed_open_no_effect_when_open : forall w h h',
  preach true w -> pw_open w = [h] -> fst (pstep true w (POpenH h')) = w.
Proof. exact failed_open_no_effect_when_open. Qed.
Print Assumptions C17b_failed_open_no_effect_when_open.

(** T4: the original order (release the lock, then unlink LOCK) lets two handles be open at once *)
Theorem C17b_original_two_owners :
  ~ one_owner (fst (prun false pworld_init race_schedule)) /\
  length (pw_open (fst (prun false pworld_init race_schedule))) = 2%nat /\
  snd (prun false pworld_init race_schedule) = [POk; POk; PParked; POk; PParked; POk] /\
  pw_orphan (fst (prun false pworld_init race_schedule)) = [OwnH 2] /\
  pw_open (fst (prun false pworld_init race_schedule)) = [3; 2].
Proof. exact original_two_owners. Qed.
Print Assumptions C17b_original_two_owners.

Theorem C17b_original_not_single_owner :
  exists acts, ~ one_owner (fst (prun false pworld_init acts)) /\
               length (pw_open (fst (prun false pworld_init acts))) = 2%nat.
Proof. exact original_not_single_owner. Qed.
Print Assumptions C17b_original_not_single_owner.

(** the same schedule against the repaired code: the racing open is refused *)
Theorem C17b_repaired_on_race_schedule :
  snd (prun true pworld_init race_schedule) = [POk; POk; PParked; PErr; PParked; POk] /\
  pw_open (fst (prun true pworld_init race_schedule)) = [3] /\
  pw_orphan (fst (prun true pworld_init race_schedule)) = [] /\
  snd (prun true pworld_init (race_schedule ++ [PDestroyFinish; PDestroyStart])) =
    [POk; POk; PParked; PErr; PParked; POk; PErr; PErr].
Proof. exact repaired_on_race_schedule. Qed.
Print Assumptions C17b_repaired_on_race_schedule.

(** T5: a destroy whose three steps run back to back is the atomic destroy of [LockOwner.v] *)
Theorem C17b_destroy_alone_succeeds : forall w,
  preach true w -> pw_dphase w = 0 -> pw_lock w = None -> (pw_files w || pw_lockfile w) = true ->
  prun true w destroy_steps = (mkPW None [] [] false false 0, [PParked; PParked; POk]) /\
  pw_open w = [].
Proof. exact destroy_alone_succeeds. Qed.
Print Assumptions C17b_destroy_alone_succeeds.

Theorem C17b_destroy_alone_fails : forall w h,
  preach true w -> pw_dphase w = 0 -> pw_open w = [h] ->
  prun true w destroy_steps = (w, [PErr; PNone; PNone]).
Proof. exact destroy_alone_fails. Qed.
Print Assumptions C17b_destroy_alone_fails.

Theorem C17b_destroy_refines_atomic : forall g w,
  preach true w -> pw_dphase w = 0 ->
  let r := prun true w destroy_steps in
  let s := step (abs_world g w) ADestroy in
  snd s = abs_outs (snd r) /\
  fst s = abs_world (match snd s with OOk => g + 1 | _ => g end) (fst r) /\
  (snd r = [PParked; PParked; POk] \/ snd r = [PErr; PNone; PNone] /\ fst r = w).
Proof. exact destroy_refines_atomic. Qed.
Print Assumptions C17b_destroy_refines_atomic.

(** the hypotheses above are satisfiable *)
Example C17b_hyps_sat_destroy_succeeds :
  let w := fst (prun true pworld_init [POpenH 1; PCloseH 1]) in
  preach true w /\ pw_dphase w = 0 /\ pw_lock w = None /\ (pw_files w || pw_lockfile w) = true.
Proof. exact destroy_alone_hyps_sat. Qed.

Example C17b_hyps_sat_handle_open :
  let w := fst (prun true pworld_init [POpenH 1]) in
  preach true w /\ pw_dphase w = 0 /\ pw_open w = [1].
Proof. exact destroy_fails_hyps_sat. Qed.

Example C17b_hyps_sat_phase1 :
  let w := fst (prun true pworld_init [POpenH 1; PCloseH 1; PDestroyStart]) in
  preach true w /\ pw_dphase w = 1.
Proof. exact phase1_hyps_sat. Qed.

(** "every destroy-start answers PErr while a handle is open" is false without [pw_dphase w = 0] *)
Example C17b_destroy_start_phase2 :
  let w := fst (prun true pworld_init [POpenH 1; PCloseH 1; PDestroyStart; PDestroyUnlink; POpenH 2]) in
  pw_open w = [2] /\ pw_dphase w = 2 /\ pstep true w PDestroyStart = (w, PNone).
Proof. exact open_destroy_start_phase2. Qed.

(** an open refused while the destroyer is parked re-creates the directories, so the destroyer's
    final removal of the directory fails; no handle is open at the end *)
Example C17b_refused_open_spoils_destroy :
  let acts := [POpenH 1; PCloseH 1; PDestroyStart; POpenH 2; PDestroyUnlink; PDestroyFinish] in
  snd (prun true pworld_init acts) = [POk; POk; PParked; PErr; PParked; PErr] /\
  pw_open (fst (prun true pworld_init acts)) = [] /\
  pw_lock (fst (prun true pworld_init acts)) = None /\
  pw_files (fst (prun true pworld_init acts)) = true /\
  pw_dphase (fst (prun true pworld_init acts)) = 0.
Proof. exact refused_open_spoils_destroy. Qed.

(** ** C17c — [FileSystem::lock_file] in its two system calls (open the LOCK file, then flock it),
    flocks attached to inodes, [destroy_database] unlinking the name in between: the repaired code
    (the name is looked up again after the flock, [verify = true]) keeps a single owner in every
    interleaving; the pinned code is refuted (defect D20) *)
From RainVerif.model Require Import LockFd.
From RainVerif.proofs Require Import LockFdProofs.

Theorem C17c_lockfd_single_owner : forall acts, f_one_owner (fst (frun true fworld_init acts)).
Proof. exact lockfd_single_owner. Qed.
Print Assumptions C17c_lockfd_single_owner.

Theorem C17c_lockfd_single_owner_always : forall acts, Forall f_one_owner (ftrace true fworld_init acts).
Proof. exact lockfd_single_owner_always. Qed.
Print Assumptions C17c_lockfd_single_owner_always.

Theorem C17c_lockfd_refused_while_open : forall w h0,
  finv w -> fw_open w = [h0] ->
  (forall h, h <> h0 -> ~ In h (map fst (fw_fds w)) ->
     snd (fstep true w (LfOpen h)) = LfErr /\ fw_open (fst (fstep true w (LfOpen h))) = fw_open w /\
     fst (fstep true w (LfOpen h)) = w) /\
  (forall h i, lookup_fd h (fw_fds w) = Some i ->
     snd (fstep true w (LfLock h)) = LfErr /\ fw_open (fst (fstep true w (LfLock h))) = fw_open w /\
     fw_locks (fst (fstep true w (LfLock h))) = fw_locks w /\
     fw_cur (fst (fstep true w (LfLock h))) = fw_cur w) /\
  snd (fstep true w LfDestroy) = LfErr /\ fst (fstep true w LfDestroy) = w.
Proof. exact lockfd_refused_while_open. Qed.
Print Assumptions C17c_lockfd_refused_while_open.

Theorem C17c_lockfd_reachable_inv : forall w, freach true w -> finv w.
Proof. exact freach_finv. Qed.
Print Assumptions C17c_lockfd_reachable_inv.

Theorem C17c_lockfd_race_one_winner : forall w a b acts,
  finv w -> fw_open w = [] -> fw_fds w = [] -> a <> b -> In acts (race_orders a b) ->
  lock_oks acts (snd (frun true w acts)) = 1%nat /\
  length (lock_outs acts (snd (frun true w acts))) = 2%nat /\
  length (fw_open (fst (frun true w acts))) = 1%nat.
Proof. exact lockfd_race_one_winner. Qed.
Print Assumptions C17c_lockfd_race_one_winner.

Theorem C17c_lockfd_pinned_refuted : exists acts, ~ f_one_owner (fst (frun false fworld_init acts)).
Proof. exact lockfd_pinned_refuted. Qed.
Print Assumptions C17c_lockfd_pinned_refuted.

Example C17c_lockfd_repaired_on_race_schedule :
  snd (frun true fworld_init fd_race_schedule) = [LfParked; LfOk; LfOk; LfErr] /\
  fw_open (fst (frun true fworld_init fd_race_schedule)) = [2] /\
  fw_locks (fst (frun true fworld_init fd_race_schedule)) = [(1, 2)] /\
  fw_fds (fst (frun true fworld_init fd_race_schedule)) = [].
Proof. exact lockfd_repaired_on_race_schedule. Qed.
