(** C17 — property theorems (statements + [exact] + [Print Assumptions] only). *)
From RainVerif.model Require Import LockOwner.
From RainVerif.proofs Require Import LockProofs.
Open Scope N_scope.

(** in every state reachable by any interleaving of open / close / destroy actions at most one
    handle is open, and the open handles are exactly the owner of the lock *)
Theorem C17_single_owner : forall acts, single_owner (fst (run world_init acts)).
Proof. exact (fun acts => run_single_owner acts world_init single_owner_init). Qed.
Print Assumptions C17_single_owner.

Theorem C17_at_most_one_open : forall acts, (length (w_open (fst (run world_init acts))) <= 1)%nat.
Proof. exact at_most_one_open. Qed.
Print Assumptions C17_at_most_one_open.

(** a failed open or destroy does not disturb anything *)
Theorem C17_failed_action_no_effect : forall w a, snd (step w a) <> OOk -> fst (step w a) = w.
Proof. exact failed_action_no_effect. Qed.
Print Assumptions C17_failed_action_no_effect.

(** while a handle is open, every further open and every destroy_database fails *)
Theorem C17_open_excludes : forall w h a,
  single_owner w -> In h (w_open w) ->
  (match a with AClose _ => False | _ => True end) ->
  snd (step w a) = OErr.
Proof. exact open_excludes. Qed.
Print Assumptions C17_open_excludes.

(** after the owner has closed, exactly one of any non-empty set of racing opens succeeds *)
Theorem C17_racing_opens_exactly_one : forall w hs,
  w_lock w = None -> hs <> [] -> count_ok (snd (run w (map AOpen hs))) = 1%nat.
Proof. exact racing_opens_exactly_one. Qed.
Print Assumptions C17_racing_opens_exactly_one.

Example C17_example :
  snd (run world_init [AOpen 1; AOpen 2; ADestroy; AClose 1; AOpen 3; AOpen 4; AClose 3; ADestroy; AOpen 5])
  = [OOk; OErr; OErr; OOk; OOk; OErr; OOk; OOk; OOk].
Proof. vm_compute. reflexivity. Qed.
