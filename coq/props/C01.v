(** C01 — point lookups ([DB::get] / [Version::get]): property theorems (statements + [exact]
    + [Print Assumptions] only), and evaluated examples. *)
From RainVerif Require Import Params.
From RainVerif.model Require Import Bytes Key Block Table TableSpec Version Lsm LsmSpec DbSpec.
From RainVerif.proofs Require Import GetProofs.
Open Scope N_scope.
(** * Part a: the lookup path returns what a reader must see; writes update it like a map *)


(** the point-lookup path returns what a reader at sequence [q] must see, wherever the data
    lives; no bound on [q] is needed (the operation tag of the lookup key does not take part in
    the order) *)
Theorem C01_db_get_correct :
  forall (s : lsm) (k : bytes) (q : N),
    lsm_wf_b s = true ->
    db_get_at s k q = visible (all_entries s) q k.
Proof. exact db_get_correct. Qed.
Print Assumptions C01_db_get_correct.

Theorem C01_db_get_current :
  forall (s : lsm) (k : bytes),
    lsm_wf_b s = true -> db_get s k = visible (all_entries s) (l_seq s) k.
Proof. exact db_get_current. Qed.
Print Assumptions C01_db_get_current.

Theorem C01_db_get_contents :
  forall (s : lsm),
    lsm_wf_b s = true ->
    forall k, db_get s k = map_get k (contents (all_entries s) (l_seq s)).
Proof. exact db_get_contents. Qed.
Print Assumptions C01_db_get_contents.

(** a write batch keeps the invariant, and afterwards every lookup agrees with the sorted-map
    semantics of the batch *)
Theorem C01_write_preserves_wf :
  forall (d1fix d14fix : bool) (mfs : N) (b : list wop) (s : lsm),
    lsm_wf_b s = true -> lsm_wf_b (lsm_step d1fix d14fix mfs s (SWrite b)) = true.
Proof. exact write_wf. Qed.
Print Assumptions C01_write_preserves_wf.

Theorem C01_write_then_get :
  forall (d1fix d14fix : bool) (mfs : N) (s : lsm) (b : list wop),
    lsm_wf_b s = true ->
    forall k, db_get (lsm_step d1fix d14fix mfs s (SWrite b)) k
              = map_get k (map_apply (contents (all_entries s) (l_seq s)) b).
Proof. exact C01_write_then_get_proof. Qed.
Print Assumptions C01_write_then_get.

(** ** the steps *)

(** one sorted run *)
Theorem C01_run_get_visible :
  forall (es : list entry) (k : bytes) (q op : N),
    sorted_entries es = true ->
    match get_spec es (mkIKey k q op) with GFound v => Some v | _ => None end = visible es q k.
Proof. exact run_get_visible. Qed.
Print Assumptions C01_run_get_visible.

Theorem C01_run_get_not_found_iff :
  forall (es : list entry) (k : bytes) (q op : N),
    sorted_entries es = true ->
    (get_spec es (mkIKey k q op) = GNotFound <->
     forall e, In e es -> ~ (ik_user (fst e) = k /\ ik_seq (fst e) <= q)).
Proof. exact run_get_not_found_iff. Qed.
Print Assumptions C01_run_get_not_found_iff.

(** sources in recency order *)
Theorem C01_sources_get_visible :
  forall (srcs : list (list entry)) (k : bytes) (q op : N),
    forallb sorted_entries srcs = true -> recency_ok srcs = true ->
    match first_answer srcs (mkIKey k q op) with GFound v => Some v | _ => None end
    = visible (concat srcs) q k.
Proof. exact sources_get_visible. Qed.
Print Assumptions C01_sources_get_visible.

(** level 0: the selection is the recency-ordered file list restricted to the files whose
    user-key range contains the key, and the files left out cannot answer *)
Theorem C01_l0_selection_order :
  forall (p : fmeta -> bool) (l : list fmeta),
    filter p (sort_by_num_desc l) = sort_by_num_desc (filter p l).
Proof. exact filter_sort_num. Qed.
Print Assumptions C01_l0_selection_order.

Theorem C01_l0_select :
  forall (fe : N -> list entry) (l0 : list fmeta) (t : ikey),
    (forall f, In f l0 -> file_bounds_ok (fe (fm_num f)) f = true) ->
    first_answer (map (fun f => fe (fm_num f)) (overlapping_files_l0 l0 (ik_user t))) t
    = first_answer (map (fun f => fe (fm_num f)) (sort_by_num_desc l0)) t.
Proof. exact l0_select_answer. Qed.
Print Assumptions C01_l0_select.

(** levels >= 1: the binary search finds the first file whose largest key is not below the
    target, and that file answers for the whole sorted run of the level *)
Theorem C01_find_file_upper_bound :
  forall (fs : list fmeta) (target : ikey),
    (forall i j fi fj, (i < j)%nat -> nth_error fs i = Some fi -> nth_error fs j = Some fj ->
                       ikey_lt (fm_large fi) (fm_large fj)) ->
    match find_file_upper_bound fs target with
    | None => forall f, In f fs -> ikey_ltb (fm_large f) target = true
    | Some i =>
        exists pre f post, fs = pre ++ f :: post /\ length pre = i /\
          (forall g, In g pre -> ikey_ltb (fm_large g) target = true) /\
          ikey_ltb (fm_large f) target = false
    end.
Proof. exact find_file_upper_bound_spec. Qed.
Print Assumptions C01_find_file_upper_bound.

Theorem C01_level_select :
  forall (fe : N -> list entry) (fs : list fmeta) (t : ikey),
    (forall f, In f fs -> file_bounds_ok (fe (fm_num f)) f = true) ->
    sorted_entries (flat_map (fun f => fe (fm_num f)) fs) = true ->
    first_answer (map (fun f => fe (fm_num f)) (overlapping_files_level fs t)) t
    = get_spec (flat_map (fun f => fe (fm_num f)) fs) t.
Proof. exact level_select_answer. Qed.
Print Assumptions C01_level_select.

(** the files searched by [Version::get] answer like all level-0 files newest first followed by
    the whole level runs *)
Theorem C01_version_sources :
  forall (s : lsm) (t : ikey),
    shape_ok (l_ver s) (file_entries s) = true ->
    forallb sorted_entries (sources s) = true ->
    first_answer (version_sources s t) t =
    first_answer (map (fun f => file_entries s (fm_num f))
                      (sort_by_num_desc (level_files (l_ver s) O))
                  ++ map (level_run s) (tl (l_ver s))) t.
Proof. exact version_sources_answer. Qed.
Print Assumptions C01_version_sources.

(** ** the invariant is needed *)

(** a level-0 file with the higher number holding the older version: everything but
    [recency_ok] holds, and the lookup returns the stale value *)
Theorem C01_recency_needed :
  exists s k q,
    shape_ok (l_ver s) (file_entries s) = true /\
    forallb sorted_entries (sources s) = true /\
    forallb (forallb (entry_ok (l_seq s))) (sources s) = true /\
    recency_ok (sources s) = false /\
    lsm_wf_b s = false /\
    db_get_at s k q <> visible (all_entries s) q k.
Proof. exact recency_needed. Qed.
Print Assumptions C01_recency_needed.

(** a level 1 whose files are not in key order: the binary search misses the file *)
Theorem C01_level_order_needed :
  exists s k q,
    recency_ok (sources s) = true /\
    lsm_wf_b s = false /\
    db_get_at s k q <> visible (all_entries s) q k.
Proof. exact level_order_needed. Qed.
Print Assumptions C01_level_order_needed.

(** ** non-vacuity: [ex_state] has a memtable, an immutable memtable, two overlapping level-0
    files, a two-file level 1 in which the versions of "b" straddle the two files, and a
    tombstone for "d" in level 0 above a value in level 2 *)
Example ex_state_wf : lsm_wf_b ex_state = true.
Proof. vm_compute. reflexivity. Qed.

Example ex_l0_overlap :
  map fm_num (overlapping_files_l0 (level_files (l_ver ex_state) 0) kb) = [11; 10].
Proof. vm_compute. reflexivity. Qed.

Example ex_get_now :
  (db_get ex_state ka, db_get ex_state kb, db_get ex_state kc, db_get ex_state kd,
   db_get ex_state ke)
  = (None, Some [2; 6], Some [3; 14], None, None).
Proof. vm_compute. reflexivity. Qed.

(** "a" below the deletion in the immutable memtable: the newer level-0 file answers *)
Example ex_get_a_12 : db_get_at ex_state ka 12 = Some [1; 12].
Proof. vm_compute. reflexivity. Qed.
Example ex_get_a_8 : db_get_at ex_state ka 8 = Some [1; 7].
Proof. vm_compute. reflexivity. Qed.
Example ex_get_a_5 : db_get_at ex_state ka 5 = Some [1; 3].
Proof. vm_compute. reflexivity. Qed.
(** the tombstone at 9 hides the level-2 value; below it the value is visible *)
Example ex_get_d_9 : db_get_at ex_state kd 9 = None.
Proof. vm_compute. reflexivity. Qed.
Example ex_get_d_8 : db_get_at ex_state kd 8 = Some [4; 1].
Proof. vm_compute. reflexivity. Qed.
(** "b": 6 in the first level-1 file, 4 in the second, 2 in level 2 *)
Example ex_get_b_7 : db_get_at ex_state kb 7 = Some [2; 6].
Proof. vm_compute. reflexivity. Qed.
Example ex_get_b_5 : db_get_at ex_state kb 5 = Some [2; 4].
Proof. vm_compute. reflexivity. Qed.
Example ex_get_b_5_files :
  map (map fm_num) (get_overlapping_files (l_ver ex_state) (mkIKey kb 5 OP_PUT))
  = [[11; 10]; [6]; [3]; []; []; []; []].
Proof. vm_compute. reflexivity. Qed.
Example ex_get_b_3 : db_get_at ex_state kb 3 = Some [2; 2].
Proof. vm_compute. reflexivity. Qed.
Example ex_get_b_1 : db_get_at ex_state kb 1 = None.
Proof. vm_compute. reflexivity. Qed.
Example ex_get_all_agree :
  forallb (fun k => forallb (fun q =>
     match db_get_at ex_state k q, visible (all_entries ex_state) q k with
     | Some a, Some b => forallb (fun p => fst p =? snd p) (combine a b)
                         && Nat.eqb (length a) (length b)
     | None, None => true
     | _, _ => false
     end) [0; 1; 2; 3; 4; 5; 6; 7; 8; 9; 10; 11; 12; 13; 14; 15])
     [ka; kb; kc; kd; ke] = true.
Proof. vm_compute. reflexivity. Qed.

(** a write batch on [ex_state] *)
Example ex_write_then_get :
  let s' := lsm_step false false 1000 ex_state (SWrite [WPut kd [9]; WDel kb; WPut ke [8]; WDel ke]) in
  (lsm_wf_b s', db_get s' ka, db_get s' kb, db_get s' kc, db_get s' kd, db_get s' ke)
  = (true, None, None, Some [3; 14], Some [9], None).
Proof. vm_compute. reflexivity. Qed.

Example ex_contents :
  contents (all_entries ex_state) (l_seq ex_state) = [(kb, [2; 6]); (kc, [3; 14])].
Proof. vm_compute. reflexivity. Qed.

(** the stale read of the recency-violating state *)
Example bad_state_stale :
  (db_get_at bad_state ka 14, visible (all_entries bad_state) 14 ka) = (Some [1; 2], Some [1; 7]).
Proof. vm_compute. reflexivity. Qed.

(** * The LRU cache behind the block cache and the table cache ([model/Cache.v]): a hit is never stale *)
From Coq Require Import List NArith Permutation.
From RainVerif.model Require Import Cache.
From RainVerif.proofs Require Import CacheProofs.
Import ListNotations.

(** ** T1 invariant (any capacity, also 0) *)
Theorem C01_cache_T1_invariant : forall cap ops,
  let c := lru_exec (lru_new cap) ops in
  lru_cap c = cap /\ NoDup (map fst (lru_entries c)) /\ (length (lru_entries c) <= cap)%nat.
Proof. exact lru_invariant. Qed.
Print Assumptions C01_cache_T1_invariant.

Theorem C01_cache_T1_reachable_inv : forall cap ops, lru_inv cap (lru_exec (lru_new cap) ops).
Proof. exact lru_reachable_inv. Qed.
Print Assumptions C01_cache_T1_reachable_inv.

Theorem C01_cache_T1_run_count_le_cap : forall cap ops x,
  In x (lru_run (lru_new cap) ops) -> (snd x <= cap)%nat.
Proof. exact lru_run_count_le_cap. Qed.
Print Assumptions C01_cache_T1_run_count_le_cap.

(** the answer of a get in a run is what the state before it holds *)
Theorem C01_cache_run_get_observes_state : forall cap pre k rest d,
  fst (nth (length pre) (lru_run (lru_new cap) (pre ++ CGet k :: rest)) d) =
  lru_find k (lru_entries (lru_exec (lru_new cap) pre)).
Proof. exact lru_run_get_observes_state. Qed.
Print Assumptions C01_cache_run_get_observes_state.

(** ** T2 a hit is never stale (any capacity) *)
Theorem C01_cache_T2_submap_of_spec : forall cap ops k v,
  lru_find k (lru_entries (lru_exec (lru_new cap) ops)) = Some v ->
  lru_find k (spec_map ops []) = Some v.
Proof. exact lru_submap_of_spec. Qed.
Print Assumptions C01_cache_T2_submap_of_spec.

Theorem C01_cache_T2_hit_not_stale : forall cap pre k rest v n d,
  nth (length pre) (lru_run (lru_new cap) (pre ++ CGet k :: rest)) d = (Some v, n) ->
  lru_find k (spec_map pre []) = Some v.
Proof. exact lru_hit_not_stale. Qed.
Print Assumptions C01_cache_T2_hit_not_stale.

(** the unbounded map holds [v] at [k] iff the latest insert of [k] wrote [v] and no remove of [k] follows *)
Theorem C01_cache_T2_spec_map_latest_insert : forall ops k v,
  lru_find k (spec_map ops []) = Some v <->
  exists p s, ops = p ++ CInsert k v :: s /\ Forall (nowrite k) s.
Proof. exact spec_map_latest_insert. Qed.
Print Assumptions C01_cache_T2_spec_map_latest_insert.

Theorem C01_cache_T2_hit_latest_insert : forall cap pre k rest v n d,
  nth (length pre) (lru_run (lru_new cap) (pre ++ CGet k :: rest)) d = (Some v, n) ->
  exists p s, pre = p ++ CInsert k v :: s /\ Forall (nowrite k) s.
Proof. exact lru_hit_latest_insert. Qed.
Print Assumptions C01_cache_T2_hit_latest_insert.

(** ** T3 what is kept (capacity >= 1) *)
Theorem C01_cache_T3_insert_then_get : forall cap pre k v d, (1 <= cap)%nat ->
  fst (last (lru_run (lru_new cap) ((pre ++ [CInsert k v]) ++ [CGet k])) d) = Some v.
Proof. exact lru_insert_then_get_run. Qed.
Print Assumptions C01_cache_T3_insert_then_get.

Theorem C01_cache_T3_kept : forall cap pre k v others ks rest d,
  (length ks < cap)%nat -> ~ In k ks -> Forall (fun o => In (cop_key o) ks) others ->
  exists n,
    nth (length (pre ++ CInsert k v :: others))
        (lru_run (lru_new cap) ((pre ++ CInsert k v :: others) ++ CGet k :: rest)) d = (Some v, n).
Proof. exact lru_kept. Qed.
Print Assumptions C01_cache_T3_kept.

Theorem C01_cache_T3_kept_distinct : forall cap pre k v others rest d,
  (length (nodup N.eq_dec (map cop_key others)) < cap)%nat -> ~ In k (map cop_key others) ->
  exists n,
    nth (length (pre ++ CInsert k v :: others))
        (lru_run (lru_new cap) ((pre ++ CInsert k v :: others) ++ CGet k :: rest)) d = (Some v, n).
Proof. exact lru_kept_distinct. Qed.
Print Assumptions C01_cache_T3_kept_distinct.

(** gets of [k] itself, misses and removes of other keys do not count *)
Theorem C01_cache_T3_kept_general : forall cap pre k v others ks,
  (length ks < cap)%nat -> Forall (keeps k ks) others ->
  lru_find k (lru_entries (lru_exec (lru_new cap) (pre ++ CInsert k v :: others))) = Some v.
Proof. exact lru_kept_general. Qed.
Print Assumptions C01_cache_T3_kept_general.

(** ** T4 eviction order (states with the invariant, in particular all reachable ones) *)
Theorem C01_cache_T4_insert_present_no_eviction : forall cap c k v w, lru_inv cap c ->
  lru_find k (lru_entries c) = Some w ->
  exists a b, lru_entries c = a ++ (k, w) :: b /\
              lru_entries (lru_insert c k v) = (k, v) :: a ++ b.
Proof. exact lru_insert_present. Qed.
Print Assumptions C01_cache_T4_insert_present_no_eviction.

Theorem C01_cache_T4_insert_room_no_eviction : forall cap c k v, lru_inv cap c ->
  lru_find k (lru_entries c) = None -> (length (lru_entries c) < cap)%nat ->
  lru_entries (lru_insert c k v) = (k, v) :: lru_entries c.
Proof. exact lru_insert_room. Qed.
Print Assumptions C01_cache_T4_insert_room_no_eviction.

Theorem C01_cache_T4_insert_evicts_last : forall cap c k v, (1 <= cap)%nat -> lru_inv cap c ->
  lru_find k (lru_entries c) = None -> length (lru_entries c) = cap ->
  exists l0 e, lru_entries c = l0 ++ [e] /\
               lru_entries (lru_insert c k v) = (k, v) :: l0 /\
               lru_find (fst e) (lru_entries (lru_insert c k v)) = None /\
               forall k', k' <> fst e ->
                 lru_find k' (lru_entries (lru_insert c k v)) = lru_find k' ((k, v) :: lru_entries c).
Proof. exact lru_insert_evicts_last. Qed.
Print Assumptions C01_cache_T4_insert_evicts_last.

Theorem C01_cache_T4_get_hit_moves_front : forall cap c k v, lru_inv cap c ->
  lru_find k (lru_entries c) = Some v ->
  snd (lru_get c k) = Some v /\
  exists a b, lru_entries c = a ++ (k, v) :: b /\
              lru_entries (fst (lru_get c k)) = (k, v) :: a ++ b.
Proof. exact lru_get_hit_moves_front. Qed.
Print Assumptions C01_cache_T4_get_hit_moves_front.

Theorem C01_cache_T4_get_hit_same_entries : forall cap c k v, lru_inv cap c ->
  lru_find k (lru_entries c) = Some v ->
  Permutation (lru_entries (fst (lru_get c k))) (lru_entries c).
Proof. exact lru_get_hit_same_entries. Qed.
Print Assumptions C01_cache_T4_get_hit_same_entries.

Theorem C01_cache_T4_get_miss_unchanged : forall c k, lru_find k (lru_entries c) = None ->
  lru_get c k = (c, None).
Proof. exact lru_get_miss_unchanged. Qed.
Print Assumptions C01_cache_T4_get_miss_unchanged.

(** ** T5 remove (any state, any capacity) *)
Theorem C01_cache_T5_remove_then_get : forall cap pre k d,
  fst (last (lru_run (lru_new cap) ((pre ++ [CRemove k]) ++ [CGet k])) d) = None.
Proof. exact lru_remove_then_get_run. Qed.
Print Assumptions C01_cache_T5_remove_then_get.

Theorem C01_cache_T5_removed_stays_absent : forall cap pre k s rest d,
  Forall (noinsert k) s ->
  fst (nth (length (pre ++ CRemove k :: s))
           (lru_run (lru_new cap) ((pre ++ CRemove k :: s) ++ CGet k :: rest)) d) = None.
Proof. exact lru_removed_stays_absent. Qed.
Print Assumptions C01_cache_T5_removed_stays_absent.

Theorem C01_cache_T5_remove_absent : forall c k, lru_find k (lru_entries c) = None -> lru_remove c k = c.
Proof. exact lru_remove_absent. Qed.
Print Assumptions C01_cache_T5_remove_absent.

Theorem C01_cache_T5_remove_others : forall c k k', k' <> k ->
  lru_find k' (lru_entries (lru_remove c k)) = lru_find k' (lru_entries c).
Proof. exact lru_remove_others. Qed.
Print Assumptions C01_cache_T5_remove_others.

(** ** T7 read-through use ([TableCache::find_table], [Table::get_block_reader]): the cache is invisible *)
From RainVerif.proofs Require Import ReadThrough.

(** any immutable file contents [store], any capacity (0 included), any sequence of reads and
    evictions: every read answers exactly what the file holds *)
Theorem C01_cache_T7_read_through_transparent : forall (store : N -> N) cap ops,
  rt_run store (lru_new cap) ops = map (rt_spec store) ops.
Proof. exact rt_run_transparent. Qed.
Print Assumptions C01_cache_T7_read_through_transparent.

Theorem C01_cache_T7_read_through_from_coherent : forall (store : N -> N) ops c,
  coherent store (lru_entries c) -> rt_run store c ops = map (rt_spec store) ops.
Proof. exact rt_run_transparent_from. Qed.
Print Assumptions C01_cache_T7_read_through_from_coherent.

Theorem C01_cache_T7_read_through_inv : forall (store : N -> N) cap ops,
  lru_inv cap (rt_exec store (lru_new cap) ops).
Proof. exact rt_exec_inv. Qed.
Print Assumptions C01_cache_T7_read_through_inv.

(** coherence of the starting state is needed: a wrong cached value is served *)
Example C01_cache_T7_incoherent_served :
  rt_run (fun _ => 7) (mkLru 2 [(1, 9)]) [RRead 1] = [Some 9].
Proof. exact rt_incoherent_served. Qed.

(** ** T6 examples *)
(** capacity 2: insert 1, insert 2, get 1, insert 3 evicts 2 (not 1) *)
Example C01_cache_T6_evicts_lru_state :
  lru_entries (lru_exec (lru_new 2) [CInsert 1 10; CInsert 2 20; CGet 1; CInsert 3 30]) = [(3, 30); (1, 10)].
Proof. vm_compute. reflexivity. Qed.

Example C01_cache_T6_evicts_lru_run :
  lru_run (lru_new 2) [CInsert 1 10; CInsert 2 20; CGet 1; CInsert 3 30; CGet 2; CGet 1; CGet 3] =
  [(Some 10, 1%nat); (Some 20, 2%nat); (Some 10, 2%nat); (Some 30, 2%nat);
   (None, 2%nat); (Some 10, 2%nat); (Some 30, 2%nat)].
Proof. vm_compute. reflexivity. Qed.

(** without the get, 1 is the one evicted *)
Example C01_cache_T6_no_get_evicts_oldest :
  lru_run (lru_new 2) [CInsert 1 10; CInsert 2 20; CInsert 3 30; CGet 1; CGet 2] =
  [(Some 10, 1%nat); (Some 20, 2%nat); (Some 30, 2%nat); (None, 2%nat); (Some 20, 2%nat)].
Proof. vm_compute. reflexivity. Qed.

(** re-inserting a present key at capacity replaces the value and evicts nothing *)
Example C01_cache_T6_reinsert_no_eviction :
  lru_run (lru_new 2) [CInsert 1 10; CInsert 2 20; CInsert 1 11; CGet 2; CGet 1] =
  [(Some 10, 1%nat); (Some 20, 2%nat); (Some 11, 2%nat); (Some 20, 2%nat); (Some 11, 2%nat)].
Proof. vm_compute. reflexivity. Qed.

(** capacity 1 keeps the latest entry *)
Example C01_cache_T6_cap1 :
  lru_run (lru_new 1) [CInsert 1 10; CGet 1; CInsert 2 20; CGet 1; CGet 2] =
  [(Some 10, 1%nat); (Some 10, 1%nat); (Some 20, 1%nat); (None, 1%nat); (Some 20, 1%nat)].
Proof. vm_compute. reflexivity. Qed.

(** T3 needs capacity >= 1: with capacity 0 (excluded by the code's assertion) the inserted entry
    is evicted at once *)
Example C01_cache_T3_cap0_refuted :
  lru_run (lru_new 0) [CInsert 1 10; CGet 1] = [(Some 10, 0%nat); (None, 0%nat)].
Proof. vm_compute. reflexivity. Qed.

(** * The full stack: the logical LSM state machine and the persistence protocol in lockstep
    ([proofs/StackDefs.v]): after any number of sessions, each ending in a crash anywhere or cleanly,
    a get through the real lookup path on the recovered state returns the latest acknowledged write *)
From Coq Require Import List NArith Bool Arith.
From RainVerif Require Import Params.
From RainVerif.model Require Import Bytes Key Block Table TableSpec Version Lsm LsmSpec DbSpec Codec WalModel Gc Recover Proto.
From RainVerif.proofs Require Import ContentsProofs ProtoDurable ProtoSteps ProtoOpen ProtoInstall ProtoProofs ProtoCrash ProtoHistory LsmProofs.
From RainVerif.proofs Require Import StackDefs StackProofs.
From RainVerif.proofs Require CodecProofs.
Import ListNotations.

(** * The definitions used below *)

(** S1: same memtable, immutable memtable, version, sequence number and file counter; every table
    of the version reads back from the directory as the entries of the logical store *)
Example C01_stack_Coupled_def : forall l d,
  Coupled l d <->
  (pd_mem d = l_mem l /\ pd_imm d = l_imm l /\ pd_ver d = l_ver l /\ pd_seq d = l_seq l /\
   pd_next d = l_next l /\ l_panic l = false /\
   forall n, In n (version_numbers (l_ver l)) -> table_entries_of (pd_img d) n = Some (file_entries l n)).
Proof. exact Coupled_iff. Qed.

Example C01_stack_Joint_def : forall l d acked,
  Joint l d acked <-> (lsm_wf_b l = true /\ Coupled l d /\ InvE d acked /\ TabsLive d).
Proof. exact Joint_iff. Qed.

(** the protocol operation of each logical step *)
Example C01_stack_pops_of_step_def : forall mfs l st ptrs,
  pops_of_step mfs l st ptrs =
  match st with
  | SWrite b => [QWrite b]
  | SRotate => [QRotate]
  | SFlush => flush_pops mfs l
  | SCompact level seed cuts => compact_pops mfs l level seed cuts ptrs
  | STrivialMove level seed => move_pops mfs l level seed ptrs
  | SSnapshot | SRelease _ => []
  end.
Proof. reflexivity. Qed.

Example C01_stack_compact_pops_def : forall mfs l level seed cuts ptrs,
  compact_pops mfs l level seed cuts ptrs =
  match finalize_inputs true true mfs (l_ver l) level (files_of (l_ver l) level seed) with
  | None => []
  | Some ci =>
      [QInstall (compact_deleted level ci) (compact_added level (compact_outs l level ci cuts)) ptrs (l_seq l)]
  end.
Proof. reflexivity. Qed.

Example C01_stack_jrun_ok_def : forall mfs l s st ptrs r,
  jrun_ok mfs l s [] = True /\
  jrun_ok mfs l s ((st, ptrs) :: r) =
  (step_admissible l st /\
   (forall d, pr_db s = Some d -> step_num_ok mfs l d st ptrs) /\
   jrun_ok mfs (lsm_step true true mfs l st) (fst (p_run s (pops_of_step mfs l st ptrs))) r).
Proof. split; reflexivity. Qed.

(** * Finding: the two file counters differ by 2 *)

(** [lsm_init] starts its counter at 1; after [p_open] on the empty directory the protocol's
    counter is 3 (one number for the manifest's successor, one for the first log). [lsm_init] is
    therefore never coupled with a freshly created database; the state that is coupled is
    [fresh_lsm], reachable from [lsm_init] by an empty rotation and an empty flush *)
Theorem C01_stack_init_counter_refuted : forall o d ops,
  p_open o empty_image = Some (d, ops) ->
  pd_next d = 3 /\ l_next lsm_init = 1 /\ ~ Coupled lsm_init d /\ Coupled fresh_lsm d.
Proof. exact init_counter_offset. Qed.
Print Assumptions C01_stack_init_counter_refuted.

Theorem C01_stack_fresh_reachable : forall mfs, lsm_run true true mfs [SRotate; SFlush] = fresh_lsm.
Proof. exact fresh_lsm_reachable. Qed.
Print Assumptions C01_stack_fresh_reachable.

Theorem C01_stack_open_fresh : forall o,
  exists d0 ops0, p_open o empty_image = Some (d0, ops0) /\ Coupled fresh_lsm d0 /\ TabsLive d0.
Proof. exact open_fresh. Qed.
Print Assumptions C01_stack_open_fresh.

(** * S2: joint steps *)

(** every joint step keeps the joint invariant; its protocol operation satisfies the side
    conditions of [C02_crash_safe_with_installs] ([run_okP]: [install_okb] and [install_preserves]
    included) *)
Theorem C01_stack_joint_step : forall mfs l d acked st ptrs,
  Joint l d acked -> step_admissible l st -> step_num_ok mfs l d st ptrs ->
  let ops := pops_of_step mfs l st ptrs in
  run_okP (started d) ops /\
  exists d', fst (p_run (started d) ops) = started d' /\
             Joint (lsm_step true true mfs l st) d' (acked ++ acked_batches (nops acked) ops).
Proof. exact joint_step. Qed.
Print Assumptions C01_stack_joint_step.

Theorem C01_stack_joint_run : forall mfs js l d acked,
  Joint l d acked -> jrun_ok mfs l (started d) js ->
  let ops := joint_pops mfs l js in
  run_okP (started d) ops /\
  exists d', fst (p_run (started d) ops) = started d' /\
             Joint (jlsm mfs l js) d' (acked ++ acked_batches (nops acked) ops).
Proof. exact joint_run. Qed.
Print Assumptions C01_stack_joint_run.

(** the hypothesis of the protocol's crash-safety theorem is discharged for the edit of
    [do_compact] on a well-formed state; the only condition on snapshots is
    [smallest_snapshot l < MAX_SEQ] (part of [step_admissible]); the remaining side condition is the
    wire format of the manifest record *)
Theorem C01_stack_compact_install_ok : forall mfs l d acked level seed cuts ptrs ci,
  Joint l d acked -> compact_adm l level seed -> smallest_snapshot l < MAX_SEQ ->
  finalize_inputs true true mfs (l_ver l) level (files_of (l_ver l) level seed) = Some ci ->
  let del := compact_deleted level ci in
  let add := compact_added level (compact_outs l level ci cuts) in
  CodecProofs.vchange_ok (install_change' d del add ptrs (l_seq l)) = true ->
  install_okb d del add ptrs (l_seq l) = true /\ install_preserves d del add ptrs (l_seq l).
Proof. exact compact_install_ok. Qed.
Print Assumptions C01_stack_compact_install_ok.

(** the trivial-move case: the record must not re-add a (level, number) pair the manifest already
    names ([install_hist_ok], a conjunct of [install_okb]). With that as a hypothesis: *)
Theorem C01_stack_move_install_ok : forall mfs l d acked level seed ptrs o,
  Joint l d acked -> compact_adm l level seed ->
  move_pops mfs l level seed ptrs = [o] -> install_num_ok d o -> install_hist_ok d o ->
  step_okP (started d) o.
Proof. exact move_install_ok_partial. Qed.
Print Assumptions C01_stack_move_install_ok.

(** ... and it is discharged by an invariant of joint runs: the history of the manifest is
    monotone ([HistMonoV]: every (level, file) ever added lies at or above the level where a live
    file with that number is now: a file only moves down). [JointH] = [Joint] + that invariant *)
Example C01_stack_HistMonoV_def : forall a v,
  HistMonoV a v =
  (forall lv g, In (lv, g) (ma_added a) ->
   forall i f, In f (level_files v i) -> fm_num f = fm_num g -> (lv <= i)%nat).
Proof. reflexivity. Qed.

Example C01_stack_JointH_def : forall l d acked,
  JointH l d acked = (Joint l d acked /\ HistMonoV (recorded_acc (pd_img d)) (pd_ver d)).
Proof. reflexivity. Qed.

(** [step_num_ok0]: the numeric side conditions only (no history condition for trivial moves) *)
Example C01_stack_step_num_ok0_def : forall mfs l d st ptrs,
  step_num_ok0 mfs l d st ptrs =
  match st with
  | STrivialMove level seed => Forall (install_num_ok d) (move_pops mfs l level seed ptrs)
  | _ => step_num_ok mfs l d st ptrs
  end.
Proof. reflexivity. Qed.

Theorem C01_stack_move_hist_ok : forall mfs l d acked level seed ptrs,
  JointH l d acked -> compact_adm l level seed ->
  Forall (install_hist_ok d) (move_pops mfs l level seed ptrs).
Proof. exact move_hist_ok. Qed.
Print Assumptions C01_stack_move_hist_ok.

(** S2 in full: every joint step, numeric side conditions only *)
Theorem C01_stack_joint_step_h : forall mfs l d acked st ptrs,
  JointH l d acked -> step_admissible l st -> step_num_ok0 mfs l d st ptrs ->
  let ops := pops_of_step mfs l st ptrs in
  run_okP (started d) ops /\
  exists d', fst (p_run (started d) ops) = started d' /\
             JointH (lsm_step true true mfs l st) d' (acked ++ acked_batches (nops acked) ops).
Proof. exact joint_step_h. Qed.
Print Assumptions C01_stack_joint_step_h.

Theorem C01_stack_joint_run_h : forall mfs js l d acked,
  JointH l d acked -> jrun_ok0 mfs l (started d) js ->
  let ops := joint_pops mfs l js in
  run_okP (started d) ops /\
  exists d', fst (p_run (started d) ops) = started d' /\
             JointH (jlsm mfs l js) d' (acked ++ acked_batches (nops acked) ops).
Proof. exact joint_run_h. Qed.
Print Assumptions C01_stack_joint_run_h.

(** from the freshly created database the hypotheses of S3 are numeric only *)
Theorem C01_stack_fresh_jrun_ok0 : forall mfs o js,
  open_okb o empty_image = true -> jrun_ok0 mfs fresh_lsm (opened o) js -> jrun_ok mfs fresh_lsm (opened o) js.
Proof. exact fresh_jrun_ok0. Qed.
Print Assumptions C01_stack_fresh_jrun_ok0.

(** the size a flush records is determined by the logical step: [fm_size] is part of the version,
    so a [QFlush] with any other size leaves versions that differ (in the sizes only) *)
Example C01_stack_flush_other_size_refuted :
  let js := firstn 2 ex_js in
  let l := jlsm ex_mfs fresh_lsm js in
  match pr_db (fst (p_run prun_init (joint_ops ex_mfs ex_o js))), flush_pops ex_mfs l with
  | Some d, [QFlush lv sz q] =>
      match p_flush d lv (sz + 1) q with
      | Some (d', _) =>
          map (map fm_size) (pd_ver d') <> map (map fm_size) (l_ver (lsm_step true true ex_mfs l SFlush))
          /\ map (map fm_num) (pd_ver d') = map (map fm_num) (l_ver (lsm_step true true ex_mfs l SFlush))
      | None => False
      end
  | _, _ => False
  end.
Proof. exact ex_flush_size_refuted. Qed.

(** the two sides agree at every step boundary: the real lookup path of the logical state returns
    what the acknowledged batches replay to *)
Theorem C01_stack_joint_get : forall l d acked,
  Joint l d acked -> forall k, db_get l k = map_get k (replay [] acked).
Proof. exact joint_get. Qed.
Print Assumptions C01_stack_joint_get.

Theorem C01_stack_joint_contents : forall l d acked,
  Joint l d acked -> contents (all_entries l) (l_seq l) = replay [] acked.
Proof. exact joint_contents. Qed.
Print Assumptions C01_stack_joint_contents.

(** * S3: the full stack without reopen *)

(** every joint run from the freshly created database satisfies the hypotheses of the protocol's
    crash-safety theorem, never fails, and ends in a joint state *)
Theorem C01_stack_stack_run : forall mfs o js,
  open_okb o empty_image = true -> jrun_ok mfs fresh_lsm (opened o) js ->
  let ops := joint_ops mfs o js in
  run_okP prun_init ops /\ pr_failed (fst (p_run prun_init ops)) = false /\
  exists d', pr_db (fst (p_run prun_init ops)) = Some d' /\ pr_img (fst (p_run prun_init ops)) = pd_img d' /\
             Joint (jlsm mfs fresh_lsm js) d' (acked_batches 0 ops).
Proof. exact stack_run. Qed.
Print Assumptions C01_stack_stack_run.

(** every crash point, every tear: either the crash came before CURRENT was installed for the
    first time (nothing was acknowledged), or the image recovers, and a lookup in the recovered
    contents returns what [db_get] returns in the logical state after any prefix of the joint run
    with exactly the [k] writes that the crash point preserves ([k] as in C02) *)
Theorem C01_stack_stack_crash_get : forall mfs o js,
  open_okb o empty_image = true -> jrun_ok mfs fresh_lsm (opened o) js ->
  let ops := joint_ops mfs o js in
  let eff := snd (p_run prun_init ops) in
  forall n torn, (n <= length eff)%nat ->
  let img := crash_image empty_image eff n torn in
  let k := crash_k prun_init ops n torn in
  (k <= jwrites js)%nat /\
  ((i_current img = None /\ k = 0%nat) \/
   exists rc, recover_image img = inl rc /\
     forall j, (j <= length js)%nat -> jwrites (firstn j js) = k ->
       let lj := jlsm mfs fresh_lsm (firstn j js) in
       lsm_wf_b lj = true /\ rc_seq rc = l_seq lj /\
       forall key, map_get key (rec_contents img rc) = db_get lj key).
Proof. exact stack_crash_get. Qed.
Print Assumptions C01_stack_stack_crash_get.

(** the same with the specification of a read spelled out ([C01_db_get_current]) *)
Theorem C01_stack_stack_crash_visible : forall mfs o js,
  open_okb o empty_image = true -> jrun_ok mfs fresh_lsm (opened o) js ->
  let ops := joint_ops mfs o js in
  let eff := snd (p_run prun_init ops) in
  forall n torn, (n <= length eff)%nat ->
  let img := crash_image empty_image eff n torn in
  let k := crash_k prun_init ops n torn in
  i_current img = None \/
  exists rc, recover_image img = inl rc /\
    forall j, (j <= length js)%nat -> jwrites (firstn j js) = k ->
      let lj := jlsm mfs fresh_lsm (firstn j js) in
      forall key, map_get key (rec_contents img rc) = visible (all_entries lj) (l_seq lj) key.
Proof. exact stack_crash_visible. Qed.
Print Assumptions C01_stack_stack_crash_visible.

Theorem C01_stack_prefix_exists : forall js k, (k <= jwrites js)%nat ->
  exists j, (j <= length js)%nat /\ jwrites (firstn j js) = k.
Proof. exact jwrites_prefix_exists. Qed.
Print Assumptions C01_stack_prefix_exists.

(** * S4: reopen *)

Example C01_stack_lsm_of_pdb_def : forall d,
  lsm_of_pdb d = mkLsm (pd_mem d) (pd_imm d) (pd_ver d) (store_of (pd_img d)) (pd_seq d) [] (pd_next d) false.
Proof. reflexivity. Qed.

Example C01_stack_LogicalImg_def : forall img,
  LogicalImg img =
  (forall ms, recover_manifest img = inl ms ->
     exists lb, WF (strip lb) /\ l_ver lb = ms_version ms /\ TabsAre lb img).
Proof. reflexivity. Qed.

(** opening a directory that a crash or a clean shutdown left ([Crashed], C02) and that is the
    image of a logical state: the logical state rebuilt by [p_open] (version from the manifest plus
    the level-0 tables written during log replay, store from the directory, memtable from the
    reused log) is well formed and coupled with the database [p_open] returns *)
Theorem C01_stack_reopen_joint : forall o img bs d' ops,
  Crashed img bs -> LogicalImg img -> open_okb o img = true ->
  p_open o img = Some (d', ops) ->
  Joint (lsm_of_pdb d') d' bs.
Proof. exact reopen_joint. Qed.
Print Assumptions C01_stack_reopen_joint.

Theorem C01_stack_reopen_get : forall o img bs d' ops,
  Crashed img bs -> LogicalImg img -> open_okb o img = true ->
  p_open o img = Some (d', ops) ->
  forall k, db_get (lsm_of_pdb d') k = map_get k (replay [] bs).
Proof. exact reopen_get. Qed.
Print Assumptions C01_stack_reopen_get.

(** which directories are images of a logical state: every step boundary of a joint run, ... *)
Theorem C01_stack_joint_logical : forall l d acked, Joint l d acked -> LogicalImg (pd_img d).
Proof. exact joint_logical. Qed.
Print Assumptions C01_stack_joint_logical.

Theorem C01_stack_reopen_after_close : forall o l d acked d' ops,
  Joint l d acked -> open_okb o (pd_img d) = true -> p_open o (pd_img d) = Some (d', ops) ->
  Joint (lsm_of_pdb d') d' acked.
Proof. exact reopen_after_close. Qed.
Print Assumptions C01_stack_reopen_after_close.

(** ... every crash image of the steps of a joint run (any number of file operations, the last one
    torn anywhere), ... *)
Theorem C01_stack_jrun_crash_logical : forall mfs js l d acked,
  Joint l d acked -> jrun_ok mfs l (started d) js ->
  all_crash LogicalImg (pd_img d) (snd (p_run (started d) (joint_pops mfs l js))).
Proof. exact jrun_crash_logical. Qed.
Print Assumptions C01_stack_jrun_crash_logical.

(** ... and every crash image of a recovery itself *)
Theorem C01_stack_open_crash_logical : forall o img bs d' ops,
  Crashed img bs -> LogicalImg img -> open_okb o img = true ->
  p_open o img = Some (d', ops) ->
  all_crash LogicalImg img ops.
Proof. exact open_crash_logical. Qed.
Print Assumptions C01_stack_open_crash_logical.

(** S3 + S4: a crash anywhere in the steps of a joint run, then a reopen with any oracle *)
Theorem C01_stack_joint_crash_reopen : forall mfs l d acked js,
  Joint l d acked -> jrun_ok mfs l (started d) js ->
  let ops := joint_pops mfs l js in
  let eff := snd (p_run (started d) ops) in
  forall n torn, (n <= length eff)%nat ->
  let img := crash_image (pd_img d) eff n torn in
  let bs := acked ++ firstn (crash_k (started d) ops n torn) (acked_batches (nops acked) ops) in
  Crashed img bs /\ LogicalImg img /\
  forall o2 d' ops', open_okb o2 img = true -> p_open o2 img = Some (d', ops') ->
    Joint (lsm_of_pdb d') d' bs /\ forall k, db_get (lsm_of_pdb d') k = map_get k (replay [] bs).
Proof. exact joint_crash_reopen. Qed.
Print Assumptions C01_stack_joint_crash_reopen.

Theorem C01_stack_stack_crash_reopen : forall mfs o js,
  open_okb o empty_image = true -> jrun_ok mfs fresh_lsm (opened o) js ->
  let ops := joint_pops mfs fresh_lsm js in
  let eff := snd (p_run (opened o) ops) in
  forall n torn, (n <= length eff)%nat ->
  let img := crash_image (pr_img (opened o)) eff n torn in
  let bs := firstn (crash_k (opened o) ops n torn) (acked_batches 0 ops) in
  Crashed img bs /\ LogicalImg img /\
  forall o2 d' ops', open_okb o2 img = true -> p_open o2 img = Some (d', ops') ->
    Joint (lsm_of_pdb d') d' bs /\ forall k, db_get (lsm_of_pdb d') k = map_get k (replay [] bs).
Proof. exact stack_crash_reopen. Qed.
Print Assumptions C01_stack_stack_crash_reopen.

(** * End to end: any number of sessions, each one a recovery, a joint run and a crash anywhere
    (in the recovery or in the steps; the clean end is the crash point after the last operation) *)
Theorem C01_stack_joint_session_safe : forall mfs img bs o js d0 ops0,
  Crashed img bs -> LogicalImg img -> open_okb o img = true -> p_open o img = Some (d0, ops0) ->
  jrun_ok mfs (lsm_of_pdb d0) (started d0) js ->
  let ops := QOpen o :: joint_pops mfs (lsm_of_pdb d0) js in
  let s := session_start img in
  let eff := snd (p_run s ops) in
  forall n torn, (n <= length eff)%nat ->
    let img' := crash_image img eff n torn in
    let bs' := bs ++ firstn (crash_k s ops n torn) (acked_batches (nops bs) ops) in
    Crashed img' bs' /\ LogicalImg img'.
Proof. exact joint_session_safe. Qed.
Print Assumptions C01_stack_joint_session_safe.

Theorem C01_stack_jreach_safe : forall mfs img bs, JReach mfs img bs -> Crashed img bs /\ LogicalImg img.
Proof. exact jreach_safe. Qed.
Print Assumptions C01_stack_jreach_safe.

(** after any crash, of any session, a get on the recovered database returns the latest
    acknowledged write, found through the real lookup path of the rebuilt logical state *)
Theorem C01_stack_jreach_get : forall mfs img bs o d' ops,
  JReach mfs img bs -> open_okb o img = true -> p_open o img = Some (d', ops) ->
  Joint (lsm_of_pdb d') d' bs /\ forall k, db_get (lsm_of_pdb d') k = map_get k (replay [] bs).
Proof. exact jreach_get. Qed.
Print Assumptions C01_stack_jreach_get.

(** the same with numeric side conditions only: the monotone history survives crashes and
    recoveries ([HistImg]: the crashed directory has it) *)
Theorem C01_stack_reopen_jointH : forall o img bs d' ops,
  Crashed img bs -> LogicalImg img -> HistImg img -> open_okb o img = true ->
  p_open o img = Some (d', ops) ->
  JointH (lsm_of_pdb d') d' bs.
Proof. exact reopen_jointH. Qed.
Print Assumptions C01_stack_reopen_jointH.

Theorem C01_stack_joint_session_safe_h : forall mfs img bs o js d0 ops0,
  Crashed img bs -> LogicalImg img -> HistImg img -> open_okb o img = true -> p_open o img = Some (d0, ops0) ->
  jrun_ok0 mfs (lsm_of_pdb d0) (started d0) js ->
  let ops := QOpen o :: joint_pops mfs (lsm_of_pdb d0) js in
  let s := session_start img in
  let eff := snd (p_run s ops) in
  forall n torn, (n <= length eff)%nat ->
    let img' := crash_image img eff n torn in
    let bs' := bs ++ firstn (crash_k s ops n torn) (acked_batches (nops bs) ops) in
    Crashed img' bs' /\ LogicalImg img' /\ HistImg img'.
Proof. exact joint_session_safe_h. Qed.
Print Assumptions C01_stack_joint_session_safe_h.

Theorem C01_stack_jreach_h_safe : forall mfs img bs,
  JReachH mfs img bs -> Crashed img bs /\ LogicalImg img /\ HistImg img.
Proof. exact jreach_h_safe. Qed.
Print Assumptions C01_stack_jreach_h_safe.

(** THE END-TO-END THEOREM: any number of sessions from the empty directory, each one a recovery
    (any oracle), a joint run (every record fits its wire format, every logical step admissible)
    and a crash anywhere; after the last crash a get on the reopened database, through the real
    lookup path of the rebuilt logical state, returns the latest acknowledged write *)
Theorem C01_stack_jreach_h_get : forall mfs img bs o d' ops,
  JReachH mfs img bs -> open_okb o img = true -> p_open o img = Some (d', ops) ->
  JointH (lsm_of_pdb d') d' bs /\ forall k, db_get (lsm_of_pdb d') k = map_get k (replay [] bs).
Proof. exact jreach_h_get. Qed.
Print Assumptions C01_stack_jreach_h_get.

(** * The side conditions are decidable on concrete runs *)
Theorem C01_stack_jrun_ok_b_sound : forall mfs js l s, jrun_ok_b mfs l s js = true -> jrun_ok mfs l s js.
Proof. exact jrun_ok_b_sound. Qed.
Print Assumptions C01_stack_jrun_ok_b_sound.

Theorem C01_stack_jrun_ok0_b_sound : forall mfs js l s, jrun_ok0_b mfs l s js = true -> jrun_ok0 mfs l s js.
Proof. exact jrun_ok0_b_sound. Qed.
Print Assumptions C01_stack_jrun_ok0_b_sound.

(** * S5: non-vacuity *)

(** the hypotheses of S3 hold of the example run *)
Example C01_stack_ex_run_ok : open_okb ex_o empty_image = true /\ jrun_ok ex_mfs fresh_lsm (opened ex_o) ex_js.
Proof. exact ex_run_ok. Qed.

Example C01_stack_ex_run_ok0 : jrun_ok0 ex_mfs fresh_lsm (opened ex_o) ex_js.
Proof. exact ex_run_ok0. Qed.

(** three flushes land in levels 2, 1 and 0; the compaction merges level 0 into level 1; the
    trivial move takes table 5 from level 2 to level 3 *)
Example C01_stack_ex_run_shape :
  map (map fm_num) (l_ver (jlsm ex_mfs fresh_lsm (firstn 10 ex_js))) = [[9]; [7]; [5]; []; []; []; []]
  /\ map (map fm_num) (l_ver (jlsm ex_mfs fresh_lsm (firstn 12 ex_js))) = [[]; [10]; [5]; []; []; []; []]
  /\ map (map fm_num) (l_ver (jlsm ex_mfs fresh_lsm ex_js)) = [[]; [10]; []; [5]; []; []; []]
  /\ length ex_eff = 33%nat /\ length ex_acked = 6%nat
  /\ map (fun k => db_get (jlsm ex_mfs fresh_lsm ex_js) k) ex_keys = [Some [6]; None; Some [9]; Some [5]; None].
Proof. exact ex_run_shape. Qed.

(** every crash point (0..33 file operations, the last one complete or torn at 0..39 bytes),
    reopened with log reuse and without (and with a memtable cut during replay): the rebuilt
    logical state is well formed and [db_get] returns the latest acknowledged write *)
Example C01_stack_ex_every_crash_point :
  forallb (fun o2 =>
    forallb (fun n => forallb (ex_check o2 n) (None :: map Some (seq 0 40)))
            (seq 0 (S (length ex_eff))))
    [ex_o; ex_o2] = true.
Proof. exact ex_every_crash_point. Qed.
