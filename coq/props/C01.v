(** C01 — point lookups ([DB::get] / [Version::get]): property theorems (statements + [exact]
    + [Print Assumptions] only), and evaluated examples. *)
From RainVerif Require Import Params.
From RainVerif.model Require Import Bytes Key Block Table TableSpec Version Lsm LsmSpec DbSpec.
From RainVerif.proofs Require Import GetProofs.
Open Scope N_scope.
(** * Part a: the lookup path returns what a reader must see; writes update it like a map *)


(** the point-lookup path returns what a reader at sequence [q] must see, wherever the data
    lives; no bound on [q] is needed (the operation tag of the lookup key does not take part in
    the order) *)
Theorem C01_db_get_correct :
  forall (s : lsm) (k : bytes) (q : N),
    lsm_wf_b s = true ->
    db_get_at s k q = visible (all_entries s) q k.
Proof. exact db_get_correct. Qed.
Print Assumptions C01_db_get_correct.

Theorem C01_db_get_current :
  forall (s : lsm) (k : bytes),
    lsm_wf_b s = true -> db_get s k = visible (all_entries s) (l_seq s) k.
Proof. exact db_get_current. Qed.
Print Assumptions C01_db_get_current.

Theorem C01_db_get_contents :
  forall (s : lsm),
    lsm_wf_b s = true ->
    forall k, db_get s k = map_get k (contents (all_entries s) (l_seq s)).
Proof. exact db_get_contents. Qed.
Print Assumptions C01_db_get_contents.

(** a write batch keeps the invariant, and afterwards every lookup agrees with the sorted-map
    semantics of the batch *)
Theorem C01_write_preserves_wf :
  forall (d1fix d14fix : bool) (mfs : N) (b : list wop) (s : lsm),
    lsm_wf_b s = true -> lsm_wf_b (lsm_step d1fix d14fix mfs s (SWrite b)) = true.
Proof. exact write_wf. Qed.
Print Assumptions C01_write_preserves_wf.

Theorem C01_write_then_get :
  forall (d1fix d14fix : bool) (mfs : N) (s : lsm) (b : list wop),
    lsm_wf_b s = true ->
    forall k, db_get (lsm_step d1fix d14fix mfs s (SWrite b)) k
              = map_get k (map_apply (contents (all_entries s) (l_seq s)) b).
Proof. exact C01_write_then_get_proof. Qed.
Print Assumptions C01_write_then_get.

(** ** the steps *)

(** one sorted run *)
Theorem C01_run_get_visible :
  forall (es : list entry) (k : bytes) (q op : N),
    sorted_entries es = true ->
    match get_spec es (mkIKey k q op) with GFound v => Some v | _ => None end = visible es q k.
Proof. exact run_get_visible. Qed.
Print Assumptions C01_run_get_visible.

Theorem C01_run_get_not_found_iff :
  forall (es : list entry) (k : bytes) (q op : N),
    sorted_entries es = true ->
    (get_spec es (mkIKey k q op) = GNotFound <->
     forall e, In e es -> ~ (ik_user (fst e) = k /\ ik_seq (fst e) <= q)).
Proof. exact run_get_not_found_iff. Qed.
Print Assumptions C01_run_get_not_found_iff.

(** sources in recency order *)
Theorem C01_sources_get_visible :
  forall (srcs : list (list entry)) (k : bytes) (q op : N),
    forallb sorted_entries srcs = true -> recency_ok srcs = true ->
    match first_answer srcs (mkIKey k q op) with GFound v => Some v | _ => None end
    = visible (concat srcs) q k.
Proof. exact sources_get_visible. Qed.
Print Assumptions C01_sources_get_visible.

(** level 0: the selection is the recency-ordered file list restricted to the files whose
    user-key range contains the key, and the files left out cannot answer *)
Theorem C01_l0_selection_order :
  forall (p : fmeta -> bool) (l : list fmeta),
    filter p (sort_by_num_desc l) = sort_by_num_desc (filter p l).
Proof. exact filter_sort_num. Qed.
Print Assumptions C01_l0_selection_order.

Theorem C01_l0_select :
  forall (fe : N -> list entry) (l0 : list fmeta) (t : ikey),
    (forall f, In f l0 -> file_bounds_ok (fe (fm_num f)) f = true) ->
    first_answer (map (fun f => fe (fm_num f)) (overlapping_files_l0 l0 (ik_user t))) t
    = first_answer (map (fun f => fe (fm_num f)) (sort_by_num_desc l0)) t.
Proof. exact l0_select_answer. Qed.
Print Assumptions C01_l0_select.

(** levels >= 1: the binary search finds the first file whose largest key is not below the
    target, and that file answers for the whole sorted run of the level *)
Theorem C01_find_file_upper_bound :
  forall (fs : list fmeta) (target : ikey),
    (forall i j fi fj, (i < j)%nat -> nth_error fs i = Some fi -> nth_error fs j = Some fj ->
                       ikey_lt (fm_large fi) (fm_large fj)) ->
    match find_file_upper_bound fs target with
    | None => forall f, In f fs -> ikey_ltb (fm_large f) target = true
    | Some i =>
        exists pre f post, fs = pre ++ f :: post /\ length pre = i /\
          (forall g, In g pre -> ikey_ltb (fm_large g) target = true) /\
          ikey_ltb (fm_large f) target = false
    end.
Proof. exact find_file_upper_bound_spec. Qed.
Print Assumptions C01_find_file_upper_bound.

Theorem C01_level_select :
  forall (fe : N -> list entry) (fs : list fmeta) (t : ikey),
    (forall f, In f fs -> file_bounds_ok (fe (fm_num f)) f = true) ->
    sorted_entries (flat_map (fun f => fe (fm_num f)) fs) = true ->
    first_answer (map (fun f => fe (fm_num f)) (overlapping_files_level fs t)) t
    = get_spec (flat_map (fun f => fe (fm_num f)) fs) t.
Proof. exact level_select_answer. Qed.
Print Assumptions C01_level_select.

(** the files searched by [Version::get] answer like all level-0 files newest first followed by
    the whole level runs *)
Theorem C01_version_sources :
  forall (s : lsm) (t : ikey),
    shape_ok (l_ver s) (file_entries s) = true ->
    forallb sorted_entries (sources s) = true ->
    first_answer (version_sources s t) t =
    first_answer (map (fun f => file_entries s (fm_num f))
                      (sort_by_num_desc (level_files (l_ver s) O))
                  ++ map (level_run s) (tl (l_ver s))) t.
Proof. exact version_sources_answer. Qed.
Print Assumptions C01_version_sources.

(** ** the invariant is needed *)

(** a level-0 file with the higher number holding the older version: everything but
    [recency_ok] holds, and the lookup returns the stale value *)
Theorem C01_recency_needed :
  exists s k q,
    shape_ok (l_ver s) (file_entries s) = true /\
    forallb sorted_entries (sources s) = true /\
    forallb (forallb (entry_ok (l_seq s))) (sources s) = true /\
    recency_ok (sources s) = false /\
    lsm_wf_b s = false /\
    db_get_at s k q <> visible (all_entries s) q k.
Proof. exact recency_needed. Qed.
Print Assumptions C01_recency_needed.

(** a level 1 whose files are not in key order: the binary search misses the file *)
Theorem C01_level_order_needed :
  exists s k q,
    recency_ok (sources s) = true /\
    lsm_wf_b s = false /\
    db_get_at s k q <> visible (all_entries s) q k.
Proof. exact level_order_needed. Qed.
Print Assumptions C01_level_order_needed.

(** ** non-vacuity: [ex_state] has a memtable, an immutable memtable, two overlapping level-0
    files, a two-file level 1 in which the versions of "b" straddle the two files, and a
    tombstone for "d" in level 0 above a value in level 2 *)
Example ex_state_wf : lsm_wf_b ex_state = true.
Proof. vm_compute. reflexivity. Qed.

Example ex_l0_overlap :
  map fm_num (overlapping_files_l0 (level_files (l_ver ex_state) 0) kb) = [11; 10].
Proof. vm_compute. reflexivity. Qed.

Example ex_get_now :
  (db_get ex_state ka, db_get ex_state kb, db_get ex_state kc, db_get ex_state kd,
   db_get ex_state ke)
  = (None, Some [2; 6], Some [3; 14], None, None).
Proof. vm_compute. reflexivity. Qed.

(** "a" below the deletion in the immutable memtable: the newer level-0 file answers *)
Example ex_get_a_12 : db_get_at ex_state ka 12 = Some [1; 12].
Proof. vm_compute. reflexivity. Qed.
Example ex_get_a_8 : db_get_at ex_state ka 8 = Some [1; 7].
Proof. vm_compute. reflexivity. Qed.
Example ex_get_a_5 : db_get_at ex_state ka 5 = Some [1; 3].
Proof. vm_compute. reflexivity. Qed.
(** the tombstone at 9 hides the level-2 value; below it the value is visible *)
Example ex_get_d_9 : db_get_at ex_state kd 9 = None.
Proof. vm_compute. reflexivity. Qed.
Example ex_get_d_8 : db_get_at ex_state kd 8 = Some [4; 1].
Proof. vm_compute. reflexivity. Qed.
(** "b": 6 in the first level-1 file, 4 in the second, 2 in level 2 *)
Example ex_get_b_7 : db_get_at ex_state kb 7 = Some [2; 6].
Proof. vm_compute. reflexivity. Qed.
Example ex_get_b_5 : db_get_at ex_state kb 5 = Some [2; 4].
Proof. vm_compute. reflexivity. Qed.
Example ex_get_b_5_files :
  map (map fm_num) (get_overlapping_files (l_ver ex_state) (mkIKey kb 5 OP_PUT))
  = [[11; 10]; [6]; [3]; []; []; []; []].
Proof. vm_compute. reflexivity. Qed.
Example ex_get_b_3 : db_get_at ex_state kb 3 = Some [2; 2].
Proof. vm_compute. reflexivity. Qed.
Example ex_get_b_1 : db_get_at ex_state kb 1 = None.
Proof. vm_compute. reflexivity. Qed.
Example ex_get_all_agree :
  forallb (fun k => forallb (fun q =>
     match db_get_at ex_state k q, visible (all_entries ex_state) q k with
     | Some a, Some b => forallb (fun p => fst p =? snd p) (combine a b)
                         && Nat.eqb (length a) (length b)
     | None, None => true
     | _, _ => false
     end) [0; 1; 2; 3; 4; 5; 6; 7; 8; 9; 10; 11; 12; 13; 14; 15])
     [ka; kb; kc; kd; ke] = true.
Proof. vm_compute. reflexivity. Qed.

(** a write batch on [ex_state] *)
Example ex_write_then_get :
  let s' := lsm_step false false 1000 ex_state (SWrite [WPut kd [9]; WDel kb; WPut ke [8]; WDel ke]) in
  (lsm_wf_b s', db_get s' ka, db_get s' kb, db_get s' kc, db_get s' kd, db_get s' ke)
  = (true, None, None, Some [3; 14], Some [9], None).
Proof. vm_compute. reflexivity. Qed.

Example ex_contents :
  contents (all_entries ex_state) (l_seq ex_state) = [(kb, [2; 6]); (kc, [3; 14])].
Proof. vm_compute. reflexivity. Qed.

(** the stale read of the recency-violating state *)
Example bad_state_stale :
  (db_get_at bad_state ka 14, visible (all_entries bad_state) 14 ka) = (Some [1; 2], Some [1; 7]).
Proof. vm_compute. reflexivity. Qed.

(** * The LRU cache behind the block cache and the table cache ([model/Cache.v]): a hit is never stale *)
From Coq Require Import List NArith Permutation.
From RainVerif.model Require Import Cache.
From RainVerif.proofs Require Import CacheProofs.
Import ListNotations.

(** ** T1 invariant (any capacity, also 0) *)
Theorem C01_cache_T1_invariant : forall cap ops,
  let c := lru_exec (lru_new cap) ops in
  lru_cap c = cap /\ NoDup (map fst (lru_entries c)) /\ (length (lru_entries c) <= cap)%nat.
Proof. exact lru_invariant. Qed.
Print Assumptions C01_cache_T1_invariant.

Theorem C01_cache_T1_reachable_inv : forall cap ops, lru_inv cap (lru_exec (lru_new cap) ops).
Proof. exact lru_reachable_inv. Qed.
Print Assumptions C01_cache_T1_reachable_inv.

Theorem C01_cache_T1_run_count_le_cap : forall cap ops x,
  In x (lru_run (lru_new cap) ops) -> (snd x <= cap)%nat.
Proof. exact lru_run_count_le_cap. Qed.
Print Assumptions C01_cache_T1_run_count_le_cap.

(** the answer of a get in a run is what the state before it holds *)
Theorem C01_cache_run_get_observes_state : forall cap pre k rest d,
  fst (nth (length pre) (lru_run (lru_new cap) (pre ++ CGet k :: rest)) d) =
  lru_find k (lru_entries (lru_exec (lru_new cap) pre)).
Proof. exact lru_run_get_observes_state. Qed.
Print Assumptions C01_cache_run_get_observes_state.

(** ** T2 a hit is never stale (any capacity) *)
Theorem C01_cache_T2_submap_of_spec : forall cap ops k v,
  lru_find k (lru_entries (lru_exec (lru_new cap) ops)) = Some v ->
  lru_find k (spec_map ops []) = Some v.
Proof. exact lru_submap_of_spec. Qed.
Print Assumptions C01_cache_T2_submap_of_spec.

Theorem C01_cache_T2_hit_not_stale : forall cap pre k rest v n d,
  nth (length pre) (lru_run (lru_new cap) (pre ++ CGet k :: rest)) d = (Some v, n) ->
  lru_find k (spec_map pre []) = Some v.
Proof. exact lru_hit_not_stale. Qed.
Print Assumptions C01_cache_T2_hit_not_stale.

(** the unbounded map holds [v] at [k] iff the latest insert of [k] wrote [v] and no remove of [k] follows *)
Theorem C01_cache_T2_spec_map_latest_insert : forall ops k v,
  lru_find k (spec_map ops []) = Some v <->
  exists p s, ops = p ++ CInsert k v :: s /\ Forall (nowrite k) s.
Proof. exact spec_map_latest_insert. Qed.
Print Assumptions C01_cache_T2_spec_map_latest_insert.

Theorem C01_cache_T2_hit_latest_insert : forall cap pre k rest v n d,
  nth (length pre) (lru_run (lru_new cap) (pre ++ CGet k :: rest)) d = (Some v, n) ->
  exists p s, pre = p ++ CInsert k v :: s /\ Forall (nowrite k) s.
Proof. exact lru_hit_latest_insert. Qed.
Print Assumptions C01_cache_T2_hit_latest_insert.

(** ** T3 what is kept (capacity >= 1) *)
Theorem C01_cache_T3_insert_then_get : forall cap pre k v d, (1 <= cap)%nat ->
  fst (last (lru_run (lru_new cap) ((pre ++ [CInsert k v]) ++ [CGet k])) d) = Some v.
Proof. exact lru_insert_then_get_run. Qed.
Print Assumptions C01_cache_T3_insert_then_get.

Theorem C01_cache_T3_kept : forall cap pre k v others ks rest d,
  (length ks < cap)%nat -> ~ In k ks -> Forall (fun o => In (cop_key o) ks) others ->
  exists n,
    nth (length (pre ++ CInsert k v :: others))
        (lru_run (lru_new cap) ((pre ++ CInsert k v :: others) ++ CGet k :: rest)) d = (Some v, n).
Proof. exact lru_kept. Qed.
Print Assumptions C01_cache_T3_kept.

Theorem C01_cache_T3_kept_distinct : forall cap pre k v others rest d,
  (length (nodup N.eq_dec (map cop_key others)) < cap)%nat -> ~ In k (map cop_key others) ->
  exists n,
    nth (length (pre ++ CInsert k v :: others))
        (lru_run (lru_new cap) ((pre ++ CInsert k v :: others) ++ CGet k :: rest)) d = (Some v, n).
Proof. exact lru_kept_distinct. Qed.
Print Assumptions C01_cache_T3_kept_distinct.

(** gets of [k] itself, misses and removes of other keys do not count *)
Theorem C01_cache_T3_kept_general : forall cap pre k v others ks,
  (length ks < cap)%nat -> Forall (keeps k ks) others ->
  lru_find k (lru_entries (lru_exec (lru_new cap) (pre ++ CInsert k v :: others))) = Some v.
Proof. exact lru_kept_general. Qed.
Print Assumptions C01_cache_T3_kept_general.

(** ** T4 eviction order (states with the invariant, in particular all reachable ones) *)
Theorem C01_cache_T4_insert_present_no_eviction : forall cap c k v w, lru_inv cap c ->
  lru_find k (lru_entries c) = Some w ->
  exists a b, lru_entries c = a ++ (k, w) :: b /\
              lru_entries (lru_insert c k v) = (k, v) :: a ++ b.
Proof. exact lru_insert_present. Qed.
Print Assumptions C01_cache_T4_insert_present_no_eviction.

Theorem C01_cache_T4_insert_room_no_eviction : forall cap c k v, lru_inv cap c ->
  lru_find k (lru_entries c) = None -> (length (lru_entries c) < cap)%nat ->
  lru_entries (lru_insert c k v) = (k, v) :: lru_entries c.
Proof. exact lru_insert_room. Qed.
Print Assumptions C01_cache_T4_insert_room_no_eviction.

Theorem C01_cache_T4_insert_evicts_last : forall cap c k v, (1 <= cap)%nat -> lru_inv cap c ->
  lru_find k (lru_entries c) = None -> length (lru_entries c) = cap ->
  exists l0 e, lru_entries c = l0 ++ [e] /\
               lru_entries (lru_insert c k v) = (k, v) :: l0 /\
               lru_find (fst e) (lru_entries (lru_insert c k v)) = None /\
               forall k', k' <> fst e ->
                 lru_find k' (lru_entries (lru_insert c k v)) = lru_find k' ((k, v) :: lru_entries c).
Proof. exact lru_insert_evicts_last. Qed.
Print Assumptions C01_cache_T4_insert_evicts_last.

Theorem C01_cache_T4_get_hit_moves_front : forall cap c k v, lru_inv cap c ->
  lru_find k (lru_entries c) = Some v ->
  snd (lru_get c k) = Some v /\
  exists a b, lru_entries c = a ++ (k, v) :: b /\
              lru_entries (fst (lru_get c k)) = (k, v) :: a ++ b.
Proof. exact lru_get_hit_moves_front. Qed.
Print Assumptions C01_cache_T4_get_hit_moves_front.

Theorem C01_cache_T4_get_hit_same_entries : forall cap c k v, lru_inv cap c ->
  lru_find k (lru_entries c) = Some v ->
  Permutation (lru_entries (fst (lru_get c k))) (lru_entries c).
Proof. exact lru_get_hit_same_entries. Qed.
Print Assumptions C01_cache_T4_get_hit_same_entries.

Theorem C01_cache_T4_get_miss_unchanged : forall c k, lru_find k (lru_entries c) = None ->
  lru_get c k = (c, None).
Proof. exact lru_get_miss_unchanged. Qed.
Print Assumptions C01_cache_T4_get_miss_unchanged.

(** ** T5 remove (any state, any capacity) *)
Theorem C01_cache_T5_remove_then_get : forall cap pre k d,
  fst (last (lru_run (lru_new cap) ((pre ++ [CRemove k]) ++ [CGet k])) d) = None.
Proof. exact lru_remove_then_get_run. Qed.
Print Assumptions C01_cache_T5_remove_then_get.

Theorem C01_cache_T5_removed_stays_absent : forall cap pre k s rest d,
  Forall (noinsert k) s ->
  fst (nth (length (pre ++ CRemove k :: s))
           (lru_run (lru_new cap) ((pre ++ CRemove k :: s) ++ CGet k :: rest)) d) = None.
Proof. exact lru_removed_stays_absent. Qed.
Print Assumptions C01_cache_T5_removed_stays_absent.

Theorem C01_cache_T5_remove_absent : forall c k, lru_find k (lru_entries c) = None -> lru_remove c k = c.
Proof. exact lru_remove_absent. Qed.
Print Assumptions C01_cache_T5_remove_absent.

Theorem C01_cache_T5_remove_others : forall c k k', k' <> k ->
  lru_find k' (lru_entries (lru_remove c k)) = lru_find k' (lru_entries c).
Proof. exact lru_remove_others. Qed.
Print Assumptions C01_cache_T5_remove_others.

(** ** T6 examples *)
(** capacity 2: insert 1, insert 2, get 1, insert 3 evicts 2 (not 1) *)
Example C01_cache_T6_evicts_lru_state :
  lru_entries (lru_exec (lru_new 2) [CInsert 1 10; CInsert 2 20; CGet 1; CInsert 3 30]) = [(3, 30); (1, 10)].
Proof. vm_compute. reflexivity. Qed.

Example C01_cache_T6_evicts_lru_run :
  lru_run (lru_new 2) [CInsert 1 10; CInsert 2 20; CGet 1; CInsert 3 30; CGet 2; CGet 1; CGet 3] =
  [(Some 10, 1%nat); (Some 20, 2%nat); (Some 10, 2%nat); (Some 30, 2%nat);
   (None, 2%nat); (Some 10, 2%nat); (Some 30, 2%nat)].
Proof. vm_compute. reflexivity. Qed.

(** without the get, 1 is the one evicted *)
Example C01_cache_T6_no_get_evicts_oldest :
  lru_run (lru_new 2) [CInsert 1 10; CInsert 2 20; CInsert 3 30; CGet 1; CGet 2] =
  [(Some 10, 1%nat); (Some 20, 2%nat); (Some 30, 2%nat); (None, 2%nat); (Some 20, 2%nat)].
Proof. vm_compute. reflexivity. Qed.

(** re-inserting a present key at capacity replaces the value and evicts nothing *)
Example C01_cache_T6_reinsert_no_eviction :
  lru_run (lru_new 2) [CInsert 1 10; CInsert 2 20; CInsert 1 11; CGet 2; CGet 1] =
  [(Some 10, 1%nat); (Some 20, 2%nat); (Some 11, 2%nat); (Some 20, 2%nat); (Some 11, 2%nat)].
Proof. vm_compute. reflexivity. Qed.

(** capacity 1 keeps the latest entry *)
Example C01_cache_T6_cap1 :
  lru_run (lru_new 1) [CInsert 1 10; CGet 1; CInsert 2 20; CGet 1; CGet 2] =
  [(Some 10, 1%nat); (Some 10, 1%nat); (Some 20, 1%nat); (None, 1%nat); (Some 20, 1%nat)].
Proof. vm_compute. reflexivity. Qed.

(** T3 needs capacity >= 1: with capacity 0 (excluded by the code's assertion) the inserted entry
    is evicted at once *)
Example C01_cache_T3_cap0_refuted :
  lru_run (lru_new 0) [CInsert 1 10; CGet 1] = [(Some 10, 0%nat); (None, 0%nat)].
Proof. vm_compute. reflexivity. Qed.
