(** Specifications for C13 (and the list-cursor specification reused by C04): what a table file
    must give back, stated on the sorted entry list alone; and the block-cut rule of
    [TableBuilder::add_entry]. Definitions only. *)
From RainVerif Require Import Params.
From RainVerif.model Require Import Bytes Key Block Table.
Open Scope N_scope.

(** ** The sorted-list cursor: the specification of every internal iterator *)

Section LISTCURSOR.
Variable l : list entry.

Fixpoint lower_bound_from (l' : list entry) (i : nat) (t : ikey) : option nat :=
  match l' with
  | [] => None
  | e :: r => if ikey_ltb (fst e) t then lower_bound_from r (S i) t else Some i
  end.

Definition lc_seek (t : ikey) : option nat := lower_bound_from l O t.
Definition lc_first : option nat := match l with [] => None | _ => Some O end.
Definition lc_last : option nat := match l with [] => None | _ => Some (length l - 1)%nat end.
Definition lc_next (p : option nat) : option nat :=
  match p with
  | None => None
  | Some i => if Nat.ltb (S i) (length l) then Some (S i) else None
  end.
Definition lc_prev (p : option nat) : option nat :=
  match p with
  | None => None
  | Some O => None
  | Some (S i) => Some i
  end.

Definition lc_step (p : option nat) (o : cop) : option nat :=
  match o with
  | CSeek k => lc_seek k
  | CFirst => lc_first
  | CLast => lc_last
  | CNext => lc_next p
  | CPrev => lc_prev p
  end.

Definition lc_current (p : option nat) : option entry :=
  match p with None => None | Some i => nth_error l i end.

Fixpoint lc_run (p : option nat) (ops : list cop) : list (option entry) :=
  match ops with
  | [] => []
  | o :: r => let p' := lc_step p o in lc_current p' :: lc_run p' r
  end.
End LISTCURSOR.

(** ** Point lookups: newest entry of the user key at or below the sequence bound *)

Definition get_spec (es : list entry) (target : ikey) : get_result :=
  match find (fun e => negb (ikey_ltb (fst e) target)) es with
  | None => GNotFound
  | Some (k, v) =>
      if negb (bytes_eqb (ik_user k) (ik_user target)) then GNotFound
      else if ik_op k =? OP_DELETE then GDeleted
      else GFound v
  end.

(** ** Block cuts of [TableBuilder]: a block is flushed before adding an entry when the size
    estimate of the block under construction has reached [max_block_size] *)

Fixpoint table_cuts_loop (bs ri : N) (es : list entry) (bb : bbuilder) (cur : nat) : list nat :=
  match es with
  | [] => []
  | e :: r =>
      let kb := ikey_encode (fst e) in
      if (bs <=? bb_approx_size bb) && negb (Nat.eqb cur 0) then
        (cur - 1)%nat :: table_cuts_loop bs ri r (bb_add ri bb_new kb (snd e)) 1
      else
        table_cuts_loop bs ri r (bb_add ri bb kb (snd e)) (S cur)
  end.

Definition table_cuts (bs : N) (es : list entry) : list nat :=
  table_cuts_loop bs PREFIX_COMPRESSION_RESTART_INTERVAL es bb_new O.

Definition table_build_bs (bs : N) (es : list entry) : option table :=
  table_build es (table_cuts bs es).

(** strictly sorted in internal-key order (the precondition of [TableBuilder]) *)
Fixpoint sorted_entries (es : list entry) : bool :=
  match es with
  | [] => true
  | e :: r =>
      match r with
      | [] => true
      | e' :: _ => ikey_ltb (fst e) (fst e') && sorted_entries r
      end
  end.

Definition data_block_encode (es : list entry) : bytes :=
  block_encode PREFIX_COMPRESSION_RESTART_INTERVAL es.

(** ** Well-formedness of a table with respect to its sorted entry list (the interface between
    the key/block layer and the iterator/lookup layer) *)

Definition ikey_lt (a b : ikey) : Prop := ikey_cmp a b = Lt.
Definition ikey_le (a b : ikey) : Prop := ikey_cmp a b <> Gt.

(** index key [k] of block [b] followed by block [b']: at least the last key of [b], and either
    order-equivalent to it or with a user key strictly below the first user key of [b'] *)
Inductive index_ok : list (list entry) -> list ikey -> Prop :=
| iok_nil : index_ok [] []
| iok_last b k :
    b <> [] ->
    (forall lk, last_key b = Some lk -> ikey_le lk k) ->
    index_ok [b] [k]
| iok_cons b b' r k ks :
    b <> [] ->
    (forall lk fk, last_key b = Some lk -> first_key b' = Some fk ->
       ikey_le lk k /\ (ikey_cmp lk k = Eq \/ bytes_ltb (ik_user k) (ik_user fk) = true)) ->
    index_ok (b' :: r) ks ->
    index_ok (b :: b' :: r) (k :: ks).

Definition table_wf (t : table) (es : list entry) : Prop :=
  concat (t_blocks t) = es /\
  sorted_entries es = true /\
  index_ok (t_blocks t) (map fst (t_index t)).
