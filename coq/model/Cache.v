(** Model of [LRUCache] ([src/utils/cache.rs]): the block cache and the table cache of the read
    path. Entries most recently used first. [insert] replaces an existing entry of the key, puts the
    new entry in front and evicts the entry at the back when the capacity is exceeded; [get] moves
    the entry to the front; [remove] drops it. Handles given out earlier keep their value (they
    are reference counted in the code; the model returns values). Definitions only. *)
From Coq Require Export List NArith Bool.
Export ListNotations.
Open Scope N_scope.

Record lru := mkLru { lru_cap : nat; lru_entries : list (N * N) }.   (* (key, value), MRU first *)

Definition lru_new (cap : nat) : lru := mkLru cap [].

Definition drop_key (k : N) (l : list (N * N)) : list (N * N) :=
  filter (fun e => negb (fst e =? k)) l.

Definition lru_find (k : N) (l : list (N * N)) : option N :=
  match find (fun e => fst e =? k) l with Some e => Some (snd e) | None => None end.

Definition lru_insert (c : lru) (k v : N) : lru :=
  let l := (k, v) :: drop_key k (lru_entries c) in
  mkLru (lru_cap c) (if Nat.ltb (lru_cap c) (length l) then removelast l else l).

Definition lru_get (c : lru) (k : N) : lru * option N :=
  match lru_find k (lru_entries c) with
  | Some v => (mkLru (lru_cap c) ((k, v) :: drop_key k (lru_entries c)), Some v)
  | None => (c, None)
  end.

Definition lru_remove (c : lru) (k : N) : lru := mkLru (lru_cap c) (drop_key k (lru_entries c)).

Inductive cop := CInsert (k v : N) | CGet (k : N) | CRemove (k : N).

(** one operation; the observation is the value a get returns and the number of entries *)
Definition lru_step (c : lru) (o : cop) : lru * (option N * nat) :=
  match o with
  | CInsert k v => let c' := lru_insert c k v in (c', (Some v, length (lru_entries c')))
  | CGet k => let x := lru_get c k in (fst x, (snd x, length (lru_entries (fst x))))
  | CRemove k => let c' := lru_remove c k in (c', (None, length (lru_entries c')))
  end.

Fixpoint lru_run (c : lru) (ops : list cop) : list (option N * nat) :=
  match ops with
  | [] => []
  | o :: r => let x := lru_step c o in snd x :: lru_run (fst x) r
  end.

(** the specification: an unbounded map in which the latest insert of a key wins *)
Fixpoint spec_map (ops : list cop) (m : list (N * N)) : list (N * N) :=
  match ops with
  | [] => m
  | CInsert k v :: r => spec_map r ((k, v) :: drop_key k m)
  | CGet _ :: r => spec_map r m
  | CRemove k :: r => spec_map r (drop_key k m)
  end.
