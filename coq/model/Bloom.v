(** Model of [src/filter_policy.rs]: [BloomFilterPolicy::{new, hash, create_filter,
    key_may_match}]. Byte exact. Definitions only. *)
From RainVerif.model Require Import Bytes.
Open Scope N_scope.

Definition w32 (x : N) : N := x mod 4294967296.

(** [BloomFilterPolicy::new]: [floor(bits_per_key * 0.69)] clamped to 1..30 (integer arithmetic;
    agrees with the f64 computation for every value below the clamp, validated by the
    correspondence suite for bits_per_key 0..200). *)
Definition num_probes (bpk : N) : N :=
  let k := bpk * 69 / 100 in
  if k <? 1 then 1 else if 30 <? k then 30 else k.

Definition bloom_seed : N := 3164544308.       (* 0xbc9f1d34 *)
Definition bloom_mult : N := 3332679571.       (* 0xc6a4a793 *)

Fixpoint hash_words (fuel : nat) (h : N) (d : bytes) : N * bytes :=
  match fuel with
  | O => (h, d)
  | S f =>
      match d with
      | b0 :: b1 :: b2 :: b3 :: r =>
          let w := le_decode [b0; b1; b2; b3] in
          let h1 := w32 (w32 (h + w) * bloom_mult) in
          hash_words f (N.lxor h1 (N.shiftr h1 16)) r
      | _ => (h, d)
      end
  end.

Definition hash_tail (h : N) (d : bytes) : N :=
  match d with
  | [b0; b1; b2] =>
      let h1 := w32 (h + b2 * 65536) in
      let h2 := w32 (h1 + b1 * 256) in
      let h3 := w32 (w32 (h2 + b0) * bloom_mult) in
      N.lxor h3 (N.shiftr h3 24)
  | [b0; b1] =>
      let h2 := w32 (h + b1 * 256) in
      let h3 := w32 (w32 (h2 + b0) * bloom_mult) in
      N.lxor h3 (N.shiftr h3 24)
  | [b0] =>
      let h3 := w32 (w32 (h + b0) * bloom_mult) in
      N.lxor h3 (N.shiftr h3 24)
  | _ => h
  end.

Definition bloom_hash (d : bytes) : N :=
  let h0 := N.lxor bloom_seed (w32 (w32 (blen d) * bloom_mult)) in
  let x := hash_words (length d) h0 d in
  hash_tail (fst x) (snd x).

(** bit vectors as byte lists *)
Fixpoint update_nth (i : nat) (f : N -> N) (l : bytes) : bytes :=
  match l, i with
  | [], _ => []
  | x :: r, O => f x :: r
  | x :: r, S i' => x :: update_nth i' f r
  end.

Definition set_bit (arr : bytes) (bit : N) : bytes :=
  update_nth (N.to_nat (bit / 8)) (fun b => N.lor b (2 ^ (bit mod 8))) arr.

Definition test_bit (arr : bytes) (bit : N) : bool :=
  negb (N.land (nth (N.to_nat (bit / 8)) arr 0) (2 ^ (bit mod 8)) =? 0).

(** [(hash >> 17) | (hash << 15)] on u32, written arithmetically (a rotation) *)
Definition bloom_delta (h : N) : N := h / 131072 + (h mod 131072) * 32768.

Section BLOOM.
Variable hash : bytes -> N.   (* any function; the code uses [bloom_hash] *)

Fixpoint probe_set (k : nat) (m : N) (h delta : N) (arr : bytes) : bytes :=
  match k with
  | O => arr
  | S k' => probe_set k' m (w32 (h + delta)) delta (set_bit arr (h mod m))
  end.

Fixpoint probe_test (k : nat) (m : N) (h delta : N) (arr : bytes) : bool :=
  match k with
  | O => true
  | S k' => if test_bit arr (h mod m) then probe_test k' m (w32 (h + delta)) delta arr else false
  end.

Definition add_key (k : nat) (m : N) (arr : bytes) (key : bytes) : bytes :=
  let h := w32 (hash key) in
  probe_set k m h (bloom_delta h) arr.

(** [create_filter]; [None] models the panic (remainder by zero) when the bit count truncated
    to u32 is zero. [k] = number of probes, [bpk] = bits per key. *)
Definition filter_bits (bpk : N) (nkeys : N) : N :=
  let b0 := nkeys * bpk in
  let b1 := if b0 <? 64 then 64 else b0 in
  ((b1 + 7) / 8) * 8.

Definition create_filter (k : N) (bpk : N) (keys : list bytes) : option bytes :=
  let bits := filter_bits bpk (N.of_nat (length keys)) in
  let m := w32 bits in
  if m =? 0 then None
  else
    let arr := fold_left (add_key (N.to_nat k) m) keys (zeros (N.to_nat (bits / 8))) in
    Some ((k mod 256) :: arr).

(** [key_may_match]: [None] = [Err(FilterPolicyError::Parse)] *)
Inductive match_result := MErr | MPanic | MOk (b : bool).

Definition key_may_match (key : bytes) (filter : bytes) : match_result :=
  match filter with
  | [] | [_] => MErr
  | k :: arr =>
      let m := w32 (blen arr * 8) in
      if (m =? 0) && negb (k =? 0) then MPanic
      else
        let h := w32 (hash key) in
        MOk (probe_test (N.to_nat k) m h (bloom_delta h) arr)
  end.

End BLOOM.

Definition bloom_create (bpk : N) (keys : list bytes) : option bytes :=
  create_filter bloom_hash (num_probes bpk) bpk keys.
Definition bloom_match (key filter : bytes) : match_result :=
  key_may_match bloom_hash key filter.
