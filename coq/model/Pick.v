(** What triggers compactions ([src/versioning/version.rs]: [finalize] = the size score of every
    level, [record_read_sample] / [update_stats] = seek statistics fed by iterators and gets;
    [src/versioning/file_metadata.rs]: [allowed_seeks]). Definitions only. *)
From Coq Require Import ZArith.
From RainVerif Require Import Params.
From RainVerif.model Require Import Bytes Key Version.
Open Scope N_scope.

Definition SEEK_DATA_SIZE_THRESHOLD : N := SEEK_DATA_SIZE_THRESHOLD_KIB.

(** [Version::max_bytes_for_level] (levels >= 1): 10 MiB, times 10 per further level *)
Fixpoint max_bytes_for_level (l : nat) : N :=
  match l with
  | O => 10485760
  | S O => 10485760
  | S l' => 10 * max_bytes_for_level l'
  end.

(** the score of a level as a fraction (numerator, denominator): level 0 counts files (integer
    division by the trigger, as the code does before converting to a float), the others bytes *)
Definition level_score (v : version) (l : nat) : N * N :=
  match l with
  | O => (N.of_nat (length (level_files v O)) / L0_COMPACTION_TRIGGER, 1)
  | _ => (sum_sizes (level_files v l), max_bytes_for_level l)
  end.

Definition score_gtb (a b : N * N) : bool := fst b * snd a <? fst a * snd b.

(** [finalize]: the first level with the maximal score (a later level replaces the best one only
    when its score is strictly greater) *)
Fixpoint best_level_from (v : version) (l : nat) (n : nat) (best : nat) : nat :=
  match n with
  | O => best
  | S n' =>
      let best' := if score_gtb (level_score v l) (level_score v best) then l else best in
      best_level_from v (S l) n' best'
  end.

Definition size_compaction_level (v : version) : nat :=
  best_level_from v 1 (N.to_nat MAX_NUM_LEVELS - 1) O.

(** [requires_size_compaction]: the best score is at least 1 *)
Definition requires_size_compaction (v : version) : bool :=
  let s := level_score v (size_compaction_level v) in snd s <=? fst s.

(** ** seek statistics *)
Definition initial_allowed_seeks (size : N) : N := N.max 100 (size / SEEK_DATA_SIZE_THRESHOLD).

Record seekstate := mkSS {
  ss_allowed : list (N * Z);              (* file number -> allowed seeks left (may go below 0) *)
  ss_to_compact : option (N * nat)        (* file_to_compact and level_of_file_to_compact *)
}.

Definition ss_init (v : version) : seekstate :=
  mkSS (map (fun f => (fm_num f, Z.of_N (initial_allowed_seeks (fm_size f)))) (concat v)) None.

Definition allowed_of (st : seekstate) (n : N) : Z :=
  match find (fun p => fst p =? n) (ss_allowed st) with Some p => snd p | None => 0%Z end.

(** [update_stats] for a charge to file [f] found at [level] *)
Definition update_stats (st : seekstate) (f : fmeta) (level : nat) : seekstate * bool :=
  let allowed := map (fun p => if fst p =? fm_num f then (fst p, (snd p - 1)%Z) else p) (ss_allowed st) in
  let left := (allowed_of st (fm_num f) - 1)%Z in
  match ss_to_compact st with
  | None => if (left <=? 0)%Z then (mkSS allowed (Some (fm_num f, level)), true) else (mkSS allowed None, false)
  | Some _ => (mkSS allowed (ss_to_compact st), false)
  end.

(** the files that may hold the key, youngest first, with their levels *)
Definition files_with_key (v : version) (target : ikey) : list (fmeta * nat) :=
  let fix go (level : nat) (ls : list (list fmeta)) : list (fmeta * nat) :=
      match ls with
      | [] => []
      | fs :: r => map (fun f => (f, level)) fs ++ go (S level) r
      end in
  go O (get_overlapping_files v target).

(** [record_read_sample]: with at least two files holding the key, charge the youngest *)
Definition read_sample (v : version) (st : seekstate) (target : ikey) : seekstate * bool :=
  match files_with_key v target with
  | (f, level) :: _ :: _ => update_stats st f level
  | _ => (st, false)
  end.

Fixpoint read_samples (v : version) (st : seekstate) (keys : list ikey) : list (bool * option (N * nat)) :=
  match keys with
  | [] => []
  | k :: r =>
      let x := read_sample v st k in
      (snd x, ss_to_compact (fst x)) :: read_samples v (fst x) r
  end.
