(** Model of [src/key.rs] ([InternalKey]: ordering, equality, serialisation, shortest
    separator / successor) and [src/utils/bytes.rs]. Byte exact. Definitions only. *)
From RainVerif.model Require Import Bytes.
Open Scope N_scope.

Definition OP_DELETE : N := 0.
Definition OP_PUT : N := 1.
Definition MAX_SEQ : N := 18446744073709551615.   (* u64::MAX *)

Record ikey := mkIKey { ik_user : bytes; ik_seq : N; ik_op : N }.

(** [impl Ord for InternalKey]: user key ascending, then sequence number descending; the
    operation does not take part. *)
Definition ikey_cmp (a b : ikey) : comparison :=
  match bytes_cmp (ik_user a) (ik_user b) with
  | Eq => N.compare (ik_seq b) (ik_seq a)
  | c => c
  end.

Definition ikey_ltb (a b : ikey) : bool :=
  match ikey_cmp a b with Lt => true | _ => false end.
Definition ikey_leb (a b : ikey) : bool :=
  match ikey_cmp a b with Gt => false | _ => true end.

(** [impl PartialEq]: all three fields *)
Definition ikey_eqb (a b : ikey) : bool :=
  bytes_eqb (ik_user a) (ik_user b) && (ik_seq a =? ik_seq b) && (ik_op a =? ik_op b).

Definition ikey_encode (k : ikey) : bytes :=
  ik_user k ++ le_encode 8 (ik_seq k) ++ [ik_op k].

(** [TryFrom<Vec<u8>>]: [None] = parse error *)
Definition ikey_decode (b : bytes) : option ikey :=
  let n := length b in
  if Nat.ltb n 9 then None
  else
    let u := firstn (n - 9) b in
    let s := le_decode (firstn 8 (skipn (n - 9) b)) in
    let o := nth (n - 1) b 0 in
    if 1 <? o then None else Some (mkIKey u s o).

(** ** [BinarySeparable for &[u8]] *)

Fixpoint common_prefix_len (a b : bytes) : nat :=
  match a, b with
  | x :: a', y :: b' => if x =? y then S (common_prefix_len a' b') else O
  | _, _ => O
  end.

Definition bytes_separator (smaller greater : bytes) : bytes :=
  let d := common_prefix_len smaller greater in
  if Nat.leb (Nat.min (length smaller) (length greater)) d then smaller
  else
    let x := nth d smaller 0 in
    if (x <? 255) && (x + 1 <? nth d greater 0) then firstn d smaller ++ [x + 1]
    else smaller.

Fixpoint bytes_successor (v : bytes) : bytes :=
  match v with
  | [] => []
  | b :: r => if b =? 255 then b :: bytes_successor r else [b + 1]
  end.

(** ** [BinarySeparable for &InternalKey]; [None] = one of the [assert!]s fails *)

Definition ikey_separator (smaller greater : ikey) : option bytes :=
  let us := bytes_separator (ik_user smaller) (ik_user greater) in
  if Nat.ltb (length us) (length (ik_user smaller)) && bytes_ltb (ik_user smaller) us then
    let full := mkIKey us MAX_SEQ OP_PUT in
    if ikey_ltb smaller full && ikey_ltb full greater then Some (ikey_encode full) else None
  else Some (ikey_encode smaller).

Definition ikey_successor (v : ikey) : option bytes :=
  let us := bytes_successor (ik_user v) in
  if Nat.ltb (length us) (length (ik_user v)) && bytes_ltb (ik_user v) us then
    let full := mkIKey us MAX_SEQ OP_PUT in
    if ikey_ltb v full then Some (ikey_encode full) else None
  else Some (ikey_encode v).
