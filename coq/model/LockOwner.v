(** Model of database ownership (property C17): [DB::open], closing a handle and
    [DB::destroy_database] on one path of a disk-backed file system, as atomic transitions over
    an OS lock table with [try_lock_exclusive] semantics ([src/db.rs] open / destroy_database,
    [src/fs/fs_disk.rs] lock_file). The kernel's flock behaviour is an assumption: a lock is held
    by at most one open file description, acquiring fails without blocking when it is held, and
    closing the description releases it. Definitions only. *)
From Coq Require Export List NArith Bool.
Export ListNotations.
Open Scope N_scope.

(** the lock table for the one path: [Some h] = held by handle [h] *)
Record world := mkWorld {
  w_lock : option N;          (* owner of the LOCK file's flock *)
  w_open : list N;            (* handles that are open (returned Ok and not yet closed) *)
  w_exists : bool;            (* the database files exist *)
  w_gen : N                   (* incremented whenever the files are destroyed *)
}.

Definition world_init : world := mkWorld None [] false 0.

Inductive act :=
| AOpen (h : N)       (* DB::open with create_if_missing *)
| AClose (h : N)      (* drop the handle *)
| ADestroy.           (* DB::destroy_database *)

Inductive outcome := OOk | OErr | ONoHandle.

Definition remove_h (h : N) (l : list N) : list N := filter (fun x => negb (x =? h)) l.

Definition step (w : world) (a : act) : world * outcome :=
  match a with
  | AOpen h =>
      match w_lock w with
      | Some _ => (w, OErr)                         (* try_lock_exclusive fails: nothing changes *)
      | None => (mkWorld (Some h) (h :: w_open w) true (w_gen w), OOk)
      end
  | AClose h =>
      if existsb (N.eqb h) (w_open w) then
        (mkWorld (match w_lock w with
                  | Some o => if o =? h then None else Some o
                  | None => None
                  end) (remove_h h (w_open w)) (w_exists w) (w_gen w), OOk)
      else (w, ONoHandle)
  | ADestroy =>
      if negb (w_exists w) then (w, OErr)        (* nothing to destroy: listing the directory fails *)
      else
      match w_lock w with
      | Some _ => (w, OErr)
      | None =>
          (* the lock is taken for the duration of the call and released at its end; the call is
             one atomic transition here because nothing else can succeed while it runs *)
          (mkWorld None (w_open w) false (w_gen w + 1), OOk)
      end
  end.

Fixpoint run (w : world) (acts : list act) : world * list outcome :=
  match acts with
  | [] => (w, [])
  | a :: r =>
      let x := step w a in
      let y := run (fst x) r in
      (fst y, snd x :: snd y)
  end.

(** the invariant: the open handles are exactly the lock owner *)
Definition single_owner (w : world) : Prop :=
  match w_lock w with
  | Some h => w_open w = [h]
  | None => w_open w = []
  end.
