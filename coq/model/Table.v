(** Model of [src/tables/table_builder.rs] / [src/tables/table.rs] at the level of entries:
    a table is a sequence of data blocks (lists of entries) plus an index block whose i-th entry
    is (separator key, handle of block i). [Table::get] and [TwoLevelIterator] follow the code.
    The byte layout below the block level (Snappy framing, block trailer, footer, metaindex) is
    modelled rather than verified. Definitions only. *)
From RainVerif.model Require Import Bytes Key Block.
Open Scope N_scope.

Record table := mkTable {
  t_blocks : list (list entry);
  t_index : list entry       (* (separator, encoded handle); position i refers to block i *)
}.

(** ** Building: cut a sorted entry list into blocks of the given sizes *)

Fixpoint cut_blocks (es : list entry) (sizes : list nat) : list (list entry) :=
  match sizes with
  | [] => match es with [] => [] | _ => [es] end
  | n :: r =>
      match es with
      | [] => []
      | _ => firstn (S n) es :: cut_blocks (skipn (S n) es) r   (* sizes are stored minus one *)
      end
  end.

Definition last_key (b : list entry) : option ikey :=
  match rev b with [] => None | e :: _ => Some (fst e) end.
Definition first_key (b : list entry) : option ikey :=
  match b with [] => None | e :: _ => Some (fst e) end.

(** index keys: separator(last of block i, first of block i+1), successor(last of final block).
    [None] = an assertion failed or the separator does not parse as an internal key. *)
Fixpoint index_keys (blocks : list (list entry)) : option (list ikey) :=
  match blocks with
  | [] => Some []
  | b :: r =>
      match last_key b with
      | None => None
      | Some lk =>
          let sepb :=
            match r with
            | [] => ikey_successor lk
            | b' :: _ =>
                match first_key b' with
                | None => None
                | Some fk => ikey_separator lk fk
                end
            end in
          match sepb with
          | None => None
          | Some sb =>
              match ikey_decode sb, index_keys r with
              | Some k, Some ks => Some (k :: ks)
              | _, _ => None
              end
          end
      end
  end.

Definition table_build (es : list entry) (sizes : list nat) : option table :=
  let blocks := cut_blocks es sizes in
  match index_keys blocks with
  | None => None
  | Some ks => Some (mkTable blocks (map (fun k => (k, @nil N)) ks))
  end.

(** ** [Table::get] *)

Inductive get_result := GFound (v : bytes) | GDeleted | GNotFound.

Section GET.
(** [d3fix = false]: the pinned code, which answered "deleted" when the index seek ran off the
    end of the index; [true]: after the repair ([Err(KeyNotFound)]). *)
Variable d3fix : bool.
(** the filter block consulted with the block's handle and the user key *)
Variable filt : nat -> bytes -> bool.

Definition table_get (t : table) (target : ikey) : get_result :=
  let i := bi_seek (t_index t) O target in
  if negb (bi_valid (t_index t) i) then (if d3fix then GNotFound else GDeleted)
  else if negb (filt i (ik_user target)) then GNotFound
  else
    let b := nth i (t_blocks t) [] in
    let j := bi_seek b O target in
    match bi_current b j with
    | None => GNotFound
    | Some (k, v) =>
        if negb (bytes_eqb (ik_user k) (ik_user target)) then GNotFound
        else if ik_op k =? OP_DELETE then GDeleted
        else GFound v
    end.
End GET.

(** ** [TwoLevelIterator] *)

Record tl_state := mkTL {
  tl_idx : nat;                         (* index block iterator *)
  tl_data : option (nat * nat)          (* (block handle, data block iterator) *)
}.

Section TWOLEVEL.
Variable t : table.

Definition tl_new : tl_state := mkTL O None.

Definition blk (h : nat) : list entry := nth h (t_blocks t) [].

Definition tl_valid (s : tl_state) : bool :=
  match tl_data s with
  | None => false
  | Some (h, p) => bi_valid (blk h) p
  end.

Definition tl_current (s : tl_state) : option entry :=
  match tl_data s with
  | None => None
  | Some (h, p) => bi_current (blk h) p
  end.

Definition tl_init_data (s : tl_state) : tl_state :=
  if negb (bi_valid (t_index t) (tl_idx s)) then mkTL (tl_idx s) None
  else
    match tl_data s with
    | Some (h, p) => if Nat.eqb h (tl_idx s) then s else mkTL (tl_idx s) (Some (tl_idx s, O))
    | None => mkTL (tl_idx s) (Some (tl_idx s, O))
    end.

Definition data_invalid (s : tl_state) : bool := negb (tl_valid s).

(** [None] = panic ([seek_to_last] on an empty block) or fuel exhausted *)
Fixpoint tl_skip_fwd (fuel : nat) (s : tl_state) : option tl_state :=
  if data_invalid s then
    match fuel with
    | O => None
    | S f =>
        if negb (bi_valid (t_index t) (tl_idx s)) then Some (mkTL (tl_idx s) None)
        else
          let s1 := tl_init_data (mkTL (bi_next (t_index t) (tl_idx s)) (tl_data s)) in
          let s2 := match tl_data s1 with
                    | Some (h, _) => mkTL (tl_idx s1) (Some (h, O))
                    | None => s1
                    end in
          tl_skip_fwd f s2
    end
  else Some s.

Fixpoint tl_skip_bwd (fuel : nat) (s : tl_state) : option tl_state :=
  if data_invalid s then
    match fuel with
    | O => None
    | S f =>
        if negb (bi_valid (t_index t) (tl_idx s)) then Some (mkTL (tl_idx s) None)
        else
          let s1 := tl_init_data (mkTL (bi_prev (t_index t) (tl_idx s)) (tl_data s)) in
          match tl_data s1 with
          | Some (h, _) =>
              match bi_seek_last (blk h) O with
              | None => None
              | Some p => tl_skip_bwd f (mkTL (tl_idx s1) (Some (h, p)))
              end
          | None => tl_skip_bwd f s1
          end
    end
  else Some s.

Definition tl_fuel : nat := S (S (length (t_index t))).

Definition tl_seek (s : tl_state) (target : ikey) : option tl_state :=
  let s1 := tl_init_data (mkTL (bi_seek (t_index t) (tl_idx s) target) (tl_data s)) in
  let s2 := match tl_data s1 with
            | Some (h, p) => mkTL (tl_idx s1) (Some (h, bi_seek (blk h) p target))
            | None => s1
            end in
  tl_skip_fwd tl_fuel s2.

Definition tl_seek_first (s : tl_state) : option tl_state :=
  let s1 := tl_init_data (mkTL O (tl_data s)) in
  let s2 := match tl_data s1 with
            | Some (h, _) => mkTL (tl_idx s1) (Some (h, O))
            | None => s1
            end in
  tl_skip_fwd tl_fuel s2.

Definition tl_seek_last (s : tl_state) : option tl_state :=
  match bi_seek_last (t_index t) (tl_idx s) with
  | None => None
  | Some i =>
      let s1 := tl_init_data (mkTL i (tl_data s)) in
      match tl_data s1 with
      | Some (h, _) =>
          match bi_seek_last (blk h) O with
          | None => None
          | Some p => tl_skip_bwd tl_fuel (mkTL (tl_idx s1) (Some (h, p)))
          end
      | None => tl_skip_bwd tl_fuel s1
      end
  end.

Definition tl_next (s : tl_state) : option tl_state :=
  if negb (tl_valid s) then Some s
  else
    match tl_data s with
    | None => Some s
    | Some (h, p) =>
        let p' := bi_next (blk h) p in
        let s1 := mkTL (tl_idx s) (Some (h, p')) in
        if bi_valid (blk h) p' then Some s1 else tl_skip_fwd tl_fuel s1
    end.

Definition tl_prev (s : tl_state) : option tl_state :=
  if negb (tl_valid s) then Some s
  else
    match tl_data s with
    | None => Some s
    | Some (h, p) =>
        let p' := bi_prev (blk h) p in
        let s1 := mkTL (tl_idx s) (Some (h, p')) in
        if bi_valid (blk h) p' then Some s1 else tl_skip_bwd tl_fuel s1
    end.

End TWOLEVEL.

(** cursor operations shared by every iterator model *)
Inductive cop :=
| CSeek (target : ikey)
| CFirst
| CLast
| CNext
| CPrev.

Definition tl_step (t : table) (s : tl_state) (o : cop) : option tl_state :=
  match o with
  | CSeek k => tl_seek t s k
  | CFirst => tl_seek_first t s
  | CLast => tl_seek_last t s
  | CNext => tl_next t s
  | CPrev => tl_prev t s
  end.

(** run a script, reporting the entry under the cursor after every operation;
    [None] in the trace = invalid; the run stops with [false] at a panic *)
Fixpoint tl_run (t : table) (s : tl_state) (ops : list cop) : list (option entry) * bool :=
  match ops with
  | [] => ([], true)
  | o :: r =>
      match tl_step t s o with
      | None => ([], false)
      | Some s' =>
          let x := tl_run t s' r in
          (tl_current t s' :: fst x, snd x)
      end
  end.
