(** Byte-exact models of the write batch codec ([src/batch.rs]) and the version change (manifest
    record) codec ([src/versioning/version_manifest.rs], [src/versioning/file_metadata.rs]).
    Definitions only. *)
From RainVerif Require Import Params.
From RainVerif.model Require Import Bytes Key Block Version Lsm.
Open Scope N_scope.

(** ** varints through [VarIntReader::read_varint]: at most [maxlen] bytes are accepted (5 for
    u32, 10 for u64); [None] = error (end of input inside the varint, or unterminated) *)
Fixpoint varint_read (fuel : nat) (shift acc : N) (l : bytes) : option (N * bytes) :=
  match fuel with
  | O => None
  | S f =>
      match l with
      | [] => None
      | b :: r =>
          let acc' := (acc + (b mod 128) * 2 ^ shift) mod 18446744073709551616 in
          if b <? 128 then Some (acc', r) else varint_read f (shift + 7) acc' r
      end
  end.

Definition read_varint32 (l : bytes) : option (N * bytes) :=
  match varint_read 5 0 0 l with
  | Some (v, r) => Some (v mod 4294967296, r)
  | None => None
  end.
Definition read_varint64 (l : bytes) : option (N * bytes) := varint_read 10 0 0 l.

Definition varint64 (n : N) : bytes := varint_enc 10 n.

Definition read_slice (l : bytes) : option (bytes * bytes) :=
  match read_varint32 l with
  | None => None
  | Some (n, r) => if blen r <? n then None else Some (takeN n r, dropN n r)
  end.

Definition write_slice (s : bytes) : bytes := varint32 (blen s mod 4294967296) ++ s.

(** ** Write batches *)

Definition elem_encode (o : wop) : bytes :=
  match o with
  | WPut k v => [OP_PUT] ++ write_slice k ++ write_slice v
  | WDel k => [OP_DELETE] ++ write_slice k
  end.

Definition batch_encode (seq : N) (ops : list wop) : bytes :=
  le_encode 8 seq ++ varint32 (N.of_nat (length ops) mod 4294967296) ++ concat (map elem_encode ops).

Definition elem_decode (l : bytes) : option (wop * bytes) :=
  match l with
  | [] => None
  | t :: r =>
      if t =? OP_PUT then
        match read_slice r with
        | None => None
        | Some (k, r1) =>
            match read_slice r1 with
            | None => None
            | Some (v, r2) => Some (WPut k v, r2)
            end
        end
      else if t =? OP_DELETE then
        match read_slice r with
        | None => None
        | Some (k, r1) => Some (WDel k, r1)
        end
      else None
  end.

Fixpoint elems_decode (n : nat) (l : bytes) : option (list wop) :=
  match n with
  | O => Some []                        (* trailing bytes are ignored by the code *)
  | S n' =>
      match elem_decode l with
      | None => None
      | Some (o, r) =>
          match elems_decode n' r with
          | None => None
          | Some os => Some (o :: os)
          end
      end
  end.

Definition batch_decode (l : bytes) : option (N * list wop) :=
  if blen l <? 8 then None
  else
    let seq := le_decode (firstn 8 l) in
    match read_varint32 (skipn 8 l) with
    | None => None
    | Some (n, r) =>
        match elems_decode (N.to_nat n) r with
        | None => None
        | Some os => Some (seq, os)
        end
    end.

(** ** Version changes *)

Record vchange := mkVC {
  vc_wal : option N;
  vc_prev_wal : option N;
  vc_curr_file : option N;
  vc_prev_seq : option N;
  vc_pointers : list (N * ikey);
  vc_deleted : list (N * N);              (* (level, file number) *)
  vc_new : list (N * fmeta)               (* (level, file) *)
}.

Definition vc_empty : vchange := mkVC None None None None [] [] [].

Definition TAG_WAL : N := 2.
Definition TAG_CURR_FILE : N := 3.
Definition TAG_PREV_SEQ : N := 4.
Definition TAG_POINTER : N := 5.
Definition TAG_DELETED : N := 6.
Definition TAG_NEW_FILE : N := 7.
Definition TAG_PREV_WAL : N := 9.

Definition opt_field (tag : N) (o : option N) : bytes :=
  match o with Some v => varint32 tag ++ varint64 v | None => [] end.

Definition fmeta_encode (f : fmeta) : bytes :=
  varint64 (fm_num f) ++ varint64 (fm_size f)
  ++ write_slice (ikey_encode (fm_small f)) ++ write_slice (ikey_encode (fm_large f)).

Definition vchange_encode (c : vchange) : bytes :=
  opt_field TAG_WAL (vc_wal c) ++ opt_field TAG_PREV_WAL (vc_prev_wal c)
  ++ opt_field TAG_CURR_FILE (vc_curr_file c) ++ opt_field TAG_PREV_SEQ (vc_prev_seq c)
  ++ concat (map (fun p => varint32 TAG_POINTER ++ varint32 (fst p) ++ write_slice (ikey_encode (snd p)))
                 (vc_pointers c))
  ++ concat (map (fun d => varint32 TAG_DELETED ++ varint32 (fst d) ++ varint64 (snd d)) (vc_deleted c))
  ++ concat (map (fun n => varint32 TAG_NEW_FILE ++ varint32 (fst n) ++ fmeta_encode (snd n)) (vc_new c)).

Definition read_level (l : bytes) : option (N * bytes) :=
  match read_varint32 l with
  | Some (v, r) => if v <? MAX_NUM_LEVELS then Some (v, r) else None
  | None => None
  end.

Definition fmeta_decode (l : bytes) : option (fmeta * bytes) :=
  match read_varint64 l with
  | None => None
  | Some (num, r1) =>
      match read_varint64 r1 with
      | None => None
      | Some (size, r2) =>
          match read_slice r2 with
          | None => None
          | Some (sb, r3) =>
              match ikey_decode sb with
              | None => None
              | Some sk =>
                  match read_slice r3 with
                  | None => None
                  | Some (lb, r4) =>
                      match ikey_decode lb with
                      | None => None
                      | Some lk => Some (mkFM num size sk lk, r4)
                      end
                  end
              end
          end
      end
  end.

(** the decoding loop; deleted files form a set in the code (duplicates collapse) *)
Fixpoint vchange_decode_loop (fuel : nat) (l : bytes) (c : vchange) : option vchange :=
  match fuel with
  | O => None
  | S f =>
      match l with
      | [] => Some c
      | _ =>
          match read_varint32 l with
          | None => None
          | Some (tag, r) =>
              if tag =? TAG_WAL then
                match read_varint64 r with
                | Some (v, r') => vchange_decode_loop f r' (mkVC (Some v) (vc_prev_wal c) (vc_curr_file c) (vc_prev_seq c) (vc_pointers c) (vc_deleted c) (vc_new c))
                | None => None
                end
              else if tag =? TAG_PREV_WAL then
                match read_varint64 r with
                | Some (v, r') => vchange_decode_loop f r' (mkVC (vc_wal c) (Some v) (vc_curr_file c) (vc_prev_seq c) (vc_pointers c) (vc_deleted c) (vc_new c))
                | None => None
                end
              else if tag =? TAG_CURR_FILE then
                match read_varint64 r with
                | Some (v, r') => vchange_decode_loop f r' (mkVC (vc_wal c) (vc_prev_wal c) (Some v) (vc_prev_seq c) (vc_pointers c) (vc_deleted c) (vc_new c))
                | None => None
                end
              else if tag =? TAG_PREV_SEQ then
                match read_varint64 r with
                | Some (v, r') => vchange_decode_loop f r' (mkVC (vc_wal c) (vc_prev_wal c) (vc_curr_file c) (Some v) (vc_pointers c) (vc_deleted c) (vc_new c))
                | None => None
                end
              else if tag =? TAG_POINTER then
                match read_level r with
                | None => None
                | Some (lv, r1) =>
                    match read_slice r1 with
                    | None => None
                    | Some (kb, r2) =>
                        match ikey_decode kb with
                        | None => None
                        | Some k => vchange_decode_loop f r2 (mkVC (vc_wal c) (vc_prev_wal c) (vc_curr_file c) (vc_prev_seq c) (vc_pointers c ++ [(lv, k)]) (vc_deleted c) (vc_new c))
                        end
                    end
                end
              else if tag =? TAG_DELETED then
                match read_level r with
                | None => None
                | Some (lv, r1) =>
                    match read_varint64 r1 with
                    | None => None
                    | Some (num, r2) =>
                        let dup := existsb (fun d => (fst d =? lv) && (snd d =? num)) (vc_deleted c) in
                        vchange_decode_loop f r2 (mkVC (vc_wal c) (vc_prev_wal c) (vc_curr_file c) (vc_prev_seq c) (vc_pointers c)
                                                      (if dup then vc_deleted c else vc_deleted c ++ [(lv, num)]) (vc_new c))
                    end
                end
              else if tag =? TAG_NEW_FILE then
                match read_level r with
                | None => None
                | Some (lv, r1) =>
                    match fmeta_decode r1 with
                    | None => None
                    | Some (fm, r2) => vchange_decode_loop f r2 (mkVC (vc_wal c) (vc_prev_wal c) (vc_curr_file c) (vc_prev_seq c) (vc_pointers c) (vc_deleted c) (vc_new c ++ [(lv, fm)]))
                    end
                end
              else None
          end
      end
  end.

Definition vchange_decode (l : bytes) : option vchange :=
  vchange_decode_loop (S (length l)) l vc_empty.
