(** The specification of the database as seen through its API (properties C01, C03, C04, C06):
    a sorted association list, frozen copies for snapshots and iterators, and a sorted-map
    cursor. Definitions only. *)
From RainVerif.model Require Import Bytes Key Block Lsm.
Open Scope N_scope.

Definition kv := (bytes * bytes)%type.

Fixpoint map_put (k v : bytes) (m : list kv) : list kv :=
  match m with
  | [] => [(k, v)]
  | (k', v') :: r =>
      match bytes_cmp k k' with
      | Lt => (k, v) :: m
      | Eq => (k, v) :: r
      | Gt => (k', v') :: map_put k v r
      end
  end.

Fixpoint map_del (k : bytes) (m : list kv) : list kv :=
  match m with
  | [] => []
  | (k', v') :: r =>
      match bytes_cmp k k' with
      | Lt => m
      | Eq => r
      | Gt => (k', v') :: map_del k r
      end
  end.

Fixpoint map_get (k : bytes) (m : list kv) : option bytes :=
  match m with
  | [] => None
  | (k', v') :: r =>
      match bytes_cmp k k' with
      | Lt => None
      | Eq => Some v'
      | Gt => map_get k r
      end
  end.

Definition map_apply (m : list kv) (b : list wop) : list kv :=
  fold_left (fun m o => match o with WPut k v => map_put k v m | WDel k => map_del k m end) b m.

(** ** sorted-map cursor (the specification of [DatabaseIterator]) *)
Inductive iop := IFirst | ILast | ISeek (k : bytes) | INext | IPrev.

Fixpoint map_lower_bound (m : list kv) (i : nat) (k : bytes) : option nat :=
  match m with
  | [] => None
  | (k', _) :: r => if bytes_ltb k' k then map_lower_bound r (S i) k else Some i
  end.

(** [None] result = the operation is skipped because the iterator is invalid ([next]/[prev]
    require a valid iterator) *)
Definition cursor_step (m : list kv) (p : option nat) (o : iop) : option (option nat) :=
  match o with
  | IFirst => Some (match m with [] => None | _ => Some O end)
  | ILast => Some (match m with [] => None | _ => Some (length m - 1)%nat end)
  | ISeek k => Some (map_lower_bound m O k)
  | INext =>
      match p with
      | None => None
      | Some i => Some (if Nat.ltb (S i) (length m) then Some (S i) else None)
      end
  | IPrev =>
      match p with
      | None => None
      | Some O => Some None
      | Some (S i) => Some (Some i)
      end
  end.

Inductive iter_obs := OSkip | OInvalid | OAt (e : kv).

Fixpoint cursor_run (m : list kv) (p : option nat) (ops : list iop) : list iter_obs * option nat :=
  match ops with
  | [] => ([], p)
  | o :: r =>
      match cursor_step m p o with
      | None => let x := cursor_run m p r in (OSkip :: fst x, snd x)
      | Some p' =>
          let obs := match p' with
                     | None => OInvalid
                     | Some i => match nth_error m i with Some e => OAt e | None => OInvalid end
                     end in
          let x := cursor_run m p' r in
          (obs :: fst x, snd x)
      end
  end.

(** ** histories *)
Inductive hop :=
| HWrite (b : list wop)
| HGet (k : bytes)
| HSnap
| HRelease (i : nat)
| HGetAt (i : nat) (k : bytes)
| HIterNew (name : N) (snap : option nat)
| HIterOps (name : N) (ops : list iop)
| HIterDrop (name : N)
| HScan
| HReopen
| HOther.          (* compaction, waiting, dumps: no effect on the specification *)

Inductive hres :=
| ROk | RAny | RNoSnap | RNoIter
| RVal (v : option bytes)
| RPairs (m : list kv)
| RSnapId (i : nat)
| RTrace (t : list iter_obs).

Record spec_state := mkSpec {
  sp_map : list kv;
  sp_snaps : list (option (list kv));
  sp_iters : list (N * (list kv * option nat))
}.

Definition spec_init : spec_state := mkSpec [] [] [].

Fixpoint set_nth {A} (i : nat) (x : A) (l : list A) : list A :=
  match l, i with
  | [], _ => []
  | _ :: r, O => x :: r
  | y :: r, S i' => y :: set_nth i' x r
  end.

Definition spec_step (s : spec_state) (o : hop) : spec_state * hres :=
  match o with
  | HWrite b => (mkSpec (map_apply (sp_map s) b) (sp_snaps s) (sp_iters s), ROk)
  | HGet k => (s, RVal (map_get k (sp_map s)))
  | HSnap => (mkSpec (sp_map s) (sp_snaps s ++ [Some (sp_map s)]) (sp_iters s),
              RSnapId (length (sp_snaps s)))
  | HRelease i =>
      match nth_error (sp_snaps s) i with
      | Some (Some _) => (mkSpec (sp_map s) (set_nth i None (sp_snaps s)) (sp_iters s), ROk)
      | _ => (s, RNoSnap)
      end
  | HGetAt i k =>
      match nth_error (sp_snaps s) i with
      | Some (Some m) => (s, RVal (map_get k m))
      | _ => (s, RNoSnap)
      end
  | HIterNew name snap =>
      let frozen :=
        match snap with
        | None => Some (sp_map s)
        | Some i => match nth_error (sp_snaps s) i with Some (Some m) => Some m | _ => None end
        end in
      match frozen with
      | None => (s, RNoSnap)
      | Some m =>
          (mkSpec (sp_map s) (sp_snaps s)
                  ((name, (m, None)) :: filter (fun x => negb (fst x =? name)) (sp_iters s)), ROk)
      end
  | HIterOps name ops =>
      match find (fun x => fst x =? name) (sp_iters s) with
      | None => (s, RNoIter)
      | Some (_, (m, p)) =>
          let x := cursor_run m p ops in
          (mkSpec (sp_map s) (sp_snaps s)
                  ((name, (m, snd x)) :: filter (fun y => negb (fst y =? name)) (sp_iters s)),
           RTrace (fst x))
      end
  | HIterDrop name =>
      (mkSpec (sp_map s) (sp_snaps s) (filter (fun x => negb (fst x =? name)) (sp_iters s)), ROk)
  | HScan => (s, RPairs (sp_map s))
  | HReopen => (mkSpec (sp_map s) [] [], RAny)
  | HOther => (s, RAny)
  end.

Fixpoint spec_run (s : spec_state) (ops : list hop) : list hres :=
  match ops with
  | [] => []
  | o :: r => let x := spec_step s o in snd x :: spec_run (fst x) r
  end.

(** the contents of an LSM state as a sorted association list: what a full scan at sequence [q]
    must return *)
Definition user_keys (es : list entry) : list bytes :=
  fold_left (fun acc e => if existsb (bytes_eqb (ik_user (fst e))) acc then acc
                          else ik_user (fst e) :: acc) es [].

Definition contents (es : list entry) (q : N) : list kv :=
  fold_left (fun m k => match visible es q k with Some v => map_put k v m | None => m end)
            (user_keys es) [].
