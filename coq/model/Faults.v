(** The error-handling skeleton of the write path under injected I/O failures (property C08):
    [apply_changes] after the repair of D4 ([src/db.rs]) with the sticky
    [maybe_bad_database_state], on one write-ahead log. A failing append may have written any
    prefix of the bytes it wanted to write (including all of them). Definitions only. *)
From RainVerif Require Import Params.
From RainVerif.model Require Import Bytes Key Block Crc Log LogScript Version Lsm DbSpec Codec WalModel.
Open Scope N_scope.

(** what the file system does to the one append of a write *)
Inductive fault :=
| NoFault
| FailAfter (n : nat).     (* the first [n] bytes of the record's emission reach the file, then
                              the call fails (n may exceed the emission: everything written) *)

Record fstate := mkF {
  f_wal : bytes;            (* the log file *)
  f_boff : N;               (* the writer's block offset *)
  f_mem : list batch;       (* batches applied to the memtable, in order *)
  f_seq : N;                (* last published sequence number *)
  f_bad : bool              (* maybe_bad_database_state is set *)
}.

Definition f_init : fstate := mkF [] 0 [] 0 false.

Inductive wres := WOk | WErr.

(** one [apply(batch)] call *)
Definition f_write (s : fstate) (ops : list wop) (f : fault) : fstate * wres :=
  if f_bad s then (s, WErr)                       (* make_room_for_write returns the sticky error *)
  else
    let b : batch := (f_seq s + 1, ops) in
    let em := log_append (f_boff s) (batch_bytes b) in
    let seq' := f_seq s + N.of_nat (length ops) in
    match f with
    | NoFault =>
        (mkF (f_wal s ++ fst em) (snd em) (f_mem s ++ [b]) seq' false, WOk)
    | FailAfter n =>
        (* the sequence number is published even though the write failed (as the code does);
           the memtable is not touched; the error is sticky *)
        (mkF (f_wal s ++ firstn n (fst em)) (snd em) (f_mem s) seq' true, WErr)
    end.

Fixpoint f_run (s : fstate) (ws : list (list wop * fault)) : fstate * list wres :=
  match ws with
  | [] => (s, [])
  | (ops, f) :: r =>
      let x := f_write s ops f in
      let y := f_run (fst x) r in
      (fst y, snd x :: snd y)
  end.

(** what a read sees during the run: the memtable *)
Definition f_contents (s : fstate) : list kv := replay [] (f_mem s).

(** after the fault is gone: reopen = recover the log *)
Definition f_reopen (s : fstate) : option (list kv) :=
  match wal_recover (f_wal s) with
  | Some bs => Some (replay [] bs)
  | None => None
  end.

(** the batches that were acknowledged *)
Fixpoint acked (seq : N) (ws : list (list wop * fault)) (bad : bool) : list batch :=
  match ws with
  | [] => []
  | (ops, f) :: r =>
      if bad then []
      else
        match f with
        | NoFault => (seq + 1, ops) :: acked (seq + N.of_nat (length ops)) r false
        | FailAfter _ => []
        end
  end.
