(** Who makes sure that pending background work gets done (property C09, the part of liveness
    that is logic): the flag [background_compaction_scheduled], the task channel of the compaction
    thread and the places where [DB::should_schedule_compaction] is consulted ([src/db.rs]:
    [open], [get], [make_room_for_write], [force_level_compaction]; [src/iterator.rs] read
    sampling; [src/compaction/worker.rs]: [compaction_task]). One transition per critical section
    of the database mutex. Whether a version "needs compaction" after a step, whether a flush or a
    compaction succeeds, and when clients act are parameters. Definitions only. *)
From Coq Require Export List Bool Arith.
Export ListNotations.

Record wstate := mkW {
  w_sched : bool;       (* background_compaction_scheduled *)
  w_imm : bool;         (* an immutable memtable is waiting to be flushed *)
  w_manual : bool;      (* maybe_manual_compaction is set *)
  w_needs : bool;       (* version_set.needs_compaction() *)
  w_bad : bool;         (* maybe_bad_database_state is set *)
  w_shut : bool;        (* is_shutting_down *)
  w_tasks : nat;        (* Compaction tasks in the channel / the thread's queue, the running one included *)
  w_running : bool      (* the compaction thread is inside compaction_task *)
}.

(** [should_schedule_compaction] followed by [schedule_task] when it says yes *)
Definition maybe_schedule (s : wstate) : wstate :=
  if w_sched s || w_shut s || w_bad s then s
  else if negb (w_imm s) && negb (w_manual s) && negb (w_needs s) then s
  else mkW true (w_imm s) (w_manual s) (w_needs s) (w_bad s) (w_shut s) (S (w_tasks s)) (w_running s).

(** the state at the end of [DB::open]: [needs] says whether the recovered version needs
    compaction *)
Definition w_open (needs : bool) : wstate :=
  maybe_schedule (mkW false false false needs false false 0 false).

Inductive wact :=
| WRotate                    (* make_room_for_write: the memtable becomes immutable *)
| WStats (needs : bool)      (* get / iterator read sample updated the seek statistics; [needs] =
                                the version needs compaction afterwards *)
| WManual                    (* compact_range posts a manual compaction *)
| WBgStart                   (* the thread takes a Compaction task *)
| WBgDone (ok needs : bool)  (* compaction_task runs to its end; [ok] = the work it did succeeded,
                                [needs] = what the version needs afterwards *)
| WShutdown.

Definition wstep (s : wstate) (a : wact) : wstate :=
  match a with
  | WRotate =>
      if w_imm s || w_bad s then s     (* the writer waits / returns the sticky error *)
      else maybe_schedule (mkW (w_sched s) true (w_manual s) (w_needs s) (w_bad s) (w_shut s) (w_tasks s) (w_running s))
  | WStats n =>
      let s1 := mkW (w_sched s) (w_imm s) (w_manual s) (w_needs s || n) (w_bad s) (w_shut s) (w_tasks s) (w_running s) in
      if n then maybe_schedule s1 else s1
  | WManual =>
      if w_manual s then s
      else maybe_schedule (mkW (w_sched s) (w_imm s) true (w_needs s) (w_bad s) (w_shut s) (w_tasks s) (w_running s))
  | WBgStart =>
      if w_running s then s
      else match w_tasks s with O => s | S _ => mkW (w_sched s) (w_imm s) (w_manual s) (w_needs s) (w_bad s) (w_shut s) (w_tasks s) true end
  | WBgDone ok needs =>
      if negb (w_running s) then s else
      (* coordinate_compaction unless shutting down or in a bad state: the immutable memtable
         first, else the manual compaction, else a picked compaction *)
      let s1 :=
        if w_shut s || w_bad s then s
        else if w_imm s then
          if ok then mkW (w_sched s) false (w_manual s) needs false (w_shut s) (w_tasks s) true
          else mkW (w_sched s) true (w_manual s) (w_needs s) true (w_shut s) (w_tasks s) true
        else if w_manual s then
          mkW (w_sched s) false false needs (negb ok) (w_shut s) (w_tasks s) true
        else mkW (w_sched s) false false needs (negb ok) (w_shut s) (w_tasks s) true in
      (* background_compaction_scheduled = false; then ask again; the task is re-queued iff yes *)
      let s2 := mkW false (w_imm s1) (w_manual s1) (w_needs s1) (w_bad s1) (w_shut s1) (pred (w_tasks s1)) false in
      maybe_schedule s2
  | WShutdown => mkW (w_sched s) (w_imm s) (w_manual s) (w_needs s) (w_bad s) true (w_tasks s) (w_running s)
  end.

Definition wrun (needs0 : bool) (acts : list wact) : wstate := fold_left wstep acts (w_open needs0).

(** pending work is always somebody's job: unless the database is in a bad state or shutting
    down, whenever there is an immutable memtable, a manual compaction request or a version that
    needs compaction, the scheduled flag is set — and whenever the flag is set a task is queued
    or running, so the compaction thread will come round to it *)
Definition work_inv_b (s : wstate) : bool :=
  (w_bad s || w_shut s || negb (w_imm s || w_manual s || w_needs s) || w_sched s)
  && (negb (w_sched s) || negb (Nat.eqb (w_tasks s) 0))
  && (negb (w_running s) || negb (Nat.eqb (w_tasks s) 0)).

(** the part of it that a structural dump of the real database shows *)
Definition work_inv_dump (sched imm manual needs bad : bool) : bool :=
  bad || negb (imm || manual || needs) || sched.
