(** Models of [MergingIterator] ([src/versioning/file_iterators.rs]) and [DatabaseIterator]
    ([src/iterator.rs]). The children of a merging iterator (memtable iterators, two-level table
    iterators, per-level file iterators) are sorted-list cursors ([lc_*] of [TableSpec.v]): for
    table iterators that is theorem C13_two_level_refines, for the memtable it is the skiplist's
    contract. Definitions only. *)
From RainVerif.model Require Import Bytes Key Block Table TableSpec Version Lsm DbSpec.
Open Scope N_scope.

(** a child: its sorted entries and its position ([None] = invalid) *)
Definition child := (list entry * option nat)%type.

Definition ch_entry (c : child) : option entry := lc_current (fst c) (snd c).
Definition ch_valid (c : child) : bool :=
  match ch_entry c with Some _ => true | None => false end.
Definition ch_seek (c : child) (t : ikey) : child := (fst c, lc_seek (fst c) t).
Definition ch_first (c : child) : child := (fst c, lc_first (fst c)).
Definition ch_last (c : child) : child := (fst c, lc_last (fst c)).
Definition ch_next (c : child) : child := (fst c, lc_next (fst c) (snd c)).
Definition ch_prev (c : child) : child := (fst c, lc_prev (snd c)).

Record mstate := mkM {
  m_children : list child;
  m_fwd : bool;                 (* direction *)
  m_cur : option nat            (* current_iterator_index *)
}.

(** a memtable child starts on its first entry, table children start invalid; [find_smallest]
    only runs inside an operation, so a new merging iterator is invalid *)
Definition m_new (children : list child) : mstate := mkM children true None.

(** [find_smallest]: the first child with the strictly smallest key *)
Fixpoint find_smallest_from (cs : list child) (i : nat) (best : option (nat * ikey))
  : option (nat * ikey) :=
  match cs with
  | [] => best
  | c :: r =>
      let best' :=
        match ch_entry c with
        | None => best
        | Some (k, _) =>
            match best with
            | None => Some (i, k)
            | Some (_, bk) => if ikey_ltb k bk then Some (i, k) else best
            end
        end in
      find_smallest_from r (S i) best'
  end.

Definition find_smallest (cs : list child) : option nat :=
  option_map fst (find_smallest_from cs O None).

(** [find_largest]: scanning from the last child, the first one met with the strictly largest key *)
Fixpoint find_largest_rev (cs_rev : list child) (i : nat) (best : option (nat * ikey))
  : option (nat * ikey) :=
  match cs_rev with
  | [] => best
  | c :: r =>
      let best' :=
        match ch_entry c with
        | None => best
        | Some (k, _) =>
            match best with
            | None => Some (i, k)
            | Some (_, bk) => if ikey_ltb bk k then Some (i, k) else best
            end
        end in
      find_largest_rev r (i - 1)%nat best'
  end.

Definition find_largest (cs : list child) : option nat :=
  option_map fst (find_largest_rev (rev cs) (length cs - 1)%nat None).

Definition m_valid (s : mstate) : bool :=
  match m_cur s with Some _ => true | None => false end.

Definition m_current (s : mstate) : option entry :=
  match m_cur s with
  | None => None
  | Some i => match nth_error (m_children s) i with Some c => ch_entry c | None => None end
  end.

Fixpoint map_except (f : child -> child) (skip : option nat) (cs : list child) (i : nat) : list child :=
  match cs with
  | [] => []
  | c :: r =>
      (match skip with
       | Some j => if Nat.eqb i j then c else f c
       | None => f c
       end) :: map_except f skip r (S i)
  end.

Fixpoint update_child (f : child -> child) (i : nat) (cs : list child) : list child :=
  match cs, i with
  | [], _ => []
  | c :: r, O => f c :: r
  | c :: r, S i' => c :: update_child f i' r
  end.

Definition m_seek (s : mstate) (t : ikey) : mstate :=
  let cs := map (fun c => ch_seek c t) (m_children s) in
  mkM cs true (find_smallest cs).

Definition m_first (s : mstate) : mstate :=
  let cs := map ch_first (m_children s) in
  mkM cs true (find_smallest cs).

Definition m_last (s : mstate) : mstate :=
  let cs := map ch_last (m_children s) in
  mkM cs false (find_largest cs).

(** [None] = panic ([self.current().unwrap()] on an invalid iterator while switching direction) *)
Definition m_next (s : mstate) : option mstate :=
  let cs1 :=
    if m_fwd s then Some (m_children s)
    else
      match m_current s with
      | None => None
      | Some (ck, _) =>
          Some (map_except
                  (fun c =>
                     let c1 := ch_seek c ck in
                     match ch_entry c1 with
                     | Some (k, _) => if ikey_eqb k ck then ch_next c1 else c1
                     | None => c1
                     end)
                  (m_cur s) (m_children s) O)
      end in
  match cs1 with
  | None => None
  | Some cs =>
      let cs2 := match m_cur s with Some i => update_child ch_next i cs | None => cs end in
      Some (mkM cs2 true (find_smallest cs2))
  end.

Definition m_prev (s : mstate) : option mstate :=
  let cs1 :=
    if negb (m_fwd s) then Some (m_children s)
    else
      match m_current s with
      | None => (match m_children s with [] => Some [] | _ => None end)
      | Some (ck, _) =>
          Some (map_except
                  (fun c =>
                     let c1 := ch_seek c ck in
                     if ch_valid c1 then ch_prev c1 else ch_last c1)
                  (m_cur s) (m_children s) O)
      end in
  match cs1 with
  | None => None
  | Some cs =>
      let cs2 := match m_cur s with Some i => update_child ch_prev i cs | None => cs end in
      Some (mkM cs2 false (find_largest cs2))
  end.

Definition m_step (s : mstate) (o : cop) : option mstate :=
  match o with
  | CSeek k => Some (m_seek s k)
  | CFirst => Some (m_first s)
  | CLast => Some (m_last s)
  | CNext => m_next s
  | CPrev => m_prev s
  end.

Fixpoint m_run (s : mstate) (ops : list cop) : list (option entry) * bool :=
  match ops with
  | [] => ([], true)
  | o :: r =>
      match m_step s o with
      | None => ([], false)
      | Some s' => let x := m_run s' r in (m_current s' :: fst x, snd x)
      end
  end.

(** ** [DatabaseIterator] *)

Record dstate := mkD {
  d_inner : mstate;
  d_fwd : bool;
  d_valid : bool;
  d_ckey : option bytes;        (* cached_user_key *)
  d_cval : option bytes;        (* cached_value *)
  d_seq : N                     (* sequence_snapshot *)
}.

Definition d_new (children : list child) (q : N) : dstate :=
  mkD (m_new children) true false None None q.

(** [find_next_client_entry]; [None] = panic. [fuel] bounds the loop by the number of entries. *)
Fixpoint find_next_client (fuel : nat) (m : mstate) (q : N) (skipping : bool) (ckey : option bytes)
  : option (mstate * bool * option bytes) :=          (* inner, is_valid, cached_user_key *)
  match fuel with
  | O => None
  | S f =>
      match m_current m with
      | None => None                                   (* assert!(inner.is_valid()) / unwrap *)
      | Some (k, _) =>
          let decide :=
            if q <? ik_seq k then (false, skipping, ckey)
            else if ik_op k =? OP_DELETE then (false, true, Some (ik_user k))
            else
              match skipping, ckey with
              | true, Some ck => if bytes_leb (ik_user k) ck then (false, skipping, ckey)
                                 else (true, skipping, ckey)
              | _, _ => (true, skipping, ckey)
              end in
          match decide with
          | (true, _, _) => Some (m, true, None)
          | (false, sk', ck') =>
              match m_next m with
              | None => None
              | Some m' =>
                  if m_valid m' then find_next_client f m' q sk' ck'
                  else Some (m', false, None)
              end
          end
      end
  end.

(** [find_prev_client_entry]: returns inner, is_valid, cached key, cached value, direction *)
Fixpoint find_prev_loop (fuel : nat) (m : mstate) (q : N) (last_del : bool)
         (ckey : option bytes) (cval : option bytes)
  : option (mstate * bool * option bytes * option bytes) :=   (* inner, last_is_delete, ckey, cval *)
  match fuel with
  | O => None
  | S f =>
      match m_current m with
      | None => Some (m, last_del, ckey, cval)
      | Some (k, v) =>
          if q <? ik_seq k then
            match m_prev m with
            | None => None
            | Some m' => if m_valid m' then find_prev_loop f m' q last_del ckey cval
                         else Some (m', last_del, ckey, cval)
            end
          else
            let stop :=
              negb last_del &&
              match ckey with
              | Some ck => bytes_ltb (ik_user k) ck
              | None => false          (* unwrap of None would panic; unreachable when not last_del *)
              end in
            if stop then Some (m, last_del, ckey, cval)
            else
              let isdel := ik_op k =? OP_DELETE in
              let ckey' := if isdel then None else Some (ik_user k) in
              let cval' := if isdel then None else Some v in
              match m_prev m with
              | None => None
              | Some m' => if m_valid m' then find_prev_loop f m' q isdel ckey' cval'
                           else Some (m', isdel, ckey', cval')
              end
      end
  end.

Definition entries_bound (m : mstate) : nat :=
  S (S (length (concat (map fst (m_children m))))).

Definition find_prev_client (d : dstate) (m : mstate) (ckey cval : option bytes) : option dstate :=
  match find_prev_loop (entries_bound m) m (d_seq d) true ckey cval with
  | None => None
  | Some (m', last_del, ck, cv) =>
      if last_del then Some (mkD m' true false None None (d_seq d))
      else Some (mkD m' false true ck cv (d_seq d))
  end.

Definition d_seek (d : dstate) (target : bytes) : option dstate :=
  let m := m_seek (d_inner d) (mkIKey target (d_seq d) OP_PUT) in
  if m_valid m then
    match find_next_client (entries_bound m) m (d_seq d) false (Some target) with
    | None => None
    | Some (m', v, ck) => Some (mkD m' true v ck None (d_seq d))
    end
  else Some (mkD m true false (Some target) None (d_seq d)).

Definition d_first (d : dstate) : option dstate :=
  let m := m_first (d_inner d) in
  if m_valid m then
    match find_next_client (entries_bound m) m (d_seq d) false (d_ckey d) with
    | None => None
    | Some (m', v, ck) => Some (mkD m' true v ck None (d_seq d))
    end
  else Some (mkD m true false (d_ckey d) None (d_seq d)).

Definition d_last (d : dstate) : option dstate :=
  let m := m_last (d_inner d) in
  find_prev_client d m (d_ckey d) None.

(** [next]; requires [d_valid] (the code asserts it) *)
Definition d_next (d : dstate) : option dstate :=
  if negb (d_valid d) then None
  else if negb (d_fwd d) then
    let m1 := if m_valid (d_inner d) then m_next (d_inner d) else Some (m_first (d_inner d)) in
    match m1 with
    | None => None
    | Some m =>
        if negb (m_valid m) then Some (mkD m true false None (d_cval d) (d_seq d))
        else
          match find_next_client (entries_bound m) m (d_seq d) true (d_ckey d) with
          | None => None
          | Some (m', v, ck) => Some (mkD m' true v ck (d_cval d) (d_seq d))
          end
    end
  else
    match m_current (d_inner d) with
    | None => None
    | Some (k, _) =>
        match m_next (d_inner d) with
        | None => None
        | Some m =>
            if negb (m_valid m) then Some (mkD m true false None (d_cval d) (d_seq d))
            else
              match find_next_client (entries_bound m) m (d_seq d) true (Some (ik_user k)) with
              | None => None
              | Some (m', v, ck) => Some (mkD m' true v ck (d_cval d) (d_seq d))
              end
        end
    end.

(** the loop of [prev] in the forward direction: step the inner iterator back until the user
    key is smaller than the current one *)
Fixpoint prev_skip_loop (fuel : nat) (m : mstate) (ck : bytes) : option (option mstate) :=
  match fuel with
  | O => None
  | S f =>
      match m_prev m with
      | None => None
      | Some m' =>
          match m_current m' with
          | None => Some None                      (* ran off the front: invalid *)
          | Some (k, _) => if bytes_ltb (ik_user k) ck then Some (Some m') else prev_skip_loop f m' ck
          end
      end
  end.

Definition d_prev (d : dstate) : option dstate :=
  if negb (d_valid d) then None
  else if d_fwd d then
    match m_current (d_inner d) with
    | None => None
    | Some (k, _) =>
        match prev_skip_loop (entries_bound (d_inner d)) (d_inner d) (ik_user k) with
        | None => None
        | Some None =>
            (* the code returns early with the inner iterator wherever [prev] left it; only
               validity and the cached fields are observable afterwards *)
            Some (mkD (m_last (m_first (d_inner d))) true false None None (d_seq d))
        | Some (Some m) => find_prev_client d m (Some (ik_user k)) (d_cval d)
        end
    end
  else find_prev_client d (d_inner d) (d_ckey d) (d_cval d).

Definition d_current (d : dstate) : option kv :=
  if negb (d_valid d) then None
  else if d_fwd d then
    match m_current (d_inner d) with Some (k, v) => Some (ik_user k, v) | None => None end
  else
    match d_ckey d, d_cval d with Some k, Some v => Some (k, v) | _, _ => None end.

(** run a client script with the harness' convention: [next]/[prev] on an invalid iterator are
    skipped; the second component is [false] if the model hit a panic *)
Fixpoint d_run (d : dstate) (ops : list iop) : list iter_obs * bool :=
  match ops with
  | [] => ([], true)
  | o :: r =>
      let skip := match o with INext | IPrev => negb (d_valid d) | _ => false end in
      if skip then let x := d_run d r in (OSkip :: fst x, snd x)
      else
        let res := match o with
                   | IFirst => d_first d
                   | ILast => d_last d
                   | ISeek k => d_seek d k
                   | INext => d_next d
                   | IPrev => d_prev d
                   end in
        match res with
        | None => ([], false)
        | Some d' =>
            let obs := match d_current d' with Some e => OAt e | None => OInvalid end in
            let x := d_run d' r in (obs :: fst x, snd x)
        end
  end.

(** the children of the iterator a database state hands out: memtable, immutable memtable, one
    per level-0 file, one per non-empty deeper level (the memtable children start on their first
    entry, which is unobservable because every client operation repositions them) *)
Definition iter_children (s : lsm) : list child :=
  map (fun es => (es, None))
      (l_mem s :: match l_imm s with Some i => [i] | None => [] end
       ++ map (fun f => file_entries s (fm_num f)) (level_files (l_ver s) O)
       ++ filter (fun es => match es with [] => false | _ => true end)
                 (map (fun fs => flat_map (fun f => file_entries s (fm_num f)) fs) (tl (l_ver s)))).
