(** The single-threaded LSM state machine: memtable, immutable memtable, versioned levels of
    table files, sequence numbers, snapshots; client operations and internal steps (rotation,
    flush, compaction with the drop rule, trivial move), with every size-dependent decision of
    the code (when to rotate, where output files are cut, which file seeds a compaction) turned
    into a parameter of the step, so that one theorem covers every configuration. Models
    [src/db.rs] (get / write path / convert_memtable_to_file), [src/compaction/worker.rs]
    (compact_tables drop rule, trivial move) and [src/versioning/version_set.rs]
    (pick/compact_range + log_and_apply) on top of [Version.v]. Definitions only. *)
From RainVerif Require Import Params.
From RainVerif.model Require Import Bytes Key Block Table TableSpec Version.
Open Scope N_scope.

(** ** Entries, views *)

(** insertion into a list sorted by [ikey_cmp] (the memtable) *)
Fixpoint insert_entry (e : entry) (l : list entry) : list entry :=
  match l with
  | [] => [e]
  | x :: r => if ikey_ltb (fst x) (fst e) then x :: insert_entry e r else e :: l
  end.

Definition sort_entries (l : list entry) : list entry := fold_right insert_entry [] l.

(** the newest entry of user key [k] with sequence number at most [q], among arbitrary entries *)
Definition newest_le (es : list entry) (k : bytes) (q : N) : option entry :=
  fold_left
    (fun best e =>
       if bytes_eqb (ik_user (fst e)) k && (ik_seq (fst e) <=? q) then
         match best with
         | Some b => if ik_seq (fst b) <? ik_seq (fst e) then Some e else best
         | None => Some e
         end
       else best)
    es None.

(** what a reader at sequence [q] must see for user key [k]: [Some v] iff the newest entry at or
    below [q] is a put of [v] *)
Definition visible (es : list entry) (q : N) (k : bytes) : option bytes :=
  match newest_le es k q with
  | Some (key, v) => if ik_op key =? OP_DELETE then None else Some v
  | None => None
  end.

(** ** State *)

Record lsm := mkLsm {
  l_mem : list entry;                    (* sorted *)
  l_imm : option (list entry);           (* sorted *)
  l_ver : version;                       (* MAX_NUM_LEVELS levels of file metadata *)
  l_store : list (N * list entry);       (* table files on disk: number -> sorted entries *)
  l_seq : N;                             (* last published sequence number *)
  l_snaps : list N;                      (* sequence numbers of live snapshots *)
  l_next : N;                            (* file number counter *)
  l_panic : bool                         (* an assertion of the code failed *)
}.

Definition empty_version : version := repeat [] (N.to_nat MAX_NUM_LEVELS).

Definition lsm_init : lsm := mkLsm [] None empty_version [] 0 [] 1 false.

Definition file_entries (s : lsm) (n : N) : list entry :=
  match find (fun p => fst p =? n) (l_store s) with
  | Some p => snd p
  | None => []
  end.

Definition version_entries (s : lsm) : list entry :=
  flat_map (fun fs => flat_map (fun f => file_entries s (fm_num f)) fs) (l_ver s).

Definition all_entries (s : lsm) : list entry :=
  l_mem s ++ match l_imm s with Some i => i | None => [] end ++ version_entries s.

(** ** Reads: the search order of [DB::get] / [Version::get]; every source is answered by
    [get_spec] (for table files this is theorem C13_table_get_spec, for the memtable it is its
    definition) *)

Fixpoint first_answer (srcs : list (list entry)) (target : ikey) : get_result :=
  match srcs with
  | [] => GNotFound
  | es :: r =>
      match get_spec es target with
      | GNotFound => first_answer r target
      | a => a
      end
  end.

Definition version_sources (s : lsm) (target : ikey) : list (list entry) :=
  map (fun f => file_entries s (fm_num f)) (concat (get_overlapping_files (l_ver s) target)).

Definition db_get_at (s : lsm) (k : bytes) (q : N) : option bytes :=
  let target := mkIKey k q OP_PUT in
  let srcs := l_mem s :: match l_imm s with Some i => [i] | None => [] end
              ++ version_sources s target in
  match first_answer srcs target with
  | GFound v => Some v
  | _ => None
  end.

Definition db_get (s : lsm) (k : bytes) : option bytes := db_get_at s k (l_seq s).

(** ** Writes *)

Inductive wop := WPut (k v : bytes) | WDel (k : bytes).

Fixpoint apply_batch (mem : list entry) (seq : N) (b : list wop) : list entry * N :=
  match b with
  | [] => (mem, seq)
  | WPut k v :: r => apply_batch (insert_entry (mkIKey k (seq + 1) OP_PUT, v) mem) (seq + 1) r
  | WDel k :: r => apply_batch (insert_entry (mkIKey k (seq + 1) OP_DELETE, []) mem) (seq + 1) r
  end.

(** ** Compaction: merge with the drop rule *)

(** [smallest] = oldest live snapshot, or the last sequence number when there is none *)
Definition smallest_snapshot (s : lsm) : N :=
  fold_left N.min (l_snaps s) (l_seq s).

(** the loop body of [compact_tables]: [cur] = user key of the previous entry, [last] =
    [last_sequence_for_key]; [base u] = [is_base_level_for_key] *)
Fixpoint drop_loop (ss : N) (base : bytes -> bool) (es : list entry)
         (cur : option bytes) (last : N) : list entry :=
  match es with
  | [] => []
  | (k, v) :: r =>
      let fresh := match cur with
                   | Some u => negb (bytes_eqb u (ik_user k))
                   | None => true
                   end in
      let last' := if fresh then MAX_SEQ else last in
      let drop :=
        (last' <=? ss)
        || ((ik_op k =? OP_DELETE) && (ik_seq k <=? ss) && base (ik_user k)) in
      let rest := drop_loop ss base r (Some (ik_user k)) (ik_seq k) in
      if drop then rest else (k, v) :: rest
  end.

Definition compact_entries (ss : N) (base : bytes -> bool) (inputs : list (list entry))
  : list entry :=
  drop_loop ss base (sort_entries (concat inputs)) None MAX_SEQ.

(** output files: consecutive non-empty runs of the surviving entries, numbered from [next] *)
Fixpoint number_outputs (runs : list (list entry)) (next : N) : list (fmeta * list entry) :=
  match runs with
  | [] => []
  | r :: rest =>
      match first_key r, last_key r with
      | Some a, Some b =>
          (mkFM (next + 1) (blen (concat (map (fun e => ikey_encode (fst e) ++ snd e) r))) a b, r)
            :: number_outputs rest (next + 1)
      | _, _ => number_outputs rest next
      end
  end.

Section STEPS.
Variable d1fix : bool.
Variable d14fix : bool.
Variable mfs : N.        (* max_file_size: only enters through the size tests of the code *)

(** internal steps and client operations; the parameters are the nondeterministic choices *)
Inductive step :=
| SWrite (b : list wop)
| SRotate                                   (* make_room_for_write: memtable -> immutable *)
| SFlush                                    (* compact_memtable *)
| SCompact (level : nat) (seed : list N) (cuts : list nat)
    (* size / seek / manual compaction: [seed] = numbers of the level files the compaction
       starts from (one file chosen by the compaction pointer or the seek charge, the level-0
       closure, or the files overlapping a manual range); [cuts] = where output files end *)
| STrivialMove (level : nat) (seed : list N)
    (* an automatic compaction of one file without parent files and with little grandparent
       overlap only moves the file one level down *)
| SSnapshot
| SRelease (q : N).

Definition files_of (v : version) (level : nat) (nums : list N) : list fmeta :=
  filter (fun f => existsb (N.eqb (fm_num f)) nums) (level_files v level).

Definition set_panic (s : lsm) : lsm :=
  mkLsm (l_mem s) (l_imm s) (l_ver s) (l_store s) (l_seq s) (l_snaps s) (l_next s) true.

Definition do_flush (s : lsm) : lsm :=
  match l_imm s with
  | None => s
  | Some [] => mkLsm (l_mem s) None (l_ver s) (l_store s) (l_seq s) (l_snaps s) (l_next s + 1) (l_panic s)
  | Some ((e0 :: _) as es) =>
      let num := l_next s + 1 in
      match last_key es with
      | None => s
      | Some lk =>
          let size := blen (concat (map (fun e => ikey_encode (fst e) ++ snd e) es)) in
          let fm := mkFM num size (fst e0) lk in
          let level := pick_level_for_memtable_output (l_ver s) mfs (ik_user (fst e0)) (ik_user lk) in
          match apply_edit (l_ver s) (mkVE [] [(level, fm)]) with
          | None => set_panic s
          | Some v' =>
              mkLsm (l_mem s) None v' ((num, es) :: l_store s) (l_seq s) (l_snaps s) num (l_panic s)
          end
      end
  end.

Definition do_compact (s : lsm) (level : nat) (seed : list N) (cuts : list nat) : lsm :=
  let v := l_ver s in
  match finalize_inputs d1fix d14fix mfs v level (files_of v level seed) with
  | None => set_panic s
  | Some ci =>
        let inputs := map (fun f => file_entries s (fm_num f)) (ci_in0 ci ++ ci_in1 ci) in
        let kept := compact_entries (smallest_snapshot s)
                                    (is_base_level_for_key v level) inputs in
        let outs := number_outputs (cut_blocks kept cuts) (l_next s) in
        let edit := mkVE (map (fun f => (level, fm_num f)) (ci_in0 ci)
                          ++ map (fun f => (S level, fm_num f)) (ci_in1 ci))
                         (map (fun o => (S level, fst o)) outs) in
        match apply_edit v edit with
        | None => set_panic s
        | Some v' =>
            mkLsm (l_mem s) (l_imm s) v'
                  (map (fun o => (fm_num (fst o), snd o)) outs ++ l_store s)
                  (l_seq s) (l_snaps s) (l_next s + N.of_nat (length outs)) (l_panic s)
        end
  end.

(** a compaction whose inputs are one file and no parent file is a trivial move when the
    grandparent overlap is small (never for manual compactions; the harness reports which) *)
Definition do_trivial_move (s : lsm) (level : nat) (seed : list N) : lsm :=
  let v := l_ver s in
  match finalize_inputs d1fix d14fix mfs v level (files_of v level seed) with
  | None => set_panic s
  | Some ci =>
      match ci_in0 ci with
      | [f] =>
          if negb (is_trivial_move mfs ci) then s else
          match apply_edit v (mkVE [(level, fm_num f)] [(S level, f)]) with
          | None => set_panic s
          | Some v' => mkLsm (l_mem s) (l_imm s) v' (l_store s) (l_seq s) (l_snaps s) (l_next s) (l_panic s)
          end
      | _ => s
      end
  end.

Definition lsm_step (s : lsm) (st : step) : lsm :=
  if l_panic s then s else
  match st with
  | SWrite b =>
      let r := apply_batch (l_mem s) (l_seq s) b in
      mkLsm (fst r) (l_imm s) (l_ver s) (l_store s) (snd r) (l_snaps s) (l_next s) (l_panic s)
  | SRotate =>
      match l_imm s with
      | Some _ => s
      | None => mkLsm [] (Some (l_mem s)) (l_ver s) (l_store s) (l_seq s) (l_snaps s) (l_next s + 1) (l_panic s)
      end
  | SFlush => do_flush s
  | SCompact level seed cuts => do_compact s level seed cuts
  | STrivialMove level seed => do_trivial_move s level seed
  | SSnapshot =>
      mkLsm (l_mem s) (l_imm s) (l_ver s) (l_store s) (l_seq s) (l_seq s :: l_snaps s) (l_next s) (l_panic s)
  | SRelease q =>
      let fix remove1 (l : list N) : list N :=
          match l with [] => [] | x :: r => if x =? q then r else x :: remove1 r end in
      mkLsm (l_mem s) (l_imm s) (l_ver s) (l_store s) (l_seq s) (remove1 (l_snaps s)) (l_next s) (l_panic s)
  end.

Definition lsm_run (steps : list step) : lsm := fold_left lsm_step steps lsm_init.

End STEPS.

(** ** The shape invariant reported by the database (property C10) as a decidable predicate on
    a dump: levels >= 1 sorted and disjoint, bounds are exactly first/last entry, smallest <=
    largest, file numbers unique *)

Definition file_bounds_ok (es : list entry) (f : fmeta) : bool :=
  match first_key es, last_key es with
  | Some a, Some b =>
      (match ikey_cmp (fm_small f) a with Eq => true | _ => false end)
      && (match ikey_cmp (fm_large f) b with Eq => true | _ => false end)
      && ikey_leb (fm_small f) (fm_large f)
      && sorted_entries es
  | _, _ => false
  end.

Fixpoint nodup_N (l : list N) : bool :=
  match l with
  | [] => true
  | x :: r => negb (existsb (N.eqb x) r) && nodup_N r
  end.

Definition shape_ok (v : version) (store : N -> list entry) : bool :=
  forallb (fun fs => check_disjoint fs) (tl v)
  && forallb (fun fs => forallb (fun f => file_bounds_ok (store (fm_num f)) f) fs) v
  && nodup_N (map fm_num (concat v)).
