(** The byte layout of a table file below the block contents ([src/tables/table_builder.rs]
    [emit_block_to_disk], [src/tables/table.rs] block reading, [src/tables/block_handle.rs],
    [src/tables/footer.rs]): every block is stored as payload ++ [compression type] ++ masked
    CRC-32C of (payload ++ [type]); a block handle is two varints (offset, size of the payload);
    the file ends with a 48-byte footer: metaindex handle, index handle, zero padding to 40 bytes,
    8-byte magic number. What the payload is (a Snappy frame or a raw block) is not modelled here:
    the payload is just bytes. Byte exact for the trailer, the handles and the footer.
    Definitions only. *)
From RainVerif Require Import Params.
From RainVerif.model Require Import Bytes Crc Block.
Open Scope N_scope.

Record handle := mkH { h_off : N; h_size : N }.

Definition BLOCK_TRAILER : N := 5.          (* BLOCK_DESCRIPTOR_SIZE_BYTES *)
Definition FOOTER_SIZE : N := 48.
Definition TABLE_MAGIC : N := 1646.         (* non-strict build *)
Definition CT_NONE : N := 0.
Definition CT_SNAPPY : N := 1.

(** [emit_block_to_disk] *)
Definition stored_block (payload : bytes) (ctype : N) : bytes :=
  payload ++ [ctype] ++ le_encode 4 (mask_checksum (crc32c (payload ++ [ctype]))).

Inductive block_read :=
| BOk (payload : bytes) (ctype : N)
| BShort                         (* the handle points beyond the end of the file *)
| BChecksum                      (* checksum mismatch *)
| BType.                         (* unknown compression type *)

(** reading the block a handle points to: the [size + 5] bytes at [offset] *)
Definition read_block_at (file : bytes) (h : handle) : block_read :=
  let raw := takeN (h_size h + BLOCK_TRAILER) (dropN (h_off h) file) in
  if blen raw <? h_size h + BLOCK_TRAILER then BShort
  else
    let body := takeN (h_size h + 1) raw in
    let stored := le_decode (dropN (h_size h + 1) raw) in
    if negb (crc32c body =? unmask_checksum stored) then BChecksum
    else
      let ctype := nth (N.to_nat (h_size h)) raw 0 in
      if 1 <? ctype then BType else BOk (takeN (h_size h) raw) ctype.

(** block handles *)
Definition handle_encode (h : handle) : bytes := varint_enc 10 (h_off h) ++ varint_enc 10 (h_size h).

Definition handle_decode (l : bytes) : option (handle * nat) :=
  match varint_dec 10 0 0 l with
  | None => None
  | Some (off, n1) =>
      match varint_dec 10 0 0 (skipn n1 l) with
      | None => None
      | Some (size, n2) => Some (mkH off size, (n1 + n2)%nat)
      end
  end.

(** the footer *)
Definition footer_encode (metaindex index : handle) : bytes :=
  let hs := handle_encode metaindex ++ handle_encode index in
  hs ++ repeat 0 (40 - length hs) ++ le_encode 8 TABLE_MAGIC.

Definition footer_decode (b : bytes) : option (handle * handle) :=
  if negb (blen b =? FOOTER_SIZE) then None
  else if negb (le_decode (skipn 40 b) =? TABLE_MAGIC) then None
  else
    match handle_decode b with
    | None => None
    | Some (m, n) =>
        match handle_decode (skipn n b) with
        | None => None
        | Some (i, _) => Some (m, i)
        end
    end.

(** the footer of a file: its last 48 bytes *)
Definition file_footer (file : bytes) : option (handle * handle) :=
  if blen file <? FOOTER_SIZE then None
  else footer_decode (dropN (blen file - FOOTER_SIZE) file).

(** a file laid out by the builder: stored blocks one after the other, then the footer; returns
    the bytes and the handle of every block *)
Fixpoint layout_blocks (off : N) (blocks : list (bytes * N)) : bytes * list handle :=
  match blocks with
  | [] => ([], [])
  | (p, t) :: r =>
      let x := layout_blocks (off + blen p + BLOCK_TRAILER) r in
      (stored_block p t ++ fst x, mkH off (blen p) :: snd x)
  end.
