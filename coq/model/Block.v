(** Model of [src/tables/block_builder.rs] (prefix-compressed blocks with restart points) and
    [src/tables/block.rs] ([BlockReader::new], [BlockIter]). Byte exact. Definitions only. *)
From RainVerif.model Require Import Bytes Key.
Open Scope N_scope.

(** ** varint32 ([integer_encoding::VarInt] for u32) *)

Fixpoint varint_enc (fuel : nat) (n : N) : bytes :=
  match fuel with
  | O => [n mod 128]
  | S f => if n <? 128 then [n] else (128 + n mod 128) :: varint_enc f (n / 128)
  end.

Definition varint32 (n : N) : bytes := varint_enc 10 n.

(** [u64::decode_var] then [as u32]: at most 10 bytes are looked at; [None] when the
    continuation bit never clears *)
Fixpoint varint_dec (fuel : nat) (shift : N) (acc : N) (l : bytes) : option (N * nat) :=
  match fuel with
  | O => None
  | S f =>
      match l with
      | [] => None
      | b :: r =>
          let acc' := (acc + (b mod 128) * 2 ^ shift) mod 18446744073709551616 in
          if b <? 128 then Some (acc', 1%nat)
          else
            match varint_dec f (shift + 7) acc' r with
            | None => None
            | Some (v, n) => Some (v, S n)
            end
      end
  end.

Definition varint32_dec (l : bytes) : option (N * nat) :=
  match varint_dec 10 0 0 l with
  | None => None
  | Some (v, n) => Some (v mod 4294967296, n)
  end.

(** ** Builder *)

Definition entry := (ikey * bytes)%type.

Record bbuilder := mkBB {
  bb_buf : bytes;
  bb_restarts : list N;      (* in order *)
  bb_count : N;              (* curr_compressed_count *)
  bb_last : bytes            (* last_key_bytes *)
}.

Definition bb_new : bbuilder := mkBB [] [0] 0 [].

(** [add_entry] on already serialised keys; the ordering assertion is a precondition handled by
    the callers of the model ([block_encode] is only specified for sorted input). *)
Definition bb_add (ri : N) (b : bbuilder) (kb : bytes) (v : bytes) : bbuilder :=
  let restart := negb (bb_count b <? ri) in
  let shared := if restart then O else common_prefix_len (bb_last b) kb in
  let restarts := if restart then bb_restarts b ++ [blen (bb_buf b) mod 4294967296] else bb_restarts b in
  let count := if restart then 0 else bb_count b in
  let unshared := skipn shared kb in
  let buf := bb_buf b ++ varint32 (N.of_nat shared) ++ varint32 (blen unshared)
                      ++ varint32 (blen v mod 4294967296) ++ unshared ++ v in
  mkBB buf restarts (count + 1) (firstn shared (bb_last b) ++ unshared).

Definition bb_finalize (b : bbuilder) : bytes :=
  bb_buf b ++ concat (map (le_encode 4) (bb_restarts b))
           ++ le_encode 4 (N.of_nat (length (bb_restarts b)) mod 4294967296).

Definition bb_approx_size (b : bbuilder) : N :=
  blen (bb_buf b) + 4 * N.of_nat (length (bb_restarts b)) + 4.

Definition block_encode_raw (ri : N) (es : list (bytes * bytes)) : bytes :=
  bb_finalize (fold_left (fun b e => bb_add ri b (fst e) (snd e)) es bb_new).

Definition block_encode (ri : N) (es : list entry) : bytes :=
  block_encode_raw ri (map (fun e => (ikey_encode (fst e), snd e)) es).

(** ** Reader *)

Inductive dec_result (A : Type) := DErr | DPanic | DOk (a : A).
Arguments DErr {A}. Arguments DPanic {A}. Arguments DOk {A} a.

(** the entries loop of [deserialize_entries]; state: remaining buffer, current offset, current
    full key, restart offsets still to match, number of entries so far (for restart indexes) *)
Fixpoint dec_entries (fuel : nat) (buf : bytes) (off : N) (cur : bytes) (restarts : list N)
         (matched : nat) (acc : list entry) : dec_result (list entry * nat) :=
  match fuel with
  | O => DPanic
  | S f =>
      match buf with
      | [] => DOk (rev acc, matched)
      | _ =>
          match varint32_dec buf with
          | None => DErr
          | Some (shared, n1) =>
              let b1 := skipn n1 buf in
              match varint32_dec b1 with
              | None => DErr
              | Some (unshared, n2) =>
                  let b2 := skipn n2 b1 in
                  match varint32_dec b2 with
                  | None => DErr
                  | Some (vlen, n3) =>
                      let b3 := skipn n3 b2 in
                      if blen b3 <? unshared then DPanic
                      else
                        let delta := takeN unshared b3 in
                        let b4 := dropN unshared b3 in
                        let full := takeN shared cur ++ delta in
                        match ikey_decode full with
                        | None => DErr
                        | Some k =>
                            if blen b4 <? vlen then DPanic
                            else
                              let v := takeN vlen b4 in
                              let b5 := dropN vlen b4 in
                              let is_restart :=
                                match restarts with
                                | r :: _ => (off =? r) && (shared =? 0)
                                | [] => false
                                end in
                              let consumed := N.of_nat (n1 + n2 + n3) + unshared + vlen in
                              dec_entries f b5 (off + consumed) full
                                          (if is_restart then tl restarts else restarts)
                                          (if is_restart then S matched else matched)
                                          ((k, v) :: acc)
                        end
                  end
              end
          end
      end
  end.

Fixpoint le_chunks4 (fuel : nat) (l : bytes) : list N :=
  match fuel with
  | O => []
  | S f => match l with [] => [] | _ => le_decode (firstn 4 l) :: le_chunks4 f (skipn 4 l) end
  end.

(** [BlockReader::new] for [InternalKey] blocks *)
Definition block_decode (raw : bytes) : dec_result (list entry) :=
  let n := blen raw in
  if n <? 4 then DErr
  else
    let nr := le_decode (dropN (n - 4) raw) in
    if n <? (1 + nr) * 4 then DPanic         (* usize underflow in the restart offset *)
    else
      let roff := n - (1 + nr) * 4 in
      let rbytes := takeN (n - 4 - roff) (dropN roff raw) in
      let restarts := le_chunks4 (length rbytes) rbytes in
      if negb (N.of_nat (length restarts) =? nr) then DErr
      else
        match dec_entries (S (length raw)) (takeN roff raw) 0 [] restarts O [] with
        | DErr => DErr
        | DPanic => DPanic
        | DOk (es, matched) =>
            if Nat.eqb matched (length restarts) then DOk es else DErr
        end.

(** ** [BlockIter]: an index into the decoded entries; [length] = invalid *)

Section CURSOR.
Variable es : list entry.

Definition bi_valid (i : nat) : bool := Nat.ltb i (length es).

Definition bi_current (i : nat) : option entry := nth_error es i.

(** binary search lower bound, as in the code *)
Fixpoint bi_search (fuel : nat) (left right : nat) (target : ikey) : nat :=
  match fuel with
  | O => left
  | S f =>
      if Nat.ltb left right then
        let mid := Nat.div2 (left + right) in
        match nth_error es mid with
        | None => left
        | Some (k, _) =>
            match ikey_cmp k target with
            | Lt => bi_search f (S mid) right target
            | _ => bi_search f left mid target
            end
        end
      else left
  end.

Definition bi_seek (i : nat) (target : ikey) : nat :=
  match nth_error es i with
  | Some (k, _) => if ikey_eqb k target then i else bi_search (S (length es)) 0 (length es) target
  | None => bi_search (S (length es)) 0 (length es) target
  end.

Definition bi_seek_first (i : nat) : nat := O.

(** [None] = usize underflow panic on an empty block *)
Definition bi_seek_last (i : nat) : option nat :=
  match es with [] => None | _ => Some (length es - 1)%nat end.

Definition bi_next (i : nat) : nat :=
  if Nat.leb (length es) i then length es else S i.

Definition bi_prev (i : nat) : nat :=
  if Nat.eqb i 0 || Nat.leb (length es) i then length es else (i - 1)%nat.

End CURSOR.
