(** File names ([src/file_names.rs]): how the database names its files and how it recognises them
    when it lists its directories (recovery, garbage collection). Works on the last path component
    as ASCII bytes. Definitions only. *)
From RainVerif.model Require Import Bytes.
Open Scope N_scope.

Inductive fkind := KCurrent | KLock | KManifest (n : N) | KWal (n : N) | KTable (n : N) | KTemp (n : N).

Definition ascii_CURRENT : bytes := [67; 85; 82; 82; 69; 78; 84].
Definition ascii_LOCK : bytes := [76; 79; 67; 75].
Definition ascii_MANIFEST_dash : bytes := [77; 65; 78; 73; 70; 69; 83; 84; 45].
Definition ascii_wal_dash : bytes := [119; 97; 108; 45].
Definition ext_manifest : bytes := [109; 97; 110; 105; 102; 101; 115; 116].
Definition ext_log : bytes := [108; 111; 103].
Definition ext_rdb : bytes := [114; 100; 98].
Definition ext_dbtemp : bytes := [100; 98; 116; 101; 109; 112].
Definition DOT : N := 46.

(** decimal digits of a number, most significant first (what [format!("{n}")] prints) *)
Fixpoint digits_fuel (fuel : nat) (n : N) (acc : bytes) : bytes :=
  match fuel with
  | O => acc
  | S f => if n <? 10 then (48 + n) :: acc else digits_fuel f (n / 10) ((48 + n mod 10) :: acc)
  end.
Definition digits (n : N) : bytes := digits_fuel 25 n [].

Definition file_name (k : fkind) : bytes :=
  match k with
  | KCurrent => ascii_CURRENT
  | KLock => ascii_LOCK
  | KManifest n => ascii_MANIFEST_dash ++ digits n ++ [DOT] ++ ext_manifest
  | KWal n => ascii_wal_dash ++ digits n ++ [DOT] ++ ext_log
  | KTable n => digits n ++ [DOT] ++ ext_rdb
  | KTemp n => digits n ++ [DOT] ++ ext_dbtemp
  end.

(** [str::parse::<u64>]: an optional '+', then one or more decimal digits, value below 2^64 *)
Fixpoint parse_digits (l : bytes) (acc : N) : option N :=
  match l with
  | [] => Some acc
  | c :: r =>
      if (48 <=? c) && (c <=? 57) then
        let acc' := acc * 10 + (c - 48) in
        if 18446744073709551615 <? acc' then None else parse_digits r acc'
      else None
  end.

Definition parse_u64 (l : bytes) : option N :=
  match l with
  | [] => None
  | 43 :: [] => None
  | 43 :: r => parse_digits r 0
  | _ => parse_digits l 0
  end.

(** [Path::file_stem] / [Path::extension]: split at the LAST dot; a name without a dot, or whose
    only dot is its first character, has no extension *)
Fixpoint last_dot (l : bytes) (i : nat) (found : option nat) : option nat :=
  match l with
  | [] => found
  | c :: r => last_dot r (S i) (if c =? DOT then Some i else found)
  end.

Definition split_ext (name : bytes) : option (bytes * bytes) :=
  match last_dot name O None with
  | None => None
  | Some O => None
  | Some i => Some (firstn i name, skipn (S i) name)
  end.

Fixpoint strip_prefix (p l : bytes) : option bytes :=
  match p, l with
  | [], _ => Some l
  | x :: p', y :: l' => if x =? y then strip_prefix p' l' else None
  | _ :: _, [] => None
  end.

Definition parse_number (stem prefix : bytes) : option N :=
  match strip_prefix prefix stem with
  | Some rest => parse_u64 rest
  | None => None
  end.

(** [FileNameHandler::get_file_type_from_name] on the last path component *)
Definition parse_name (name : bytes) : option fkind :=
  if bytes_eqb name ascii_CURRENT then Some KCurrent
  else if bytes_eqb name ascii_LOCK then Some KLock
  else
    match split_ext name with
    | None => None
    | Some (stem, ext) =>
        if bytes_eqb ext ext_manifest then option_map KManifest (parse_number stem ascii_MANIFEST_dash)
        else if bytes_eqb ext ext_log then option_map KWal (parse_number stem ascii_wal_dash)
        else if bytes_eqb ext ext_rdb then option_map KTable (parse_number stem [])
        else if bytes_eqb ext ext_dbtemp then option_map KTemp (parse_number stem [])
        else None
    end.
