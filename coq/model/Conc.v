(** A transition system for the concurrent read and write paths at scheduling-point granularity
    ([src/db.rs]: [get], [apply_changes] with group commit, [make_room_for_write] rotation;
    [src/compaction/worker.rs]: [compact_memtable]). One transition per block of code delimited by
    the places where the database mutex is released. Memtables are shared mutable objects with an
    identity (a reader that captured a memtable sees later insertions into it). Table files are
    immutable sorted runs. Sequential consistency between blocks is assumed. Definitions only. *)
From RainVerif.model Require Import Bytes Key Block Table TableSpec Lsm DbSpec.
Open Scope N_scope.

Definition tid := N.

(** programs *)
Inductive prog :=
| PWrite (b : list wop)          (* apply(batch) *)
| PGet (k : bytes)               (* get(k) at the latest state *)
| PFlush.                        (* the background thread: compact_memtable *)

(** program counters *)
Inductive pc :=
| WQueued (b : list wop)                                   (* in the writer queue, waiting to lead *)
| WLeading (group : list (tid * list wop)) (base : N) (mem : N) (todo : list wop) (next : N)
    (* leader outside the mutex: WAL append done when [todo] starts being consumed; inserting the
       remaining operations [todo] of the merged batch with sequence [next] into memtable [mem] *)
| WBeforeWal (group : list (tid * list wop)) (base : N) (mem : N)
| WPublish (group : list (tid * list wop)) (base : N) (n : N)  (* about to re-lock and publish *)
| WFollower                                                    (* batch taken by a leader *)
| RStart (k : bytes)
| RCaptured (k : bytes) (q : N) (mem : option N) (imm : option N) (tables : list (list entry))
    (* after the locked block of [get]; [mem = None] in the unrepaired code, which loads the
       memtable pointer only later *)
| FStart
| FBuilding (imm : N)                                         (* building the table, unlocked *)
| Done (result : option (option bytes)).                     (* [Some r] for a get *)

Record cstate := mkC {
  c_seq : N;                                 (* published sequence number *)
  c_mems : list (N * list entry);            (* memtable objects by identity *)
  c_mem : N;                                 (* the active memtable *)
  c_imm : option N;                          (* the immutable memtable *)
  c_tables : list (list entry);              (* the current version, newest first *)
  c_queue : list tid;                        (* writer queue *)
  c_threads : list (tid * pc);
  c_nextmem : N
}.

Definition c_init : cstate := mkC 0 [(0, [])] 0 None [] [] [] 1.

Definition mem_of (s : cstate) (id : N) : list entry :=
  match find (fun p => fst p =? id) (c_mems s) with Some p => snd p | None => [] end.

Definition set_mem (ms : list (N * list entry)) (id : N) (es : list entry) : list (N * list entry) :=
  map (fun p => if fst p =? id then (id, es) else p) ms.

Definition pc_of (s : cstate) (t : tid) : option pc :=
  match find (fun p => fst p =? t) (c_threads s) with Some p => Some (snd p) | None => None end.

Definition set_pc (ths : list (tid * pc)) (t : tid) (p : pc) : list (tid * pc) :=
  map (fun x => if fst x =? t then (t, p) else x) ths.

Definition spawn (s : cstate) (t : tid) (p : prog) : cstate :=
  match p with
  | PWrite b => mkC (c_seq s) (c_mems s) (c_mem s) (c_imm s) (c_tables s) (c_queue s ++ [t])
                    ((t, WQueued b) :: c_threads s) (c_nextmem s)
  | PGet k => mkC (c_seq s) (c_mems s) (c_mem s) (c_imm s) (c_tables s) (c_queue s)
                  ((t, RStart k) :: c_threads s) (c_nextmem s)
  | PFlush => mkC (c_seq s) (c_mems s) (c_mem s) (c_imm s) (c_tables s) (c_queue s)
                  ((t, FStart) :: c_threads s) (c_nextmem s)
  end.

(** the lookup of [get] in the captured sources *)
Definition lookup_sources (srcs : list (list entry)) (k : bytes) (q : N) : option bytes :=
  match first_answer srcs (mkIKey k q OP_PUT) with
  | GFound v => Some v
  | _ => None
  end.

Section STEP.
(** [d6fix = false]: the pinned code, in which [get] loaded the memtable pointer after releasing
    the mutex. *)
Variable d6fix : bool.

(** the choices the scheduler / environment makes for a leader: [take] = how many queued writers
    join the group (at least the leader), [rotate] = whether the memtable is full *)
Record choice := mkChoice { ch_take : nat; ch_rotate : bool }.

Definition batches_of (s : cstate) (ts : list tid) : list (tid * list wop) :=
  flat_map (fun t => match pc_of s t with Some (WQueued b) => [(t, b)] | _ => [] end) ts.

(** one transition of thread [t]; [None] = the thread is blocked or finished *)
Definition cstep (s : cstate) (t : tid) (c : choice) : option cstate :=
  match pc_of s t with
  | None => None
  | Some p =>
      match p with
      | WQueued b =>
          (* only the head of the queue may lead; it needs room (no rotation while an immutable
             memtable is pending) *)
          match c_queue s with
          | h :: _ =>
              if negb (h =? t) then None
              else if ch_rotate c && (match c_imm s with Some _ => true | None => false end) then None
              else
                let s1 :=
                  if ch_rotate c then
                    mkC (c_seq s) ((c_nextmem s, []) :: c_mems s) (c_nextmem s) (Some (c_mem s))
                        (c_tables s) (c_queue s) (c_threads s) (c_nextmem s + 1)
                  else s in
                let members := firstn (Nat.max 1 (ch_take c)) (c_queue s1) in
                let group := batches_of s1 members in
                let ths := fold_left (fun a m => if fst m =? t then a else set_pc a (fst m) WFollower)
                                     group (c_threads s1) in
                Some (mkC (c_seq s1) (c_mems s1) (c_mem s1) (c_imm s1) (c_tables s1) (c_queue s1)
                          (set_pc ths t (WBeforeWal group (c_seq s1) (c_mem s1))) (c_nextmem s1))
          | [] => None
          end
      | WBeforeWal group base mem =>
          (* the WAL append: no effect on the in-memory state *)
          Some (mkC (c_seq s) (c_mems s) (c_mem s) (c_imm s) (c_tables s) (c_queue s)
                    (set_pc (c_threads s) t (WLeading group base mem (concat (map snd group)) (base + 1)))
                    (c_nextmem s))
      | WLeading group base mem todo next =>
          match todo with
          | [] =>
              Some (mkC (c_seq s) (c_mems s) (c_mem s) (c_imm s) (c_tables s) (c_queue s)
                        (set_pc (c_threads s) t (WPublish group base (next - 1 - base))) (c_nextmem s))
          | o :: r =>
              let e := match o with
                       | WPut k v => (mkIKey k next OP_PUT, v)
                       | WDel k => (mkIKey k next OP_DELETE, [])
                       end in
              Some (mkC (c_seq s) (set_mem (c_mems s) mem (insert_entry e (mem_of s mem))) (c_mem s)
                        (c_imm s) (c_tables s) (c_queue s)
                        (set_pc (c_threads s) t (WLeading group base mem r (next + 1))) (c_nextmem s))
          end
      | WPublish group base n =>
          (* re-lock: publish the sequence number, pop the group, complete the followers *)
          let members := map fst group in
          let ths := fold_left (fun a m => set_pc a m (Done None)) members (c_threads s) in
          Some (mkC (base + n) (c_mems s) (c_mem s) (c_imm s) (c_tables s)
                    (filter (fun x => negb (existsb (N.eqb x) members)) (c_queue s))
                    ths (c_nextmem s))
      | WFollower => None
      | RStart k =>
          Some (mkC (c_seq s) (c_mems s) (c_mem s) (c_imm s) (c_tables s) (c_queue s)
                    (set_pc (c_threads s) t
                            (RCaptured k (c_seq s) (if d6fix then Some (c_mem s) else None)
                                       (c_imm s) (c_tables s)))
                    (c_nextmem s))
      | RCaptured k q mem imm tables =>
          let memid := match mem with Some m => m | None => c_mem s end in
          let srcs := mem_of s memid
                      :: match imm with Some i => [mem_of s i] | None => [] end ++ tables in
          Some (mkC (c_seq s) (c_mems s) (c_mem s) (c_imm s) (c_tables s) (c_queue s)
                    (set_pc (c_threads s) t (Done (Some (lookup_sources srcs k q)))) (c_nextmem s))
      | FStart =>
          match c_imm s with
          | None => Some (mkC (c_seq s) (c_mems s) (c_mem s) (c_imm s) (c_tables s) (c_queue s)
                              (set_pc (c_threads s) t (Done None)) (c_nextmem s))
          | Some i => Some (mkC (c_seq s) (c_mems s) (c_mem s) (c_imm s) (c_tables s) (c_queue s)
                                (set_pc (c_threads s) t (FBuilding i)) (c_nextmem s))
          end
      | FBuilding i =>
          (* re-lock: install the table, drop the immutable memtable *)
          Some (mkC (c_seq s) (c_mems s) (c_mem s) None (mem_of s i :: c_tables s) (c_queue s)
                    (set_pc (c_threads s) t (Done None)) (c_nextmem s))
      | Done _ => None
      end
  end.

(** a schedule: spawn a thread or let a thread take one transition *)
Inductive sched_ev :=
| ESpawn (t : tid) (p : prog)
| EStep (t : tid) (c : choice).

Definition sched_step (s : cstate) (e : sched_ev) : cstate :=
  match e with
  | ESpawn t p => spawn s t p
  | EStep t c => match cstep s t c with Some s' => s' | None => s end
  end.

Definition sched_run (evs : list sched_ev) : cstate := fold_left sched_step evs c_init.

End STEP.

(** ** specification: the map after the first [q] sequence numbers *)

Definition all_centries (s : cstate) : list entry :=
  concat (map snd (c_mems s)) ++ concat (c_tables s).

(** what a get that captured sequence [q] must return for [k] *)
Definition spec_get (s : cstate) (k : bytes) (q : N) : option bytes :=
  visible (all_centries s) q k.
