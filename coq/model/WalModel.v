(** The write-ahead log seen as a durable list of batches (properties C02, C16, C15): what is on
    disk after any crash point is a byte prefix of the bytes the log writer emitted; recovery
    reads the complete records, decodes them as batches and replays them. Built on [Log.v]
    (framing, proved in C12) and [Codec.v] (batch codec). Definitions only. *)
From RainVerif Require Import Params.
From RainVerif.model Require Import Bytes Key Block Crc Log LogScript Version Lsm DbSpec Codec.
Open Scope N_scope.

Definition batch := (N * list wop)%type.      (* starting sequence number, operations *)

Definition batch_bytes (b : batch) : bytes := batch_encode (fst b) (snd b).

(** the bytes of a WAL to which the batches were appended by one or several writer sessions
    (a session = the log reopened in append mode: recovery reuses an intact log) *)
Definition wal_bytes_sessions (sessions : list (list batch)) : bytes :=
  log_write_sessions [] (map (map batch_bytes) sessions).

Definition wal_bytes (bs : list batch) : bytes := wal_bytes_sessions [bs].

(** recovery of one log file: [None] = the open fails (a complete record does not decode) *)
Fixpoint decode_all (recs : list bytes) : option (list batch) :=
  match recs with
  | [] => Some []
  | r :: rest =>
      match batch_decode r, decode_all rest with
      | Some b, Some bs => Some (b :: bs)
      | _, _ => None
      end
  end.

Definition wal_recover (file : bytes) : option (list batch) :=
  decode_all (fst (log_read_all true file)).

(** replaying batches onto a sorted map *)
Definition replay (m : list kv) (bs : list batch) : list kv :=
  fold_left (fun m b => map_apply m (snd b)) bs m.

(** sequence numbers of consecutive batches are consecutive *)
Fixpoint batches_chained (start : N) (bs : list batch) : bool :=
  match bs with
  | [] => true
  | b :: r => (fst b =? start + 1) && batches_chained (start + N.of_nat (length (snd b))) r
  end.

(** every operation's key and value length fits the u32 length prefix *)
Definition wop_ok (o : wop) : bool :=
  match o with
  | WPut k v => (blen k <? 4294967296) && (blen v <? 4294967296)
  | WDel k => blen k <? 4294967296
  end.
Definition batch_ok (b : batch) : bool :=
  (fst b <? 18446744073709551616) && (N.of_nat (length (snd b)) <? 4294967296) && forallb wop_ok (snd b).
