(** Executable specifications for the selection functions (the lemmas the LSM theorems rest on,
    stated as decidable predicates so that the correspondence harness can evaluate them on the
    implementation's answers). Definitions only. *)
From RainVerif Require Import Params.
From RainVerif.model Require Import Bytes Key Version.
Open Scope N_scope.

(** user-key hull of a non-empty file list *)
Definition hull (fs : list fmeta) : option (bytes * bytes) :=
  match fs with
  | [] => None
  | f0 :: _ =>
      Some (fold_left
              (fun r f =>
                 ((if bytes_ltb (ik_user (fm_small f)) (fst r) then ik_user (fm_small f) else fst r),
                  (if bytes_ltb (snd r) (ik_user (fm_large f)) then ik_user (fm_large f) else snd r)))
              fs (ik_user (fm_small f0), ik_user (fm_large f0)))
  end.

Definition file_meets (lo hi : bytes) (f : fmeta) : bool :=
  bytes_leb (ik_user (fm_small f)) hi && bytes_leb lo (ik_user (fm_large f)).

Definition mem_file (f : fmeta) (fs : list fmeta) : bool := existsb (fun g => fm_num g =? fm_num f) fs.

(** the compaction inputs are closed: every file of the parent level (and, for a level-0
    compaction, of level 0) that shares a user key range with the chosen level inputs is itself
    an input; the seed files are inputs; inputs come from the right levels *)
Definition inputs_closed (v : version) (seed : list fmeta) (c : cinputs) : bool :=
  match hull (ci_in0 c) with
  | None => false
  | Some (lo, hi) =>
      forallb (fun f => mem_file f (ci_in0 c)) seed
      && forallb (fun f => mem_file f (level_files v (ci_level c))) (ci_in0 c)
      && forallb (fun f => mem_file f (level_files v (S (ci_level c)))) (ci_in1 c)
      && forallb (fun f => negb (file_meets lo hi f) || mem_file f (ci_in1 c))
                 (level_files v (S (ci_level c)))
      && (negb (Nat.eqb (ci_level c) 0)
          || forallb (fun f => negb (file_meets lo hi f) || mem_file f (ci_in0 c))
                     (level_files v O))
  end.

(** a version is well formed: levels >= 1 sorted and disjoint, bounds ordered, numbers unique *)
Fixpoint nodup_nums (l : list N) : bool :=
  match l with [] => true | x :: r => negb (existsb (N.eqb x) r) && nodup_nums r end.

Definition version_wf (v : version) : bool :=
  forallb check_disjoint (tl v)
  && forallb (forallb (fun f => ikey_leb (fm_small f) (fm_large f))) v
  && nodup_nums (map fm_num (concat v)).
