(** Executable specifications for the selection functions (the lemmas the LSM theorems rest on,
    stated as decidable predicates so that the correspondence harness can evaluate them on the
    implementation's answers). Definitions only. *)
From RainVerif Require Import Params.
From RainVerif.model Require Import Bytes Key Version.
Open Scope N_scope.

(** user-key hull of a non-empty file list *)
Definition hull (fs : list fmeta) : option (bytes * bytes) :=
  match fs with
  | [] => None
  | f0 :: _ =>
      Some (fold_left
              (fun r f =>
                 ((if bytes_ltb (ik_user (fm_small f)) (fst r) then ik_user (fm_small f) else fst r),
                  (if bytes_ltb (snd r) (ik_user (fm_large f)) then ik_user (fm_large f) else snd r)))
              fs (ik_user (fm_small f0), ik_user (fm_large f0)))
  end.

Definition file_meets (lo hi : bytes) (f : fmeta) : bool :=
  bytes_leb (ik_user (fm_small f)) hi && bytes_leb lo (ik_user (fm_large f)).

Definition mem_file (f : fmeta) (fs : list fmeta) : bool := existsb (fun g => fm_num g =? fm_num f) fs.

(** the compaction inputs are closed: every file of the parent level (and, for a level-0
    compaction, of level 0) that shares a user key range with the chosen level inputs is itself
    an input; the seed files are inputs; inputs come from the right levels *)
Definition inputs_closed (v : version) (seed : list fmeta) (c : cinputs) : bool :=
  match hull (ci_in0 c) with
  | None => false
  | Some (lo, hi) =>
      forallb (fun f => mem_file f (ci_in0 c)) seed
      && forallb (fun f => mem_file f (level_files v (ci_level c))) (ci_in0 c)
      && forallb (fun f => mem_file f (level_files v (S (ci_level c)))) (ci_in1 c)
      && forallb (fun f => negb (file_meets lo hi f) || mem_file f (ci_in1 c))
                 (level_files v (S (ci_level c)))
      && (negb (Nat.eqb (ci_level c) 0)
          || forallb (fun f => negb (file_meets lo hi f) || mem_file f (ci_in0 c))
                     (level_files v O))
      (* boundary closure of the parent inputs: a parent-level file that continues the user key
         on which a chosen parent file ends is chosen too *)
      && forallb (fun f =>
                    mem_file f (ci_in1 c)
                    || negb (existsb (fun g => bytes_eqb (ik_user (fm_small f)) (ik_user (fm_large g))
                                               && ikey_ltb (fm_large g) (fm_small f)) (ci_in1 c)))
                 (level_files v (S (ci_level c)))
  end.

(** a version is well formed: levels >= 1 sorted and disjoint, bounds ordered, numbers unique *)
Fixpoint nodup_nums (l : list N) : bool :=
  match l with [] => true | x :: r => negb (existsb (N.eqb x) r) && nodup_nums r end.

Definition version_wf (v : version) : bool :=
  forallb check_disjoint (tl v)
  && forallb (forallb (fun f => ikey_leb (fm_small f) (fm_large f))) v
  && nodup_nums (map fm_num (concat v)).

(** ** The invariant of the LSM state machine as a decidable predicate (evaluated on every
    structural dump of the implementation, and proved of every reachable model state) *)
From RainVerif.model Require Import Block Table TableSpec Lsm.

(** the sources of a state in recency order: memtable, immutable memtable, level-0 files newest
    first, then each deeper level as one sorted run *)
Definition level_run (s : lsm) (fs : list fmeta) : list entry :=
  flat_map (fun f => file_entries s (fm_num f)) fs.

Definition sources (s : lsm) : list (list entry) :=
  l_mem s
  :: match l_imm s with Some i => [i] | None => [] end
  ++ map (fun f => file_entries s (fm_num f)) (sort_by_num_desc (level_files (l_ver s) O))
  ++ map (level_run s) (tl (l_ver s)).

(** every entry of [newer] for a user key is younger than every entry of [older] for it *)
Definition newer_than (newer older : list entry) : bool :=
  forallb (fun a =>
    forallb (fun b => negb (bytes_eqb (ik_user (fst a)) (ik_user (fst b)))
                      || (ik_seq (fst b) <? ik_seq (fst a))) older) newer.

Fixpoint recency_ok (srcs : list (list entry)) : bool :=
  match srcs with
  | [] => true
  | x :: r => forallb (newer_than x) r && recency_ok r
  end.

Definition entry_ok (seq : N) (e : entry) : bool :=
  (ik_seq (fst e) <=? seq) && (1 <=? ik_seq (fst e)) && (ik_op (fst e) <=? 1).

Definition lsm_wf_b (s : lsm) : bool :=
  negb (l_panic s)
  && Nat.eqb (length (l_ver s)) (N.to_nat MAX_NUM_LEVELS)
  && shape_ok (l_ver s) (file_entries s)
  && forallb sorted_entries (sources s)
  && recency_ok (sources s)
  && forallb (forallb (entry_ok (l_seq s))) (sources s)
  && forallb (fun f => fm_num f <=? l_next s) (concat (l_ver s))
  && forallb (fun q => q <=? l_seq s) (l_snaps s).
