(** Model of the selection logic over file metadata: [src/versioning/file_metadata.rs]
    ([get_key_range_for_files], [get_key_range_for_multiple_levels], [FileMetadataBySmallestKey]),
    [src/versioning/utils.rs] ([find_file_with_upper_bound_range]), [src/versioning/version.rs]
    ([some_file_overlaps_range], [get_overlapping_files], [get_overlapping_compaction_inputs],
    [pick_level_for_memtable_output]), [src/versioning/version_builder.rs] ([apply_changes]) and
    [src/compaction/manifest.rs] ([add_boundary_inputs], [finalize_compaction_inputs],
    [is_trivial_move], [should_stop_before_key], [is_base_level_for_key]). Definitions only. *)
From RainVerif Require Import Params.
From RainVerif.model Require Import Bytes Key.
Open Scope N_scope.

Record fmeta := mkFM { fm_num : N; fm_size : N; fm_small : ikey; fm_large : ikey }.

Definition version := list (list fmeta).     (* index = level *)

Definition level_files (v : version) (l : nat) : list fmeta := nth l v [].

Definition sum_sizes (fs : list fmeta) : N := fold_left (fun a f => a + fm_size f) fs 0.

(** ** [get_key_range_for_files]: [None] = the [assert!(!files.is_empty())] fails.

    [d1fix = false] is the pinned code ([if file.largest_key() < largest], which keeps the
    minimum of the upper bounds); [true] is the repaired comparison by user key. *)
Section KEYRANGE.
Variable d1fix : bool.

Definition upd_small (cur : ikey) (k : ikey) : ikey := if ikey_ltb k cur then k else cur.
Definition upd_large (cur : ikey) (k : ikey) : ikey :=
  if d1fix then (if bytes_ltb (ik_user cur) (ik_user k) then k else cur)
  else (if ikey_ltb k cur then k else cur).

Definition key_range_for_files (fs : list fmeta) : option (ikey * ikey) :=
  match fs with
  | [] => None
  | f0 :: _ =>
      Some (fold_left (fun r f => (upd_small (fst r) (fm_small f), upd_large (snd r) (fm_large f)))
                      fs (fm_small f0, fm_large f0))
  end.

Definition key_range_for_two (a b : list fmeta) : option (ikey * ikey) :=
  match key_range_for_files a with
  | None => None
  | Some r =>
      match b with
      | [] => Some r
      | _ =>
          match key_range_for_files b with
          | None => Some r
          | Some r' => Some (upd_small (fst r) (fst r'), upd_large (snd r) (snd r'))
          end
      end
  end.
End KEYRANGE.

(** [FileMetadataBySmallestKey::compare] *)
Definition fmeta_cmp (a b : fmeta) : comparison :=
  match ikey_cmp (fm_small a) (fm_small b) with
  | Eq => N.compare (fm_num a) (fm_num b)
  | c => c
  end.

(** ** [find_file_with_upper_bound_range]: binary search for the first file whose largest key is
    not less than the target *)
Fixpoint ffub_loop (fuel : nat) (fs : list fmeta) (left right : nat) (target : ikey) : nat :=
  match fuel with
  | O => left
  | S f =>
      if Nat.ltb left right then
        let mid := Nat.div2 (left + right) in
        match nth_error fs mid with
        | None => left
        | Some file =>
            if ikey_ltb (fm_large file) target then ffub_loop f fs (S mid) right target
            else ffub_loop f fs left mid target
        end
      else left
  end.

Definition find_file_upper_bound (fs : list fmeta) (target : ikey) : option nat :=
  let i := ffub_loop (S (length fs)) fs O (length fs) target in
  if Nat.eqb i (length fs) then None else Some i.

(** ** [some_file_overlaps_range] *)
Definition after_file (lo : option bytes) (f : fmeta) : bool :=
  match lo with Some k => bytes_ltb (ik_user (fm_large f)) k | None => false end.
Definition before_file (hi : option bytes) (f : fmeta) : bool :=
  match hi with Some k => bytes_ltb k (ik_user (fm_small f)) | None => false end.

Definition some_file_overlaps_range (disjoint : bool) (fs : list fmeta)
           (lo hi : option bytes) : bool :=
  match fs with
  | [] => false
  | _ =>
      if negb disjoint then existsb (fun f => negb (after_file lo f || before_file hi f)) fs
      else
        let idx :=
          match lo with
          | None => Some O
          | Some k => find_file_upper_bound fs (mkIKey k MAX_SEQ OP_PUT)
          end in
        match idx with
        | None => false
        | Some i =>
            match hi with
            | None => true
            | Some h =>
                match nth_error fs i with
                | None => false
                | Some f => bytes_leb (ik_user (fm_small f)) h
                end
            end
        end
  end.

Definition has_overlap_in_level (v : version) (l : nat) (lo hi : option bytes) : bool :=
  some_file_overlaps_range (negb (Nat.eqb l 0)) (level_files v l) lo hi.

(** ** [get_overlapping_files]: candidate files for a point lookup, level by level; level 0
    newest file first *)
Fixpoint insert_by_num_desc (f : fmeta) (l : list fmeta) : list fmeta :=
  match l with
  | [] => [f]
  | g :: r => if fm_num g <? fm_num f then f :: l else g :: insert_by_num_desc f r
  end.
Definition sort_by_num_desc (l : list fmeta) : list fmeta :=
  fold_right insert_by_num_desc [] l.

Definition overlapping_files_l0 (fs : list fmeta) (u : bytes) : list fmeta :=
  sort_by_num_desc
    (filter (fun f => bytes_leb (ik_user (fm_small f)) u && bytes_leb u (ik_user (fm_large f))) fs).

Definition overlapping_files_level (fs : list fmeta) (target : ikey) : list fmeta :=
  match fs with
  | [] => []
  | _ =>
      match find_file_upper_bound fs target with
      | None => []
      | Some i =>
          match nth_error fs i with
          | None => []
          | Some f => if bytes_leb (ik_user (fm_small f)) (ik_user target) then [f] else []
          end
      end
  end.

Definition get_overlapping_files (v : version) (target : ikey) : list (list fmeta) :=
  match v with
  | [] => []
  | l0 :: rest =>
      overlapping_files_l0 l0 (ik_user target)
      :: map (fun fs => overlapping_files_level fs target) rest
  end.

(** ** [get_overlapping_compaction_inputs]: files of a level whose user-key range intersects
    [lo, hi] (either end may be open); at level 0 the range is widened and the scan restarted
    whenever a selected file sticks out *)
Fixpoint oci_loop (fuel : nat) (level0 : bool) (all : list fmeta) (rest : list fmeta)
         (lo hi : option bytes) (acc : list fmeta) : list fmeta :=
  match fuel with
  | O => rev acc
  | S f =>
      match rest with
      | [] => rev acc
      | file :: rest' =>
          let fstart := ik_user (fm_small file) in
          let fend := ik_user (fm_large file) in
          let before := match lo with Some k => bytes_ltb fend k | None => false end in
          let after := match hi with Some k => bytes_ltb k fstart | None => false end in
          if before || after then oci_loop f level0 all rest' lo hi acc
          else if negb level0 then oci_loop f level0 all rest' lo hi (file :: acc)
          else
            match lo with
            | Some k =>
                if bytes_ltb fstart k then oci_loop f level0 all all (Some fstart) hi []
                else
                  match hi with
                  | Some h =>
                      if bytes_ltb h fend then oci_loop f level0 all all lo (Some fend) []
                      else oci_loop f level0 all rest' lo hi (file :: acc)
                  | None => oci_loop f level0 all rest' lo hi (file :: acc)
                  end
            | None =>
                match hi with
                | Some h =>
                    if bytes_ltb h fend then oci_loop f level0 all all lo (Some fend) []
                    else oci_loop f level0 all rest' lo hi (file :: acc)
                | None => oci_loop f level0 all rest' lo hi (file :: acc)
                end
            end
      end
  end.

(** every restart strictly widens the range to the bound of some file, so there are at most
    [2 * length] restarts of at most [length] steps each *)
Definition oci_fuel (fs : list fmeta) : nat := S ((2 * length fs + 1) * S (length fs)).

Definition overlapping_inputs (v : version) (l : nat) (lo hi : option ikey) : list fmeta :=
  let fs := level_files v l in
  oci_loop (oci_fuel fs) (Nat.eqb l 0) fs fs
           (option_map ik_user lo) (option_map ik_user hi) [].

(** ** [pick_level_for_memtable_output]; [max_file_size] from the options *)
Fixpoint plmo_loop (fuel : nat) (v : version) (mfs : N) (lo hi : bytes) (level : nat) : nat :=
  match fuel with
  | O => level
  | S f =>
      if negb (N.of_nat level <? MAX_MEM_COMPACT_LEVEL) then level
      else if has_overlap_in_level v (S level) (Some lo) (Some hi) then level
      else
        if (N.of_nat (S (S level)) <? MAX_NUM_LEVELS)
           && (10 * mfs <? sum_sizes (overlapping_inputs v (S (S level))
                                         (Some (mkIKey lo MAX_SEQ OP_PUT))
                                         (Some (mkIKey hi 0 OP_DELETE))))
        then level
        else plmo_loop f v mfs lo hi (S level)
  end.

Definition pick_level_for_memtable_output (v : version) (mfs : N) (lo hi : bytes) : nat :=
  if has_overlap_in_level v O (Some lo) (Some hi) then O
  else plmo_loop (N.to_nat MAX_NUM_LEVELS) v mfs lo hi O.

(** ** [add_boundary_inputs] *)
Definition find_largest_key (fs : list fmeta) : option ikey :=
  match fs with
  | [] => None
  | f0 :: _ =>
      Some (fold_left (fun cur f => if ikey_ltb cur (fm_large f) then fm_large f else cur)
                      fs (fm_large f0))
  end.

Definition find_smallest_boundary_file (level_fs : list fmeta) (target : ikey) : option fmeta :=
  fold_left
    (fun best f =>
       if ikey_ltb target (fm_small f) && bytes_eqb (ik_user (fm_small f)) (ik_user target) then
         match best with
         | Some b => if ikey_ltb (fm_small f) (fm_small b) then Some f else best
         | None => Some f
         end
       else best)
    level_fs None.

Fixpoint abi_loop (fuel : nat) (level_fs : list fmeta) (largest : ikey) (acc : list fmeta)
  : list fmeta :=
  match fuel with
  | O => acc
  | S f =>
      match find_smallest_boundary_file level_fs largest with
      | None => acc
      | Some b => abi_loop f level_fs (fm_large b) (acc ++ [b])
      end
  end.

Definition add_boundary_inputs (level_fs : list fmeta) (inputs : list fmeta) : list fmeta :=
  match find_largest_key inputs with
  | None => inputs
  | Some lk => abi_loop (S (length level_fs)) level_fs lk inputs
  end.

(** ** [finalize_compaction_inputs] *)

Record cinputs := mkCI {
  ci_level : nat;
  ci_in0 : list fmeta;
  ci_in1 : list fmeta;
  ci_grand : list fmeta;
  ci_pointer : option ikey        (* the compaction pointer recorded for the level *)
}.

Section FINALIZE.
Variable d1fix : bool.
(** [d14fix = false]: the pinned code, which on the expansion path did not add the boundary files
    of the parent level to the re-selected parent files; [true]: after the repair (as LevelDB). *)
Variable d14fix : bool.
Variable mfs : N.      (* max_file_size *)

(** [None] = a panic (empty input list) *)
Definition finalize_inputs (v : version) (level : nat) (in0_seed : list fmeta) : option cinputs :=
  let lf := level_files v level in
  let lf1 := level_files v (S level) in
  let in0 := add_boundary_inputs lf in0_seed in
  match key_range_for_files d1fix in0 with
  | None => None
  | Some r0 =>
      let in1 := add_boundary_inputs lf1
                   (overlapping_inputs v (S level) (Some (fst r0)) (Some (snd r0))) in
      match key_range_for_two d1fix in0 in1 with
      | None => None
      | Some rall =>
          let base := (in0, in1, r0, rall) in
          let chosen :=
            match in1 with
            | [] => Some base
            | _ =>
                let exp0 := add_boundary_inputs lf
                              (overlapping_inputs v level (Some (fst rall)) (Some (snd rall))) in
                if Nat.ltb (length in0) (length exp0)
                   && (sum_sizes in1 + sum_sizes exp0 <? 25 * mfs) then
                  match key_range_for_files d1fix exp0 with
                  | None => None
                  | Some rnew =>
                      let exp1_0 := overlapping_inputs v (S level) (Some (fst rnew)) (Some (snd rnew)) in
                      let exp1 := if d14fix then add_boundary_inputs lf1 exp1_0 else exp1_0 in
                      if Nat.eqb (length exp1) (length in1) then
                        match key_range_for_two d1fix exp0 exp1 with
                        | None => None
                        | Some rall' => Some (exp0, exp1, rnew, rall')
                        end
                      else Some base
                  end
                else Some base
            end in
          match chosen with
          | None => None
          | Some (i0, i1, r0', rall') =>
              let grand :=
                if N.of_nat (S (S level)) <? MAX_NUM_LEVELS then
                  overlapping_inputs v (S (S level)) (Some (fst rall')) (Some (snd rall'))
                else [] in
              Some (mkCI level i0 i1 grand (Some (fst r0')))
          end
      end
  end.

Definition is_trivial_move (c : cinputs) : bool :=
  Nat.eqb (length (ci_in0 c)) 1 && Nat.eqb (length (ci_in1 c)) 0
  && (sum_sizes (ci_grand c) <=? 10 * mfs).
End FINALIZE.

(** ** [is_base_level_for_key]: no level below the output level can hold the user key. The
    monotone per-level pointers of the code are an optimisation that is sound because keys
    arrive in increasing order; the model scans every file, the correspondence suite feeds
    increasing keys to the real function. *)
Definition is_base_level_for_key (v : version) (level : nat) (u : bytes) : bool :=
  forallb
    (fun fs =>
       forallb (fun f => negb (bytes_leb (ik_user (fm_small f)) u && bytes_leb u (ik_user (fm_large f))))
               fs)
    (skipn (S (S level)) v).

(** ** [VersionBuilder::apply_changes] on one level: base files minus deleted files plus added
    files, merged by [FileMetadataBySmallestKey]; [None] = the overlap assertion of
    [maybe_add_file] fails (levels > 0) *)
Fixpoint insert_fmeta (f : fmeta) (l : list fmeta) : list fmeta :=
  match l with
  | [] => [f]
  | g :: r => match fmeta_cmp g f with Lt => g :: insert_fmeta f r | _ => f :: l end
  end.
Definition sort_fmeta (l : list fmeta) : list fmeta := fold_right insert_fmeta [] l.

Fixpoint merge_files (fuel : nat) (base added : list fmeta) : list fmeta :=
  match fuel with
  | O => []
  | S f =>
      match base, added with
      | [], _ => added
      | _, [] => base
      | b :: br, a :: ar =>
          match fmeta_cmp b a with
          | Lt => b :: merge_files f br added
          | _ => a :: merge_files f base ar
          end
      end
  end.

Fixpoint check_disjoint (fs : list fmeta) : bool :=
  match fs with
  | [] => true
  | f :: r =>
      match r with
      | [] => true
      | g :: _ => ikey_ltb (fm_large f) (fm_small g) && check_disjoint r
      end
  end.

Definition apply_level (level : nat) (base : list fmeta) (deleted : list N) (added : list fmeta)
  : option (list fmeta) :=
  let keep := fun f => negb (existsb (N.eqb (fm_num f)) deleted) in
  let merged := merge_files (S (length base + length added)) (sort_fmeta base) (sort_fmeta added) in
  let res := filter keep merged in
  if Nat.eqb level 0 then Some res
  else if check_disjoint res then Some res else None.

(** a version edit: deleted (level, number) and added (level, file) *)
Record vedit := mkVE { ve_deleted : list (nat * N); ve_added : list (nat * fmeta) }.

Fixpoint apply_edit_levels (v : version) (e : vedit) (level : nat) : option version :=
  match v with
  | [] => Some []
  | base :: rest =>
      let del := map snd (filter (fun d => Nat.eqb (fst d) level) (ve_deleted e)) in
      (* accumulate_changes: adding a file cancels its deletion *)
      let add := map snd (filter (fun a => Nat.eqb (fst a) level) (ve_added e)) in
      let del' := filter (fun n => negb (existsb (fun a => N.eqb (fm_num a) n) add)) del in
      match apply_level level base del' add, apply_edit_levels rest e (S level) with
      | Some l, Some r => Some (l :: r)
      | _, _ => None
      end
  end.

Definition apply_edit (v : version) (e : vedit) : option version := apply_edit_levels v e O.
