(** Ownership of a database path when [DB::destroy_database] is NOT atomic ([src/db.rs]
    destroy_database): it lists the directory, takes the lock, deletes the files, and then has to
    get rid of the LOCK file and of the lock itself before it removes the directory. The order of
    those last two steps matters: [unlink_first = true] is the repaired code (the LOCK file is
    unlinked while the lock is still held), [unlink_first = false] the pinned code (the lock is
    released first, so another opener can take it and then loses its lock file). A flock belongs
    to an inode: unlinking LOCK does not release it, but the next opener creates and locks a new
    inode. Refines [LockOwner.v], whose [ADestroy] is one atomic transition. Definitions only. *)
From Coq Require Export List NArith Bool.
Export ListNotations.
Open Scope N_scope.

Inductive owner := OwnH (h : N) | OwnD.

Definition owner_eqb (a b : owner) : bool :=
  match a, b with
  | OwnH x, OwnH y => x =? y
  | OwnD, OwnD => true
  | _, _ => false
  end.

Record pworld := mkPW {
  pw_lock : option owner;      (* holder of the flock on the inode the name LOCK refers to now *)
  pw_orphan : list owner;      (* holders of flocks on LOCK inodes that have been unlinked *)
  pw_open : list N;            (* handles that are open *)
  pw_files : bool;             (* database files (CURRENT, manifest, logs, tables) present *)
  pw_lockfile : bool;          (* the LOCK file is present *)
  pw_dphase : N                (* the destroyer: 0 = not running, 1 = parked before unlinking
                                  LOCK, 2 = parked before removing the directory *)
}.

Definition pworld_init : pworld := mkPW None [] [] false false 0.

Inductive pact :=
| POpenH (h : N)          (* DB::open with create_if_missing *)
| PCloseH (h : N)
| PDestroyStart           (* list the directory, take the lock, delete the files *)
| PDestroyUnlink          (* up to the removal of the directory *)
| PDestroyFinish.         (* remove the directory, return *)

Inductive pout := POk | PErr | PNone | PParked.

Section VARIANT.
Variable unlink_first : bool.

Definition pstep (w : pworld) (a : pact) : pworld * pout :=
  match a with
  | POpenH h =>
      match pw_lock w with
      | Some _ =>
          (* [DB::open] creates the database directories before it tries to take the lock: a
             refused open leaves them behind (this only matters while a destroyer has already
             deleted them: its final removal of the directory then fails) *)
          (mkPW (pw_lock w) (pw_orphan w) (pw_open w) true (pw_lockfile w) (pw_dphase w), PErr)
      | None => (mkPW (Some (OwnH h)) (pw_orphan w) (h :: pw_open w) true true (pw_dphase w), POk)
      end
  | PCloseH h =>
      if existsb (N.eqb h) (pw_open w) then
        (mkPW (match pw_lock w with
               | Some o => if owner_eqb o (OwnH h) then None else Some o
               | None => None
               end)
              (filter (fun o => negb (owner_eqb o (OwnH h))) (pw_orphan w))
              (filter (fun x => negb (x =? h)) (pw_open w))
              (pw_files w) (pw_lockfile w) (pw_dphase w), POk)
      else (w, PNone)
  | PDestroyStart =>
      if negb (pw_dphase w =? 0) then (w, PNone)
      else if negb (pw_files w || pw_lockfile w) then (w, PErr)     (* no directory to list *)
      else
        match pw_lock w with
        | Some _ => (w, PErr)
        | None =>
            (* the lock is taken (creating LOCK if needed), the files are deleted; the pinned
               code releases the lock already here *)
            (mkPW (if unlink_first then Some OwnD else None) (pw_orphan w) (pw_open w) false true 1,
             PParked)
        end
  | PDestroyUnlink =>
      if negb (pw_dphase w =? 1) then (w, PNone)
      else
        (* unlink LOCK: whoever holds the lock on it keeps an orphan lock; the repaired code
           then drops its own *)
        let orphans := match pw_lock w with Some o => o :: pw_orphan w | None => pw_orphan w end in
        (mkPW None (filter (fun o => negb (owner_eqb o OwnD)) orphans) (pw_open w) (pw_files w) false 2,
         PParked)
  | PDestroyFinish =>
      if negb (pw_dphase w =? 2) then (w, PNone)
      else
        (mkPW (pw_lock w) (pw_orphan w) (pw_open w) (pw_files w) (pw_lockfile w) 0,
         if pw_files w || pw_lockfile w then PErr else POk)
  end.

Fixpoint prun (w : pworld) (acts : list pact) : pworld * list pout :=
  match acts with
  | [] => (w, [])
  | a :: r =>
      let x := pstep w a in
      let y := prun (fst x) r in
      (fst y, snd x :: snd y)
  end.

End VARIANT.

(** at most one handle is open, and it holds the lock on the LOCK file that is there *)
Definition one_owner (w : pworld) : Prop :=
  match pw_open w with
  | [] => True
  | [h] => pw_lock w = Some (OwnH h)
  | _ => False
  end.
