(** Recovery as a pure function of the directory contents ([DB::open] -> [DB::recover] ->
    [VersionSet::recover] + [DB::recover_unrecorded_logs] / [recover_wal_records] in [src/db.rs]
    and [src/versioning/version_set.rs]): which manifest CURRENT names, which version the
    manifest's records describe, which write-ahead logs are replayed and in which order, what the
    recovered database contains. Byte exact for CURRENT, manifests and logs (through [Log.v] and
    [Codec.v]); table files are represented by the entries they read back as (the table format is
    the subject of C13). Definitions only. *)
From RainVerif Require Import Params.
From RainVerif.model Require Import Bytes Key Block Crc Log Table TableSpec Version Lsm DbSpec Codec WalModel.
Open Scope N_scope.

(** ** the log reader with the two facts recovery asks it for afterwards:
    [num_corrupted_records_skipped] and [has_read_entire_file] *)
Section LOGX.
Variable B H : N.
Variable crc : bytes -> N.

Inductive recx_result :=
| XEof (r : reader) (skipped : N) (partial : bool)   (* the file ended inside a fragmented record *)
| XPanic
| XRec (d : bytes) (r : reader) (skipped : N).

Fixpoint read_record_loop_x (fuel : nat) (r : reader) (buf : bytes) (infrag : bool) (sk : N)
  : recx_result :=
  match fuel with
  | O => XEof r sk infrag
  | S fuel' =>
      match read_physical B H crc r with
      | PEof => XEof r sk infrag
      | PPanic => XPanic
      | PSkip r' => read_record_loop_x fuel' r' [] false (sk + 1)
      | PRec t d r' =>
          (* a fragment dropped by the sequencing rules counts as a skipped record: a partial
             record cut short by a new First/Full, a Middle/Last without the start of its record *)
          if t =? T_FULL then XRec d r' (if infrag then sk + 1 else sk)
          else if t =? T_FIRST then read_record_loop_x fuel' r' d true (if infrag then sk + 1 else sk)
          else if t =? T_MIDDLE then
            if infrag then read_record_loop_x fuel' r' (buf ++ d) true sk
            else read_record_loop_x fuel' r' [] false (sk + 1)
          else
            if infrag then XRec (buf ++ d) r' sk
            else read_record_loop_x fuel' r' [] false (sk + 1)
      end
  end.

Definition read_record_x (r : reader) (sk : N) : recx_result :=
  if (0 <? r_cpos r) && (r_flen r <=? r_cpos r) then XEof r sk false
  else read_record_loop_x (S (length (r_rest r))) r [] false sk.

Record readx := mkRX {
  rx_records : list bytes;
  rx_panic : bool;
  rx_skipped : N;            (* num_corrupted_records_skipped *)
  rx_intact : bool           (* has_read_entire_file: the cursor position equals the length and
                                the file does not end inside a fragmented record *)
}.

Fixpoint read_all_loop_x (fuel : nat) (r : reader) (sk : N) : readx :=
  match fuel with
  | O => mkRX [] false sk (r_cpos r =? r_flen r)
  | S fuel' =>
      match read_record_x r sk with
      | XEof r' sk' p => mkRX [] false sk' ((r_cpos r' =? r_flen r') && negb p)
      | XPanic => mkRX [] true sk false
      | XRec d r' sk' =>
          let x := read_all_loop_x fuel' r' sk' in
          mkRX (d :: rx_records x) (rx_panic x) (rx_skipped x) (rx_intact x)
      end
  end.

Definition read_all_x (file : bytes) : readx :=
  read_all_loop_x (S (length file)) (reader_open file) 0.
End LOGX.

Definition log_read_all_x := read_all_x BLOCK_SIZE_BYTES HEADER_LENGTH_BYTES crc32c.

(** ** the directory *)
Record image := mkImg {
  i_current : option bytes;                      (* contents of CURRENT *)
  i_manifests : list (N * bytes);                (* MANIFEST-n.manifest *)
  i_wals : list (N * bytes);                     (* wal/wal-n.log *)
  i_tables : list (N * option (list entry));     (* data/n.rdb: the entries it reads back as, or
                                                    [None] when the table cannot be opened *)
  i_temps : list (N * bytes)                     (* n.dbtemp *)
}.

Definition lookupN {A} (n : N) (l : list (N * A)) : option A :=
  match find (fun p => fst p =? n) l with Some p => Some (snd p) | None => None end.

(** ** CURRENT: "MANIFEST-<decimal>.manifest\n" *)
Definition ascii_MANIFEST_ : bytes := [77; 65; 78; 73; 70; 69; 83; 84; 45].
Definition ascii_dot_manifest : bytes := [46; 109; 97; 110; 105; 102; 101; 115; 116].

Fixpoint parse_decimal (l : bytes) (acc : N) : option N :=
  match l with
  | [] => Some acc
  | c :: r => if (48 <=? c) && (c <=? 57) then parse_decimal r (acc * 10 + (c - 48)) else None
  end.

Fixpoint starts_with (p l : bytes) : option bytes :=
  match p, l with
  | [], _ => Some l
  | x :: p', y :: l' => if x =? y then starts_with p' l' else None
  | _ :: _, [] => None
  end.

Definition parse_current (c : bytes) : option N :=
  match rev c with
  | 10 :: body_rev =>
      let body := rev body_rev in
      match starts_with ascii_MANIFEST_ body with
      | None => None
      | Some rest =>
          let n := (length rest - length ascii_dot_manifest)%nat in
          if bytes_eqb (skipn n rest) ascii_dot_manifest then
            match firstn n rest with
            | [] => None
            | digits => parse_decimal digits 0
            end
          else None
      end
  | _ => None
  end.

Fixpoint decimal_digits (fuel : nat) (n : N) (acc : bytes) : bytes :=
  match fuel with
  | O => acc
  | S f => if n <? 10 then (48 + n) :: acc else decimal_digits f (n / 10) ((48 + n mod 10) :: acc)
  end.
Definition current_contents (n : N) : bytes :=
  ascii_MANIFEST_ ++ decimal_digits 20 n [] ++ ascii_dot_manifest ++ [10].

(** ** the manifest: [VersionBuilder::accumulate_changes] over all records, last-wins fields *)
Record macc := mkMA {
  ma_wal : option N; ma_prev_wal : option N; ma_next : option N; ma_seq : option N;
  ma_deleted : list (nat * N);
  ma_added : list (nat * fmeta);
  ma_pointers : list (N * ikey)          (* compaction pointers: one per level, by level *)
}.
Definition macc_empty : macc := mkMA None None None None [] [] [].

Fixpoint set_pointer (ps : list (N * ikey)) (p : N * ikey) : list (N * ikey) :=
  match ps with
  | [] => [p]
  | q :: r => if fst p <? fst q then p :: ps
              else if fst p =? fst q then p :: r
              else q :: set_pointer r p
  end.

Definition or_else {A} (a b : option A) : option A := match a with Some _ => a | None => b end.

Definition accumulate (a : macc) (c : vchange) : macc :=
  let del1 := ma_deleted a ++ map (fun d => (N.to_nat (fst d), snd d)) (vc_deleted c) in
  let news := map (fun p => (N.to_nat (fst p), snd p)) (vc_new c) in
  (* a file that is added again is no longer deleted (per level) *)
  let del2 := filter (fun d => negb (existsb (fun a => Nat.eqb (fst a) (fst d) && (fm_num (snd a) =? snd d)) news)) del1 in
  mkMA (or_else (vc_wal c) (ma_wal a)) (or_else (vc_prev_wal c) (ma_prev_wal a))
       (or_else (vc_curr_file c) (ma_next a)) (or_else (vc_prev_seq c) (ma_seq a))
       del2 (ma_added a ++ news) (fold_left set_pointer (vc_pointers c) (ma_pointers a)).

Fixpoint decode_changes (recs : list bytes) : option (list vchange) :=
  match recs with
  | [] => Some []
  | r :: rest =>
      match vchange_decode r, decode_changes rest with
      | Some c, Some cs => Some (c :: cs)
      | _, _ => None
      end
  end.

Fixpoint build_levels (level : nat) (n : nat) (a : macc) : option version :=
  match n with
  | O => Some []
  | S n' =>
      let del := map snd (filter (fun d => Nat.eqb (fst d) level) (ma_deleted a)) in
      let add := map snd (filter (fun x => Nat.eqb (fst x) level) (ma_added a)) in
      match apply_level level [] del add, build_levels (S level) n' a with
      | Some l, Some r => Some (l :: r)
      | _, _ => None
      end
  end.

Inductive rec_error :=
| ENoCurrent | EBadCurrent | ENoManifest | EManifestPanic | EManifestDecode | EManifestSkipped
| EManifestFields | EOverlap | EMissingFile | EWalPanic | EWalDecode.

Record manifest_state := mkMS {
  ms_number : N;             (* the manifest CURRENT names *)
  ms_version : version;
  ms_wal : N; ms_prev_wal : option N; ms_next : N; ms_seq : N;
  ms_pointers : list (N * ikey);
  ms_intact : bool;          (* may be appended to *)
  ms_size : N                (* length of the manifest file *)
}.

Definition recover_manifest (img : image) : manifest_state + rec_error :=
  match i_current img with
  | None => inr ENoCurrent
  | Some c =>
      match parse_current c with
      | None => inr EBadCurrent
      | Some n =>
          match lookupN n (i_manifests img) with
          | None => inr ENoManifest
          | Some file =>
              let rx := log_read_all_x file in
              if rx_panic rx then inr EManifestPanic else
              match decode_changes (rx_records rx) with
              | None => inr EManifestDecode
              | Some cs =>
                  if 0 <? rx_skipped rx then inr EManifestSkipped else
                  let a := fold_left accumulate cs macc_empty in
                  match ma_next a, ma_wal a, ma_seq a with
                  | Some nx, Some w, Some q =>
                      match build_levels 0 (N.to_nat MAX_NUM_LEVELS) a with
                      | None => inr EOverlap
                      | Some v => inl (mkMS n v w (ma_prev_wal a) nx q (ma_pointers a) (rx_intact rx) (blen file))
                      end
                  | _, _, _ => inr EManifestFields
                  end
              end
          end
      end
  end.

(** ** write-ahead logs *)
Fixpoint insert_num (n : N) (l : list N) : list N :=
  match l with
  | [] => [n]
  | x :: r => if n <=? x then n :: l else x :: insert_num n r
  end.
Definition sort_nums (l : list N) : list N := fold_right insert_num [] l.

Definition wop_entry (o : wop) (seq : N) : entry :=
  match o with
  | WPut k v => (mkIKey k seq OP_PUT, v)
  | WDel k => (mkIKey k seq OP_DELETE, [])
  end.

Fixpoint ops_entries (seq : N) (ops : list wop) : list entry :=
  match ops with
  | [] => []
  | o :: r => wop_entry o seq :: ops_entries (seq + 1) r
  end.

Definition batch_entries (b : batch) : list entry := ops_entries (fst b) (snd b).

Definition batch_last_seq (b : batch) : N := fst b + N.of_nat (length (snd b)) - 1.

Record wal_replay := mkWR {
  wr_number : N;
  wr_batches : list batch;
  wr_intact : bool            (* may be appended to (reused) *)
}.

Definition replay_wal (n : N) (file : bytes) : wal_replay + rec_error :=
  let rx := log_read_all_x file in
  if rx_panic rx then inr EWalPanic else
  match decode_all (rx_records rx) with
  | None => inr EWalDecode
  | Some bs => inl (mkWR n bs (rx_intact rx))
  end.

Fixpoint replay_wals (nums : list N) (img : image) : list wal_replay + rec_error :=
  match nums with
  | [] => inl []
  | n :: r =>
      match lookupN n (i_wals img) with
      | None => replay_wals r img
      | Some file =>
          match replay_wal n file with
          | inr e => inr e
          | inl w =>
              match replay_wals r img with
              | inr e => inr e
              | inl ws => inl (w :: ws)
              end
          end
      end
  end.

Definition version_numbers (v : version) : list N := flat_map (map fm_num) v.

Definition all_numbers (img : image) : list N :=
  map fst (i_manifests img) ++ map fst (i_wals img) ++ map fst (i_tables img) ++ map fst (i_temps img).

Record recovered := mkRec {
  rc_manifest : manifest_state;
  rc_wals : list wal_replay;           (* the logs replayed, oldest first *)
  rc_seq : N                           (* the last sequence number after recovery *)
}.

Definition recover_image (img : image) : recovered + rec_error :=
  match recover_manifest img with
  | inr e => inr e
  | inl ms =>
      if negb (forallb (fun n => existsb (N.eqb n) (all_numbers img)) (version_numbers (ms_version ms)))
      then inr EMissingFile
      else
        let nums := sort_nums (filter (fun n => ms_wal ms <=? n) (map fst (i_wals img))) in
        match replay_wals nums img with
        | inr e => inr e
        | inl ws =>
            let seen := fold_left (fun m b => N.max m (batch_last_seq b)) (flat_map wr_batches ws) 0 in
            inl (mkRec ms ws (N.max (ms_seq ms) seen))
        end
  end.

(** ** what the recovered database contains *)
Definition table_entries_of (img : image) (n : N) : option (list entry) :=
  match lookupN n (i_tables img) with
  | Some (Some es) => Some es
  | _ => None
  end.

Definition rec_readable (img : image) (r : recovered) : bool :=
  forallb (fun n => match table_entries_of img n with Some _ => true | None => false end)
          (version_numbers (ms_version (rc_manifest r))).

Definition rec_entries (img : image) (r : recovered) : list entry :=
  flat_map (fun n => match table_entries_of img n with Some es => es | None => [] end)
           (version_numbers (ms_version (rc_manifest r)))
  ++ flat_map batch_entries (flat_map wr_batches (rc_wals r)).

Definition rec_contents (img : image) (r : recovered) : list kv :=
  contents (rec_entries img r) (rc_seq r).

(** ** which files recovery looks at: everything else may be removed without changing the result *)
Definition rec_needs (img : image) (r : recovered) (f : N) : bool :=
  (f =? ms_number (rc_manifest r))
  || existsb (N.eqb f) (version_numbers (ms_version (rc_manifest r)))
  || existsb (fun w => wr_number w =? f) (rc_wals r).
