(** Log histories used by the C12 theorems and by the correspondence suite: sessions of appends
    (each session re-opens the file in append mode and may die between two fragments of one more
    record), file truncation, and byte mutation; and the specification "exactly the complete
    records that were appended". Definitions only. *)
From RainVerif Require Import Params.
From RainVerif.model Require Import Bytes Crc Log.
Open Scope N_scope.

Inductive lop :=
| LSess (recs : list bytes) (partial : option (bytes * nat))
    (* one writer session; [Some (r, k)]: the writer then emitted only the first [k] fragments
       of [r] before it stopped *)
| LTrunc (n : N)               (* the file is cut to its first [n] bytes *)
| LMutate (off : N) (b : N).   (* byte [off] is overwritten with [b] *)

Section SCRIPT.
Variable B H : N.
Variable crc : bytes -> N.

(** records appended by one session with the end offset of each, starting from file length
    [len] and block offset [boff] *)
Fixpoint sess_records (len boff : N) (recs : list bytes)
  : bytes * N * list (bytes * N) :=
  match recs with
  | [] => ([], boff, [])
  | r :: rs =>
      let a := append B H crc boff r in
      let len1 := len + blen (fst a) in
      let x := sess_records len1 (snd a) rs in
      (fst a ++ fst (fst x), snd (fst x), (r, len1) :: snd x)
  end.

Definition partial_bytes (boff : N) (p : option (bytes * nat)) : bytes :=
  match p with
  | None => []
  | Some (r, k) => fst (append_loop B H crc k boff r true)
  end.

(** is the partial record in fact complete? *)
Definition partial_complete (boff : N) (p : option (bytes * nat)) : list bytes :=
  match p with
  | None => []
  | Some (r, k) =>
      if (blen (fst (append_loop B H crc k boff r true)) =? blen (fst (append B H crc boff r)))
      then [r] else []
  end.

Fixpoint update_at (off : nat) (b : N) (l : bytes) : bytes :=
  match l, off with
  | [], _ => []
  | _ :: r, O => b :: r
  | x :: r, S o => x :: update_at o b r
  end.

(** state: file bytes and the complete records with their end offsets *)
Definition script_step (st : bytes * list (bytes * N)) (op : lop) : bytes * list (bytes * N) :=
  let file := fst st in
  match op with
  | LSess recs p =>
      let boff := open_boff B (blen file) in
      let x := sess_records (blen file) boff recs in
      let emitted := fst (fst x) in
      let boff1 := snd (fst x) in
      let pb := partial_bytes boff1 p in
      let file1 := file ++ emitted ++ pb in
      let pc := map (fun r => (r, blen file1)) (partial_complete boff1 p) in
      (file1, snd st ++ snd x ++ pc)
  | LTrunc n =>
      (takeN n file, filter (fun re => snd re <=? n) (snd st))
  | LMutate off b =>
      (update_at (N.to_nat off) b file, snd st)
  end.

Definition script_run (ops : list lop) : bytes * list (bytes * N) :=
  fold_left script_step ops ([], []).

Definition script_file (ops : list lop) : bytes := fst (script_run ops).

(** Scripts for which the property makes a claim: any number of (possibly interrupted)
    sessions, optionally followed by one final truncation. *)
Fixpoint sessions_only (ops : list lop) : bool :=
  match ops with
  | [] => true
  | LSess _ _ :: r => sessions_only r
  | _ => false
  end.

Fixpoint claimed (ops : list lop) : bool :=
  match ops with
  | [] => true
  | [LTrunc _] => true
  | LSess _ _ :: r => claimed r
  | _ => false
  end.

Definition script_spec (ops : list lop) : option (list bytes) :=
  if claimed ops then Some (map fst (snd (script_run ops))) else None.

End SCRIPT.

Definition log_script_run := script_run BLOCK_SIZE_BYTES HEADER_LENGTH_BYTES crc32c.
Definition log_script_spec := script_spec BLOCK_SIZE_BYTES HEADER_LENGTH_BYTES crc32c.
