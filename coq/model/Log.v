(** Model of [src/logs.rs]: [LogWriter::append] / [LogWriter::new] and
    [LogReader::read_record] / [read_physical_record]. Definitions only.

    Parametric in the block size [B], the header length [H] and the checksum function [crc]
    (instantiated at the bottom from [Params] and [Crc]).

    The writer returns the bytes it emits (its only state is the offset in the current block);
    a log file is the concatenation of the emissions. The reader runs over the remaining suffix
    of the file and keeps, like the code, two positions: the file-handle cursor (implicit: what
    has been consumed from [r_rest]) and [r_cpos] = [current_cursor_position], which is only
    used by the end-of-file test. *)
From RainVerif Require Import Params.
From RainVerif.model Require Import Bytes Crc.
Open Scope N_scope.

Section LOG.
Variable B : N.            (* BLOCK_SIZE_BYTES *)
Variable H : N.            (* HEADER_LENGTH_BYTES = 4 + 2 + 1 *)
Variable crc : bytes -> N.

(** block types *)
Definition T_FULL : N := 0.
Definition T_FIRST : N := 1.
Definition T_MIDDLE : N := 2.
Definition T_LAST : N := 3.

(** [From<&BlockRecord> for Vec<u8>] *)
Definition fragment (t : N) (d : bytes) : bytes :=
  le_encode 4 (mask_checksum (crc d)) ++ le_encode 2 (blen d) ++ [t] ++ d.

Definition frag_type (first last : bool) : N :=
  if first && last then T_FULL
  else if first then T_FIRST
  else if last then T_LAST
  else T_MIDDLE.

(** zero fill emitted when fewer than [H] bytes remain in the block *)
Definition pad_of (boff : N) : bytes :=
  if B - boff <? H then zeros (N.to_nat (B - boff)) else [].
Definition boff_after_pad (boff : N) : N :=
  if B - boff <? H then 0 else boff.

(** The loop of [LogWriter::append]; [fuel] only bounds the recursion (see [append_fuel]). *)
Fixpoint append_loop (fuel : nat) (boff : N) (data : bytes) (first : bool) : bytes * N :=
  match fuel with
  | O => ([], boff)
  | S fuel' =>
      let pad := pad_of boff in
      let boff1 := boff_after_pad boff in
      let space := B - boff1 - H in
      let n := N.min (blen data) space in
      let chunk := takeN n data in
      let rest := dropN n data in
      let last := blen data =? n in
      let out := pad ++ fragment (frag_type first last) chunk in
      let boff2 := boff1 + H + n in
      match rest with
      | [] => (out, boff2)
      | _ :: _ =>
          let r := append_loop fuel' boff2 rest false in
          (out ++ fst r, snd r)
      end
  end.

Definition append_fuel (data : bytes) : nat := 2 * length data + 3.

Definition append (boff : N) (data : bytes) : bytes * N :=
  append_loop (append_fuel data) boff data true.

(** appending a list of records with one writer *)
Fixpoint append_all (boff : N) (recs : list bytes) : bytes * N :=
  match recs with
  | [] => ([], boff)
  | r :: rs =>
      let a := append boff r in
      let b := append_all (snd a) rs in
      (fst a ++ fst b, snd b)
  end.

(** [LogWriter::new(.., is_appending = true)] on a file of length [len] *)
Definition open_boff (len : N) : N := len mod B.

(** A log produced by several writer sessions, each re-opening the file in append mode. *)
Fixpoint write_sessions (file : bytes) (sessions : list (list bytes)) : bytes :=
  match sessions with
  | [] => file
  | s :: ss =>
      write_sessions (file ++ fst (append_all (open_boff (blen file)) s)) ss
  end.

(** ** Reader *)

Record reader := mkReader {
  r_rest : bytes;   (* file contents from the handle's cursor on *)
  r_boff : N;       (* current_block_offset *)
  r_cpos : N;       (* current_cursor_position *)
  r_flen : N        (* length of the file *)
}.

Definition reader_open (file : bytes) : reader :=
  mkReader file 0 0 (blen file).

Inductive phys :=
| PEof                                  (* UnexpectedEof I/O error *)
| PPanic                                (* arithmetic underflow in [BLOCK_SIZE_BYTES - offset] *)
| PSkip (r : reader)                    (* serialization error: bad type byte or checksum *)
| PRec (t : N) (d : bytes) (r : reader).

(** [read_physical_record] after the optional trailer skip *)
Definition read_header_and_payload (r : reader) : phys :=
  let rest := r_rest r in
  if blen rest <? H then PEof
  else
    let header := takeN H rest in
    let rest1 := dropN H rest in
    let boff1 := r_boff r + H in
    let dlen := le_decode (firstn 2 (skipn 4 header)) in
    if blen rest1 <? dlen then PEof
    else
      let data := takeN dlen rest1 in
      let rest2 := dropN dlen rest1 in
      let t := nth 6 header 0 in
      let stored := le_decode (firstn 4 header) in
      if (3 <? t) || negb (crc data =? unmask_checksum stored) then
        PSkip (mkReader rest2 boff1 (r_cpos r) (r_flen r))
      else
        PRec t data
             (mkReader rest2 ((boff1 + dlen) mod B) (r_cpos r + H + dlen) (r_flen r)).

Definition read_physical (r : reader) : phys :=
  if B <? r_boff r then PPanic
  else if B - r_boff r <? H then
    let n := B - r_boff r in
    if n =? 0 then read_header_and_payload r
    else if blen (r_rest r) <? n then PEof
    else read_header_and_payload
           (mkReader (dropN n (r_rest r)) 0 (r_cpos r + n) (r_flen r))
  else read_header_and_payload r.

Inductive rec_result :=
| REof
| RPanic
| RRec (d : bytes) (r : reader).

(** The loop of [read_record] with LevelDB-style fragment sequencing: [infrag] says whether a
    First fragment has been seen and not yet completed. [seq] selects the sequencing variant
    ([true], the code after the fix for D9) or the original behaviour ([false]: every fragment
    is appended to the buffer, whatever came before), which is kept for the sensitivity
    witness. *)
Fixpoint read_record_loop (seq : bool) (fuel : nat) (r : reader) (buf : bytes) (infrag : bool)
  : rec_result :=
  match fuel with
  | O => REof
  | S fuel' =>
      match read_physical r with
      | PEof => REof
      | PPanic => RPanic
      | PSkip r' =>
          if seq then read_record_loop seq fuel' r' [] false
          else read_record_loop seq fuel' r' buf infrag
      | PRec t d r' =>
          if negb seq then
            if (t =? T_FULL) || (t =? T_LAST) then RRec (buf ++ d) r'
            else read_record_loop seq fuel' r' (buf ++ d) infrag
          else if t =? T_FULL then RRec d r'
          else if t =? T_FIRST then read_record_loop seq fuel' r' d true
          else if t =? T_MIDDLE then
            if infrag then read_record_loop seq fuel' r' (buf ++ d) true
            else read_record_loop seq fuel' r' [] false
          else (* T_LAST *)
            if infrag then RRec (buf ++ d) r'
            else read_record_loop seq fuel' r' [] false
      end
  end.

Definition read_record (seq : bool) (r : reader) : rec_result :=
  if (0 <? r_cpos r) && (r_flen r <=? r_cpos r) then REof
  else read_record_loop seq (S (length (r_rest r))) r [] false.

(** Read records until end of file. The boolean result is [true] on a panic. *)
Fixpoint read_all_loop (seq : bool) (fuel : nat) (r : reader) : list bytes * bool :=
  match fuel with
  | O => ([], false)
  | S fuel' =>
      match read_record seq r with
      | REof => ([], false)
      | RPanic => ([], true)
      | RRec d r' =>
          let x := read_all_loop seq fuel' r' in
          (d :: fst x, snd x)
      end
  end.

Definition read_all (seq : bool) (file : bytes) : list bytes * bool :=
  read_all_loop seq (S (length file)) (reader_open file).

End LOG.

(** Instances used by extraction and by the examples. *)
Definition log_append := append BLOCK_SIZE_BYTES HEADER_LENGTH_BYTES crc32c.
Definition log_append_all := append_all BLOCK_SIZE_BYTES HEADER_LENGTH_BYTES crc32c.
Definition log_write_sessions := write_sessions BLOCK_SIZE_BYTES HEADER_LENGTH_BYTES crc32c.
Definition log_read_all := read_all BLOCK_SIZE_BYTES HEADER_LENGTH_BYTES crc32c.
Definition log_read_record := read_record BLOCK_SIZE_BYTES HEADER_LENGTH_BYTES crc32c.
