(** Ownership of a database path at the granularity of the two system calls inside
    [FileSystem::lock_file] ([src/fs/fs_disk.rs]): the LOCK file is opened (created if it is not
    there), then the open file is inode_locked with a non-blocking flock. A flock belongs to the inode the
    descriptor refers to, not to the name: if the name LOCK is unlinked between the two calls (a
    [destroy_database] that ran to completion in between), the opener locks an inode that nobody
    else will ever look at again, and the next opener creates and locks a fresh one — two owners.
    [verify = true] is the repaired code: after the flock succeeded, [lock_file] checks that the
    name still refers to the inode it inode_locked and fails otherwise; [verify = false] is the pinned
    code. [destroy_database] is one transition here (its own steps are the subject of
    [LockPhases.v]). Definitions only. *)
From Coq Require Export List NArith Bool.
Export ListNotations.
Open Scope N_scope.

Record fworld := mkFW {
  fw_cur : option N;            (* the inode the name LOCK refers to, if the file exists *)
  fw_next : N;                  (* the next fresh inode *)
  fw_locks : list (N * N);      (* (inode, handle): who holds the flock on which inode *)
  fw_fds : list (N * N);        (* (handle, inode): openers between their two system calls *)
  fw_open : list N              (* handles that are open *)
}.

Definition fworld_init : fworld := mkFW None 0 [] [] [].

Inductive lf_act :=
| LfOpenFd (h : N)      (* first half of lock_file inside DB::open: open / create LOCK *)
| LfLock (h : N)        (* second half: try_lock_exclusive (and the check, if [verify]) *)
| LfOpen (h : N)        (* both halves with nothing in between *)
| LfClose (h : N)
| LfDestroy.            (* destroy_database from start to end *)

Inductive lf_out := LfOk | LfErr | LfNone | LfParked.

Definition lookup_fd (h : N) (l : list (N * N)) : option N :=
  match find (fun p => fst p =? h) l with Some p => Some (snd p) | None => None end.

Definition inode_locked (i : N) (l : list (N * N)) : bool := existsb (fun p => fst p =? i) l.

Definition remove_fd (h : N) (l : list (N * N)) : list (N * N) :=
  filter (fun p => negb (fst p =? h)) l.

Section VARIANT.
Variable verify : bool.

Definition f_open_fd (w : fworld) (h : N) : fworld * lf_out :=
  if existsb (N.eqb h) (fw_open w) || existsb (fun p => fst p =? h) (fw_fds w) then (w, LfNone)
  else
    match fw_cur w with
    | Some i => (mkFW (fw_cur w) (fw_next w) (fw_locks w) ((h, i) :: fw_fds w) (fw_open w), LfParked)
    | None =>
        let i := fw_next w in
        (mkFW (Some i) (i + 1) (fw_locks w) ((h, i) :: fw_fds w) (fw_open w), LfParked)
    end.

Definition f_lock (w : fworld) (h : N) : fworld * lf_out :=
  match lookup_fd h (fw_fds w) with
  | None => (w, LfNone)
  | Some i =>
      let fds := remove_fd h (fw_fds w) in
      if inode_locked i (fw_locks w) then
        (mkFW (fw_cur w) (fw_next w) (fw_locks w) fds (fw_open w), LfErr)
      else if verify && negb (match fw_cur w with Some c => c =? i | None => false end) then
        (* the flock was taken and is dropped again with the descriptor *)
        (mkFW (fw_cur w) (fw_next w) (fw_locks w) fds (fw_open w), LfErr)
      else
        (mkFW (fw_cur w) (fw_next w) ((i, h) :: fw_locks w) fds (h :: fw_open w), LfOk)
  end.

Definition fstep (w : fworld) (a : lf_act) : fworld * lf_out :=
  match a with
  | LfOpenFd h => f_open_fd w h
  | LfLock h => f_lock w h
  | LfOpen h =>
      match f_open_fd w h with
      | (w', LfParked) => f_lock w' h
      | x => x
      end
  | LfClose h =>
      if existsb (N.eqb h) (fw_open w) then
        (mkFW (fw_cur w) (fw_next w) (filter (fun p => negb (snd p =? h)) (fw_locks w)) (fw_fds w)
              (filter (fun x => negb (x =? h)) (fw_open w)), LfOk)
      else (w, LfNone)
  | LfDestroy =>
      match fw_cur w with
      | None => (w, LfErr)      (* no LOCK file, hence no database directory to list *)
      | Some i =>
          if inode_locked i (fw_locks w) then (w, LfErr)
          else (mkFW None (fw_next w) (fw_locks w) (fw_fds w) (fw_open w), LfOk)
      end
  end.

Fixpoint frun (w : fworld) (acts : list lf_act) : fworld * list lf_out :=
  match acts with
  | [] => (w, [])
  | a :: r =>
      let x := fstep w a in
      let y := frun (fst x) r in
      (fst y, snd x :: snd y)
  end.

End VARIANT.

(** at most one handle is open *)
Definition f_one_owner (w : fworld) : Prop := (length (fw_open w) <= 1)%nat.
