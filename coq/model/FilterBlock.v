(** Model of [src/tables/filter_block_builder.rs] and [src/tables/filter_block.rs], parametric in
    the filter policy. Definitions only. *)
From RainVerif Require Import Params.
From RainVerif.model Require Import Bytes Bloom.
Open Scope N_scope.

Section FILTERBLOCK.
(** the policy: [None] from [pcreate] models a panic inside [create_filter] *)
Variable pcreate : list bytes -> option bytes.
Variable pmatch : bytes -> bytes -> match_result.   (* key, filter *)
Variable E : N.   (* FILTER_RANGE_SIZE_EXPONENT *)

Record fbuilder := mkFB { fb_keys : list bytes; fb_filters : list bytes }.

Definition fb_new : fbuilder := mkFB [] [].

Definition generate_filter (b : fbuilder) : option fbuilder :=
  match fb_keys b with
  | [] => Some (mkFB [] (fb_filters b ++ [[]]))
  | _ :: _ =>
      match pcreate (fb_keys b) with
      | None => None
      | Some f => Some (mkFB [] (fb_filters b ++ [f]))
      end
  end.

Fixpoint generate_n (n : nat) (b : fbuilder) : option fbuilder :=
  match n with
  | O => Some b
  | S n' =>
      match generate_filter b with
      | None => None
      | Some b' => generate_n n' b'
      end
  end.

(** [notify_new_data_block(block_offset)]: the [while filter_index > filters.len()] loop *)
Definition notify (b : fbuilder) (off : N) : option fbuilder :=
  let idx := off / 2 ^ E in
  generate_n (N.to_nat (idx - N.of_nat (length (fb_filters b)))) b.

Definition add_key (b : fbuilder) (k : bytes) : fbuilder :=
  mkFB (fb_keys b ++ [k]) (fb_filters b).

Fixpoint offsets_of (cur : N) (filters : list bytes) : list N :=
  match filters with
  | [] => []
  | f :: r => w32 cur :: offsets_of (cur + blen f) r
  end.

Definition serialize_filters (filters : list bytes) : bytes :=
  let body := concat filters in
  body ++ concat (map (le_encode 4) (offsets_of 0 filters))
       ++ le_encode 4 (w32 (blen body)) ++ [E].

Definition finalize (b : fbuilder) : option bytes :=
  match fb_keys b with
  | [] => Some (serialize_filters (fb_filters b))
  | _ :: _ =>
      match generate_filter b with
      | None => None
      | Some b' => Some (serialize_filters (fb_filters b'))
      end
  end.

(** Builder events in the order [TableBuilder] issues them. *)
Inductive fb_event := EvKey (k : bytes) | EvNotify (off : N).

Fixpoint run_events (b : fbuilder) (evs : list fb_event) : option fbuilder :=
  match evs with
  | [] => Some b
  | EvKey k :: r => run_events (add_key b k) r
  | EvNotify off :: r =>
      match notify b off with
      | None => None
      | Some b' => run_events b' r
      end
  end.

Definition build_filter_block (evs : list fb_event) : option bytes :=
  match run_events fb_new evs with
  | None => None
  | Some b => finalize b
  end.

(** ** Reader *)

Record freader := mkFR { fr_filters : list bytes; fr_exp : N }.

Inductive parse_result := FErr | FPanic | FOk (r : freader).

Fixpoint chunks4 (fuel : nat) (l : bytes) : list N :=
  match fuel with
  | O => []
  | S f =>
      match l with
      | [] => []
      | _ => le_decode (firstn 4 l) :: chunks4 f (skipn 4 l)
      end
  end.

(** [split_filters_with_offset]; [None] = slice index panic *)
Fixpoint split_filters (offs : list N) (raw : bytes) : option (list bytes) :=
  match offs with
  | [] => Some []
  | [o] =>
      if blen raw <? o then None else Some [dropN o raw]
  | o :: ((o' :: _) as r) =>
      if (o' <? o) || (blen raw <? o') then None
      else
        match split_filters r raw with
        | None => None
        | Some fs => Some (takeN (o' - o) (dropN o raw) :: fs)
        end
  end.

Definition fr_new (data : bytes) : parse_result :=
  if blen data <? 5 then FErr
  else
    let n := length data in
    let exp := nth (n - 1) data 0 in
    let d := firstn (n - 1) data in           (* after pop() *)
    let start := le_decode (skipn (n - 5) d) in
    if blen d - 4 <? start then FPanic       (* &filter_data[start..len-4] *)
    else
      let raw_offs := firstn (N.to_nat (blen d - 4 - start)) (dropN start d) in
      if negb (blen raw_offs mod 4 =? 0) then FErr
      else
        let offs := chunks4 (length raw_offs) raw_offs in
        match split_filters offs (takeN start d) with
        | None => FPanic
        | Some fs => FOk (mkFR fs exp)
        end.

(** [key_may_match(block_offset, key)]; [None] = shift overflow panic for exponent >= 64 *)
Definition fr_key_may_match (r : freader) (off : N) (key : bytes) : option bool :=
  match fr_filters r with
  | [] => Some true
  | _ =>
      if 64 <=? fr_exp r then None
      else
        let idx := N.to_nat (off / 2 ^ fr_exp r) in
        if Nat.leb (length (fr_filters r)) idx then Some true
        else
          let f := nth idx (fr_filters r) [] in
          match f with
          | [] => Some false
          | _ =>
              match pmatch key f with
              | MOk b => Some b
              | MErr => Some true
              | MPanic => None
              end
          end
  end.

End FILTERBLOCK.

Definition fb_build (bpk : N) (evs : list fb_event) : option bytes :=
  build_filter_block (bloom_create bpk) FILTER_RANGE_SIZE_EXPONENT evs.
Definition fb_parse (data : bytes) : parse_result := fr_new data.
Definition fb_match (r : freader) (off : N) (key : bytes) : option bool :=
  fr_key_may_match bloom_match r off key.
