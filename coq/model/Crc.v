(** CRC-32C (iSCSI, reflected, as computed by the [crc] crate's [CRC_32_ISCSI]) and the
    checksum masking of [src/utils/crc.rs]. Definitions only. *)
From RainVerif Require Import Params.
From RainVerif.model Require Import Bytes.
Open Scope N_scope.

Definition two32 : N := 4294967296.

Definition crc_poly_reflected : N := 2197175160. (* 0x82F63B78 *)

Definition crc_step_bit (c : N) : N :=
  if N.testbit c 0 then N.lxor (N.shiftr c 1) crc_poly_reflected else N.shiftr c 1.

Definition crc_step_byte (c : N) (b : N) : N :=
  let c0 := N.lxor c b in
  crc_step_bit (crc_step_bit (crc_step_bit (crc_step_bit
  (crc_step_bit (crc_step_bit (crc_step_bit (crc_step_bit c0))))))).

Definition crc32c (d : bytes) : N :=
  (N.lxor (fold_left crc_step_byte d 4294967295) 4294967295) mod two32.

(** [u32::wrapping_shr(15) | u32::wrapping_shl(17)] is a rotation; written arithmetically so the
    inverse law is linear arithmetic. The equality with the Rust expression is validated by the
    correspondence suite [crcmask]. *)
Definition rot_right15 (c : N) : N := c / 32768 + (c mod 32768) * 131072.
Definition rot_left15 (c : N) : N := c / 131072 + (c mod 131072) * 32768.

Definition mask_checksum (c : N) : N := (rot_right15 c + CRC_MASKING_DELTA) mod two32.
Definition unmask_checksum (m : N) : N :=
  rot_left15 ((m + two32 - CRC_MASKING_DELTA mod two32) mod two32).
