(** Byte strings and fixed-width little-endian integers (model of
    [integer_encoding::FixedInt] as used by raindb). Definitions only. *)
From Coq Require Export List NArith Bool.
Export ListNotations.
Open Scope N_scope.

Definition byte := N.
Definition bytes := list N.

Definition blen (l : bytes) : N := N.of_nat (length l).

Definition takeN (n : N) (l : bytes) : bytes := firstn (N.to_nat n) l.
Definition dropN (n : N) (l : bytes) : bytes := skipn (N.to_nat n) l.

(** all elements are real bytes *)
Definition is_bytes (l : bytes) : Prop := Forall (fun b => b < 256) l.
Definition is_bytesb (l : bytes) : bool := forallb (fun b => b <? 256) l.

(** [le_encode n v]: the [n] low-order bytes of [v], least significant first. *)
Fixpoint le_encode (n : nat) (v : N) : bytes :=
  match n with
  | O => []
  | S n' => (v mod 256) :: le_encode n' (v / 256)
  end.

Fixpoint le_decode (l : bytes) : N :=
  match l with
  | [] => 0
  | b :: r => b + 256 * le_decode r
  end.

Fixpoint zeros (n : nat) : bytes :=
  match n with O => [] | S n' => 0 :: zeros n' end.

(** lexicographic comparison of byte strings (Rust's [Ord] on [Vec<u8>]/[&[u8]]) *)
Fixpoint bytes_cmp (a b : bytes) : comparison :=
  match a, b with
  | [], [] => Eq
  | [], _ :: _ => Lt
  | _ :: _, [] => Gt
  | x :: a', y :: b' =>
      match x ?= y with
      | Eq => bytes_cmp a' b'
      | c => c
      end
  end.

Definition bytes_eqb (a b : bytes) : bool :=
  match bytes_cmp a b with Eq => true | _ => false end.
Definition bytes_ltb (a b : bytes) : bool :=
  match bytes_cmp a b with Lt => true | _ => false end.
Definition bytes_leb (a b : bytes) : bool :=
  match bytes_cmp a b with Gt => false | _ => true end.
