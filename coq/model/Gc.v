(** Model of [DB::remove_obsolete_files] ([src/db.rs]) and of the version list discipline
    ([VersionSet::release_version] / [append_new_version]) for property C11. Definitions only. *)
From Coq Require Export List NArith Bool.
Export ListNotations.
Open Scope N_scope.

Inductive fname :=
| FCurrent | FLock
| FManifest (n : N) | FWal (n : N) | FTable (n : N) | FTemp (n : N).

Record gc_view := mkGC {
  g_live : list N;          (* table numbers of every version still linked in the version set *)
  g_inuse : list N;         (* tables_in_use: outputs being written *)
  g_wal : N;                (* version_set.curr_wal_number *)
  g_prev_wal : option N;    (* version_set.prev_wal_number *)
  g_manifest : N            (* version_set.manifest_file_number *)
}.

Definition memN (n : N) (l : list N) : bool := existsb (N.eqb n) l.

(** the keep decision of [remove_obsolete_files] *)
Definition keep (g : gc_view) (f : fname) : bool :=
  match f with
  | FCurrent | FLock => true
  | FManifest n => g_manifest g <=? n
  | FWal n => (g_wal g <=? n) || (match g_prev_wal g with Some p => n =? p | None => false end)
  | FTable n => memN n (g_inuse g ++ g_live g)
  | FTemp n => memN n (g_inuse g ++ g_live g)
  end.

Definition gc (g : gc_view) (listing : list fname) : list fname := filter (keep g) listing.

(** what the database still needs: the current version's tables, tables of other live versions
    (iterators, reads in flight, compaction inputs), tables being written, the current manifest,
    the WALs recovery would replay *)
Definition needed (g : gc_view) (current_tables : list N) (f : fname) : Prop :=
  match f with
  | FCurrent | FLock => True
  | FManifest n => n = g_manifest g
  | FWal n => g_wal g <= n \/ g_prev_wal g = Some n
  | FTable n => In n current_tables \/ In n (g_live g) \/ In n (g_inuse g)
  | FTemp _ => False
  end.

(** ** the version list: every holder of a version (the current pointer, an iterator, a read in
    flight, a compaction) owns one reference; [release] unlinks the version when the last
    holder besides the list lets go *)
Record vnode := mkVN { vn_id : N; vn_refs : nat; vn_files : list N }.

Record vset := mkVS { vs_nodes : list vnode; vs_current : N }.

Definition vs_ref (s : vset) (id : N) : vset :=
  mkVS (map (fun v => if vn_id v =? id then mkVN id (S (vn_refs v)) (vn_files v) else v) (vs_nodes s))
       (vs_current s).

(** [release_version]: drop one reference; a version without holders is unlinked *)
Definition vs_release (s : vset) (id : N) : vset :=
  let nodes := map (fun v => if vn_id v =? id then mkVN id (pred (vn_refs v)) (vn_files v) else v)
                   (vs_nodes s) in
  mkVS (filter (fun v => negb (Nat.eqb (vn_refs v) 0)) nodes) (vs_current s).

(** [append_new_version]: the new version is held by the current pointer; the old current loses
    that reference *)
Definition vs_install (s : vset) (id : N) (files : list N) : vset :=
  vs_release (mkVS (vs_nodes s ++ [mkVN id 1 files]) id) (vs_current s).

Definition vs_live_files (s : vset) : list N := flat_map vn_files (vs_nodes s).

Definition vs_init : vset := mkVS [mkVN 0 1 []] 0.

(** events of a run: [VHold]/[VDrop] bracket every use of a version by a reader, iterator or
    compaction; [VInstall] is a flush, compaction or trivial move installing a new version *)
Inductive vev := VHold (id : N) | VDrop (id : N) | VInstall (id : N) (files : list N).

Definition vs_step (s : vset) (e : vev) : vset :=
  match e with
  | VHold id => vs_ref s id
  | VDrop id => vs_release s id
  | VInstall id files => vs_install s id files
  end.

Definition vs_run (evs : list vev) : vset := fold_left vs_step evs vs_init.
