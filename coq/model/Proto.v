(** The persistence protocol: which file operations the database performs, in which order, for
    opening (creation or recovery), writing, rotating the write-ahead log, flushing the immutable
    memtable, installing a compaction and collecting obsolete files ([src/db.rs]: [open],
    [recover], [recover_unrecorded_logs], [recover_wal_records], [apply_changes],
    [make_room_for_write], [convert_memtable_to_file], [set_current_file],
    [remove_obsolete_files]; [src/versioning/version_set.rs]: [recover], [log_and_apply],
    [write_snapshot]; [src/compaction/worker.rs]: [compact_memtable]).

    Every step returns the list of file operations it performs; a crash leaves a prefix of that
    list applied (the last append possibly torn). Everything that depends on sizes the model does
    not compute (when a memtable is full, how large a table file is, where a compaction cuts its
    outputs) is a parameter of the step. Byte exact for CURRENT, manifests and logs. Definitions
    only. *)
From RainVerif Require Import Params.
From RainVerif.model Require Import Bytes Key Block Crc Log Table TableSpec Version Lsm DbSpec Codec WalModel Gc Recover.
Open Scope N_scope.

(** ** file operations *)
Inductive fsop :=
| FsCreate (f : fname)                 (* create or truncate *)
| FsAppend (f : fname) (d : bytes)
| FsTable (n : N) (es : list entry)    (* the table file [n] is complete: it reads back as [es] *)
| FsRename (n : N)                     (* rename n.dbtemp to CURRENT *)
| FsRemove (f : fname).

Definition set_assoc {A} (n : N) (x : A) (l : list (N * A)) : list (N * A) :=
  if existsb (fun p => fst p =? n) l
  then map (fun p => if fst p =? n then (n, x) else p) l
  else l ++ [(n, x)].

Definition del_assoc {A} (n : N) (l : list (N * A)) : list (N * A) :=
  filter (fun p => negb (fst p =? n)) l.

Definition app_assoc (n : N) (d : bytes) (l : list (N * bytes)) : list (N * bytes) :=
  map (fun p => if fst p =? n then (n, snd p ++ d) else p) l.

Definition apply_fsop (img : image) (o : fsop) : image :=
  match o with
  | FsCreate (FManifest n) => mkImg (i_current img) (set_assoc n [] (i_manifests img)) (i_wals img) (i_tables img) (i_temps img)
  | FsCreate (FWal n) => mkImg (i_current img) (i_manifests img) (set_assoc n [] (i_wals img)) (i_tables img) (i_temps img)
  | FsCreate (FTable n) => mkImg (i_current img) (i_manifests img) (i_wals img) (set_assoc n None (i_tables img)) (i_temps img)
  | FsCreate (FTemp n) => mkImg (i_current img) (i_manifests img) (i_wals img) (i_tables img) (set_assoc n [] (i_temps img))
  | FsCreate _ => img
  | FsAppend (FManifest n) d => mkImg (i_current img) (app_assoc n d (i_manifests img)) (i_wals img) (i_tables img) (i_temps img)
  | FsAppend (FWal n) d => mkImg (i_current img) (i_manifests img) (app_assoc n d (i_wals img)) (i_tables img) (i_temps img)
  | FsAppend (FTemp n) d => mkImg (i_current img) (i_manifests img) (i_wals img) (i_tables img) (app_assoc n d (i_temps img))
  | FsAppend _ _ => img
  | FsTable n es => mkImg (i_current img) (i_manifests img) (i_wals img) (set_assoc n (Some es) (i_tables img)) (i_temps img)
  | FsRename n =>
      match lookupN n (i_temps img) with
      | Some d => mkImg (Some d) (i_manifests img) (i_wals img) (i_tables img) (del_assoc n (i_temps img))
      | None => img
      end
  | FsRemove (FManifest n) => mkImg (i_current img) (del_assoc n (i_manifests img)) (i_wals img) (i_tables img) (i_temps img)
  | FsRemove (FWal n) => mkImg (i_current img) (i_manifests img) (del_assoc n (i_wals img)) (i_tables img) (i_temps img)
  | FsRemove (FTable n) => mkImg (i_current img) (i_manifests img) (i_wals img) (del_assoc n (i_tables img)) (i_temps img)
  | FsRemove (FTemp n) => mkImg (i_current img) (i_manifests img) (i_wals img) (i_tables img) (del_assoc n (i_temps img))
  | FsRemove FCurrent => mkImg None (i_manifests img) (i_wals img) (i_tables img) (i_temps img)
  | FsRemove FLock => img
  end.

Definition apply_fsops (img : image) (ops : list fsop) : image := fold_left apply_fsop ops img.

(** the last operation of a crash prefix applied partially: an append keeps only its first [k]
    bytes; a table file that was being written stays unreadable *)
Definition torn_fsop (o : fsop) (k : nat) : list fsop :=
  match o with
  | FsAppend f d => [FsAppend f (firstn k d)]
  | FsTable n _ => []
  | _ => [o]
  end.

(** the directory after a crash that let the first [n] operations through, the last one torn at
    [k] bytes when [torn = Some k] *)
Definition crash_image (img : image) (ops : list fsop) (n : nat) (torn : option nat) : image :=
  match torn with
  | None => apply_fsops img (firstn n ops)
  | Some k =>
      match n with
      | O => img
      | S m => apply_fsops (apply_fsops img (firstn m ops))
                           (match nth_error ops m with Some o => torn_fsop o k | None => [] end)
      end
  end.

Definition empty_image : image := mkImg None [] [] [] [].

(** ** the running database *)
Record pdb := mkPD {
  pd_img : image;
  pd_ver : version;
  pd_pointers : list (N * ikey);
  pd_next : N;                          (* version_set.curr_file_number *)
  pd_manifest : N;                      (* version_set.manifest_file_number *)
  pd_manifest_open : bool;              (* maybe_manifest_file.is_some() *)
  pd_manifest_boff : N;                 (* block offset of the manifest writer *)
  pd_vs_wal : N;                        (* version_set.curr_wal_number: recorded in the manifest *)
  pd_prev_wal : option N;
  pd_wal : N;                           (* curr_wal_file_number: the log being appended to *)
  pd_wal_boff : N;
  pd_seq : N;                           (* last published sequence number *)
  pd_mem : list entry;
  pd_imm : option (list entry)
}.

Definition with_img (d : pdb) (img : image) : pdb :=
  mkPD img (pd_ver d) (pd_pointers d) (pd_next d) (pd_manifest d) (pd_manifest_open d)
       (pd_manifest_boff d) (pd_vs_wal d) (pd_prev_wal d) (pd_wal d) (pd_wal_boff d) (pd_seq d)
       (pd_mem d) (pd_imm d).

(** [set_current_file] *)
Definition set_current_ops (n : N) : list fsop :=
  [FsCreate (FTemp n); FsAppend (FTemp n) (current_contents n); FsRename n].

Definition version_files (v : version) : list (N * fmeta) :=
  let fix go (level : N) (v : version) : list (N * fmeta) :=
      match v with
      | [] => []
      | fs :: r => map (fun f => (level, f)) fs ++ go (level + 1) r
      end in
  go 0 v.

(** [write_snapshot] *)
Definition snapshot_change (d : pdb) : vchange :=
  mkVC None None None None (pd_pointers d) [] (version_files (pd_ver d)).

Definition edit_of (c : vchange) : vedit :=
  mkVE (map (fun x => (N.to_nat (fst x), snd x)) (vc_deleted c))
       (map (fun x => (N.to_nat (fst x), snd x)) (vc_new c)).

(** [VersionSet::log_and_apply]: [None] = an assertion fails (overlap within a level) *)
Definition log_and_apply (d : pdb) (c : vchange) (seq : N) : option (pdb * list fsop) :=
  let wal := match vc_wal c with Some w => w | None => pd_vs_wal d end in
  let prev := match vc_prev_wal c with Some p => Some p | None => pd_prev_wal d end in
  let c' := mkVC (Some wal) prev (Some (pd_next d)) (Some seq) (vc_pointers c) (vc_deleted c) (vc_new c) in
  match apply_edit (pd_ver d) (edit_of c) with
  | None => None
  | Some v' =>
      let m := pd_manifest d in
      let snap := log_append 0 (vchange_encode (snapshot_change d)) in
      let pre := if pd_manifest_open d then [] else [FsCreate (FManifest m); FsAppend (FManifest m) (fst snap)] in
      let boff1 := if pd_manifest_open d then pd_manifest_boff d else snd snap in
      let rec := log_append boff1 (vchange_encode c') in
      let post := if pd_manifest_open d then [] else set_current_ops m in
      let ops := pre ++ [FsAppend (FManifest m) (fst rec)] ++ post in
      Some (mkPD (apply_fsops (pd_img d) ops) v'
                 (fold_left set_pointer (vc_pointers c) (pd_pointers d))
                 (pd_next d) m true (snd rec) wal prev (pd_wal d) (pd_wal_boff d) (pd_seq d)
                 (pd_mem d) (pd_imm d),
            ops)
  end.

(** [remove_obsolete_files] with no other holder of an older version and no table being
    written *)
Definition image_files (img : image) : list fname :=
  map (fun p => FWal (fst p)) (i_wals img) ++ map (fun p => FTable (fst p)) (i_tables img)
  ++ map (fun p => FManifest (fst p)) (i_manifests img) ++ map (fun p => FTemp (fst p)) (i_temps img).

Definition gc_view_of (d : pdb) : gc_view :=
  mkGC (version_numbers (pd_ver d)) [] (pd_vs_wal d) (pd_prev_wal d) (pd_manifest d).

Definition gc_ops (d : pdb) : list fsop :=
  map FsRemove (filter (fun f => negb (keep (gc_view_of d) f)) (image_files (pd_img d))).

Definition do_gc (d : pdb) : pdb * list fsop :=
  let ops := gc_ops d in (with_img d (apply_fsops (pd_img d) ops), ops).

(** ** writing a table from a memtable ([convert_memtable_to_file]): the file number is consumed
    even when the memtable is empty and no file is written *)
Definition table_ops (num : N) (es : list entry) : list fsop :=
  match es with [] => [] | _ => [FsCreate (FTable num); FsTable num es] end.

Definition table_meta (num size : N) (es : list entry) : option fmeta :=
  match first_key es, last_key es with
  | Some a, Some b => Some (mkFM num size a b)
  | _, _ => None
  end.

Definition size_of (sizes : list (N * N)) (num : N) : N :=
  match lookupN num sizes with Some s => s | None => 0 end.

(** ** opening *)
Record open_oracle := mkOO {
  oo_reuse : bool;                 (* DbOptions::reuse_log_files *)
  oo_max_file_size : N;            (* DbOptions::max_file_size *)
  oo_cuts : list N;                (* last sequence numbers of the batches after which the
                                      memtable was full during log replay *)
  oo_sizes : list (N * N)          (* table number -> file size of the tables built *)
}.

Record replay_state := mkRS {
  rs_next : N;
  rs_mem : list entry;
  rs_cuts : list N;
  rs_ops : list fsop;
  rs_added : list (N * fmeta);
  rs_flushes : nat;                (* flushes while replaying the current log *)
  rs_new_manifest : bool
}.

Definition rs_flush (sizes : list (N * N)) (r : replay_state) : replay_state :=
  let num := rs_next r + 1 in
  let added := match table_meta num (size_of sizes num) (rs_mem r) with
               | Some f => [(0, f)] | None => [] end in
  mkRS num [] (rs_cuts r) (rs_ops r ++ table_ops num (rs_mem r)) (rs_added r ++ added)
       (S (rs_flushes r)) true.

Fixpoint replay_batches (sizes : list (N * N)) (bs : list batch) (r : replay_state) : replay_state :=
  match bs with
  | [] => r
  | b :: rest =>
      let mem := fold_left (fun m e => insert_entry e m) (batch_entries b) (rs_mem r) in
      let r1 := mkRS (rs_next r) mem (rs_cuts r) (rs_ops r) (rs_added r) (rs_flushes r) (rs_new_manifest r) in
      let r2 := match rs_cuts r1 with
                | c :: cs =>
                    if c =? batch_last_seq b
                    then rs_flush sizes (mkRS (rs_next r1) mem cs (rs_ops r1) (rs_added r1) (rs_flushes r1) (rs_new_manifest r1))
                    else r1
                | [] => r1
                end in
      replay_batches sizes rest r2
  end.

(** the logs one after the other; result: replay state, the reused log (number, block offset) *)
Fixpoint replay_logs (o : open_oracle) (img : image) (ws : list wal_replay) (r : replay_state)
  : replay_state * option (N * N) :=
  match ws with
  | [] => (r, None)
  | w :: rest =>
      let r0 := mkRS (rs_next r) [] (rs_cuts r) (rs_ops r) (rs_added r) O (rs_new_manifest r) in
      let r1 := replay_batches (oo_sizes o) (wr_batches w) r0 in
      let is_last := match rest with [] => true | _ => false end in
      let reuse := oo_reuse o && is_last && Nat.eqb (rs_flushes r1) 0 && wr_intact w in
      let keep_mem := reuse && negb (match rs_mem r1 with [] => true | _ => false end) in
      let r2 := if keep_mem then r1 else rs_flush (oo_sizes o) r1 in
      let r3 := mkRS (N.max (rs_next r2) (wr_number w)) (rs_mem r2) (rs_cuts r2) (rs_ops r2)
                     (rs_added r2) (rs_flushes r2) (rs_new_manifest r2) in
      if reuse then
        let len := match lookupN (wr_number w) (i_wals img) with Some f => blen f | None => 0 end in
        (r3, Some (wr_number w, len mod BLOCK_SIZE_BYTES))
      else replay_logs o img rest r3
  end.

Definition new_db_change : vchange := mkVC (Some 0) None (Some 1) (Some 0) [] [] [].

Definition init_ops : list fsop :=
  [FsCreate (FManifest 1); FsAppend (FManifest 1) (fst (log_append 0 (vchange_encode new_db_change)))]
  ++ set_current_ops 1.

(** [DB::open] on the directory [img0]; [None] = the open fails *)
Definition p_open (o : open_oracle) (img0 : image) : option (pdb * list fsop) :=
  let ops0 := match i_current img0 with None => init_ops | Some _ => [] end in
  let img1 := apply_fsops img0 ops0 in
  match recover_image img1 with
  | inr _ => None
  | inl rc =>
      let ms := rc_manifest rc in
      let next1 := ms_next ms + 1 in
      let reuse_manifest := ms_intact ms && oo_reuse o && (ms_size ms <? oo_max_file_size o) in
      let r0 := mkRS next1 [] (oo_cuts o) [] [] O false in
      let '(r, reused) := replay_logs o img1 (rc_wals rc) r0 in
      let next2 := match reused with Some _ => rs_next r | None => rs_next r + 1 end in
      let wal_ops := match reused with Some _ => [] | None => [FsCreate (FWal next2)] end in
      let wal := match reused with Some (n, _) => n | None => next2 end in
      let wal_boff := match reused with Some (_, b) => b | None => 0 end in
      let mem := match reused with Some _ => rs_mem r | None => [] end in
      let ops1 := ops0 ++ rs_ops r ++ wal_ops in
      let d1 := mkPD (apply_fsops img0 ops1) (ms_version ms) (ms_pointers ms) next2
                     (if reuse_manifest then ms_number ms else next1) reuse_manifest
                     (ms_size ms mod BLOCK_SIZE_BYTES)
                     (ms_wal ms) (ms_prev_wal ms) wal wal_boff (rc_seq rc) mem None in
      let new_snapshot := negb reuse_manifest || rs_new_manifest r in
      let step2 :=
        if new_snapshot then
          log_and_apply d1 (mkVC (Some wal) None None None [] [] (rs_added r)) (rc_seq rc)
        else Some (d1, []) in
      match step2 with
      | None => None
      | Some (d2, ops2) =>
          let '(d3, ops3) := do_gc d2 in
          Some (d3, ops1 ++ ops2 ++ ops3)
      end
  end.

(** ** steps of an open database *)
Definition p_write (d : pdb) (b : list wop) : pdb * list fsop :=
  let batch : batch := (pd_seq d + 1, b) in
  let rec := log_append (pd_wal_boff d) (batch_bytes batch) in
  let ops := [FsAppend (FWal (pd_wal d)) (fst rec)] in
  (mkPD (apply_fsops (pd_img d) ops) (pd_ver d) (pd_pointers d) (pd_next d) (pd_manifest d)
        (pd_manifest_open d) (pd_manifest_boff d) (pd_vs_wal d) (pd_prev_wal d) (pd_wal d) (snd rec)
        (pd_seq d + N.of_nat (length b))
        (fold_left (fun m e => insert_entry e m) (batch_entries batch) (pd_mem d)) (pd_imm d),
   ops).

(** [make_room_for_write] when the memtable is full (or a flush is forced) *)
Definition p_rotate (d : pdb) : pdb * list fsop :=
  match pd_imm d with
  | Some _ => (d, [])
  | None =>
      let n := pd_next d + 1 in
      let ops := [FsCreate (FWal n)] in
      (mkPD (apply_fsops (pd_img d) ops) (pd_ver d) (pd_pointers d) n (pd_manifest d)
            (pd_manifest_open d) (pd_manifest_boff d) (pd_vs_wal d) (pd_prev_wal d) n 0 (pd_seq d)
            [] (Some (pd_mem d)),
       ops)
  end.

(** [compact_memtable]: [level] and [size] are what the code chose for the new table, [seq] the
    sequence number it recorded (a write may be published while the table is being built) *)
Definition p_flush (d : pdb) (level size seq : N) : option (pdb * list fsop) :=
  match pd_imm d with
  | None => Some (d, [])
  | Some es =>
      let num := pd_next d + 1 in
      let ops1 := table_ops num es in
      let added := match table_meta num size es with Some f => [(level, f)] | None => [] end in
      let d1 := mkPD (apply_fsops (pd_img d) ops1) (pd_ver d) (pd_pointers d) num (pd_manifest d)
                     (pd_manifest_open d) (pd_manifest_boff d) (pd_vs_wal d) (pd_prev_wal d)
                     (pd_wal d) (pd_wal_boff d) (pd_seq d) (pd_mem d) (pd_imm d) in
      match log_and_apply d1 (mkVC (Some (pd_wal d)) None None None [] [] added) seq with
      | None => None
      | Some (d2, ops2) =>
          let d3 := mkPD (pd_img d2) (pd_ver d2) (pd_pointers d2) (pd_next d2) (pd_manifest d2)
                         (pd_manifest_open d2) (pd_manifest_boff d2) (pd_vs_wal d2) (pd_prev_wal d2)
                         (pd_wal d2) (pd_wal_boff d2) (pd_seq d2) (pd_mem d2) None in
          let '(d4, ops4) := do_gc d3 in
          Some (d4, ops1 ++ ops2 ++ ops4)
      end
  end.

(** a table compaction or trivial move: the outputs (number, level, bounds, size, entries) are
    what the code produced; tables that already exist are moved, not written *)
Definition p_install (d : pdb) (deleted : list (N * N)) (added : list (N * fmeta * list entry))
                     (pointers : list (N * ikey)) (seq : N) : option (pdb * list fsop) :=
  let fresh := filter (fun a => negb (existsb (fun p => fst p =? fm_num (snd (fst a))) (i_tables (pd_img d)))) added in
  let ops1 := flat_map (fun a => table_ops (fm_num (snd (fst a))) (snd a)) fresh in
  let next := fold_left (fun m a => N.max m (fm_num (snd (fst a)))) fresh (pd_next d) in
  let d1 := mkPD (apply_fsops (pd_img d) ops1) (pd_ver d) (pd_pointers d) next (pd_manifest d)
                 (pd_manifest_open d) (pd_manifest_boff d) (pd_vs_wal d) (pd_prev_wal d)
                 (pd_wal d) (pd_wal_boff d) (pd_seq d) (pd_mem d) (pd_imm d) in
  match log_and_apply d1 (mkVC None None None None pointers deleted (map fst added)) seq with
  | None => None
  | Some (d2, ops2) =>
      let '(d3, ops3) := do_gc d2 in
      Some (d3, ops1 ++ ops2 ++ ops3)
  end.

(** ** runs *)
Inductive pop :=
| QOpen (o : open_oracle)              (* (close and) open *)
| QWrite (b : list wop)
| QRotate
| QFlush (level size seq : N)
| QInstall (deleted : list (N * N)) (added : list (N * fmeta * list entry)) (pointers : list (N * ikey)) (seq : N).

(** the state between operations: the directory and, when the database is open, its state *)
Record prun := mkPR {
  pr_img : image;
  pr_db : option pdb;
  pr_failed : bool            (* an open failed or an assertion fired *)
}.

Definition prun_init : prun := mkPR empty_image None false.

Definition p_step (s : prun) (o : pop) : prun * list fsop :=
  if pr_failed s then (s, []) else
  match o, pr_db s with
  | QOpen oo, _ =>
      match p_open oo (pr_img s) with
      | Some (d, ops) => (mkPR (pd_img d) (Some d) false, ops)
      | None => (mkPR (pr_img s) None true, [])
      end
  | QWrite b, Some d => let '(d', ops) := p_write d b in (mkPR (pd_img d') (Some d') false, ops)
  | QRotate, Some d => let '(d', ops) := p_rotate d in (mkPR (pd_img d') (Some d') false, ops)
  | QFlush l sz q, Some d =>
      match p_flush d l sz q with
      | Some (d', ops) => (mkPR (pd_img d') (Some d') false, ops)
      | None => (mkPR (pr_img s) None true, [])
      end
  | QInstall del add ptr q, Some d =>
      match p_install d del add ptr q with
      | Some (d', ops) => (mkPR (pd_img d') (Some d') false, ops)
      | None => (mkPR (pr_img s) None true, [])
      end
  | _, None => (s, [])
  end.

Fixpoint p_run (s : prun) (ops : list pop) : prun * list fsop :=
  match ops with
  | [] => (s, [])
  | o :: r =>
      let '(s1, e1) := p_step s o in
      let '(s2, e2) := p_run s1 r in
      (s2, e1 ++ e2)
  end.

(** ** what an acknowledged history must leave recoverable: the batches written so far *)
Fixpoint acked_batches (seq : N) (ops : list pop) : list batch :=
  match ops with
  | [] => []
  | QWrite b :: r => (seq + 1, b) :: acked_batches (seq + N.of_nat (length b)) r
  | _ :: r => acked_batches seq r
  end.
